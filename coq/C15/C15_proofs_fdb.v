(* C15 proofs, part 1: closed forms of the Bell polynomials (semantics of sympy.bell) and the chain rule up to order 3
   for the hand-written reference jets Y1, Y2, Y3.  Independent of the generated code. *)
From Coq Require Import Reals Lra List.
From Coquelicot Require Import Coquelicot.
From P Require Import C15_bell C15_ref.
Import ListNotations.
Open Scope R_scope.

(* replace `Derive F y` by the value given by a hypothesis `is_derive f y l` *)
Ltac derive_known := repeat match goal with |- context [Derive ?F ?y] =>
  match goal with H : is_derive ?f y ?l |- _ =>
    replace (Derive F y) with l by (symmetry; apply is_derive_unique; exact H) end end.
Ltac ex_known := repeat split; try exact I; try (eexists; eassumption).

(* ---------------------------------------------------------------- Bell polynomials: closed forms for n, k <= 3 (and B_{4,2}) *)
Lemma bell_1_1 a b c : bell 1 1 [a; b; c] = a. Proof. unfold bell; simpl; ring. Qed.
Lemma bell_2_1 a b c : bell 2 1 [a; b; c] = b. Proof. unfold bell; simpl; ring. Qed.
Lemma bell_2_2 a b c : bell 2 2 [a; b; c] = a ^ 2. Proof. unfold bell; simpl; ring. Qed.
Lemma bell_3_1 a b c : bell 3 1 [a; b; c] = c. Proof. unfold bell; simpl; ring. Qed.
Lemma bell_3_2 a b c : bell 3 2 [a; b; c] = 3 * a * b. Proof. unfold bell; simpl; ring. Qed.
Lemma bell_3_3 a b c : bell 3 3 [a; b; c] = a ^ 3. Proof. unfold bell; simpl; ring. Qed.
Lemma bell_4_2 a b c d : bell 4 2 [a; b; c; d] = 4 * a * c + 3 * b ^ 2. Proof. unfold bell; simpl; ring. Qed.
Lemma bell_lt a b c : bell 1 2 [a; b; c] = 0 /\ bell 1 3 [a; b; c] = 0 /\ bell 2 3 [a; b; c] = 0.
Proof. unfold bell; simpl; repeat split; ring. Qed.
Ltac bell_closed := rewrite ?bell_1_1, ?bell_2_1, ?bell_2_2, ?bell_3_1, ?bell_3_2, ?bell_3_3.

(* ---------------------------------------------------------------- chain rule up to order 3 (reference formulas Y1, Y2, Y3) *)
Section FdB.
  Variables (u0 u1 u2 u3 g g1 g2 g3 : R -> R) (x : R).
  Hypothesis Hg1 : is_derive g x (g1 x).
  Hypothesis Hg2 : is_derive g1 x (g2 x).
  Hypothesis Hg3 : is_derive g2 x (g3 x).
  Hypothesis Hu1 : is_derive u0 (g x) (u1 (g x)).
  Hypothesis Hu2 : is_derive u1 (g x) (u2 (g x)).
  Hypothesis Hu3 : is_derive u2 (g x) (u3 (g x)).

  Lemma fdb1 : is_derive (fun t => u0 (g t)) x (Y1 u1 g g1 x).
  Proof. unfold Y1. auto_derive; [ex_known | derive_known; ring]. Qed.
  Lemma fdb2 : is_derive (Y1 u1 g g1) x (Y2 u1 u2 g g1 g2 x).
  Proof. unfold Y1, Y2. auto_derive; [ex_known | derive_known; ring]. Qed.
  Lemma fdb3 : is_derive (Y2 u1 u2 g g1 g2) x (Y3 u1 u2 u3 g g1 g2 g3 x).
  Proof. unfold Y2, Y3. auto_derive; [ex_known | derive_known; ring]. Qed.
End FdB.

(* on an open set the reference jets are the iterated derivatives (Coquelicot's Derive_n / is_derive_n) *)
Section FdBn.
  Variables (u0 u1 u2 u3 g g1 g2 g3 : R -> R) (D : R -> Prop).
  Hypothesis D_open : forall x, D x -> locally x D.
  Hypothesis H : forall x, D x ->
    is_derive g x (g1 x) /\ is_derive g1 x (g2 x) /\ is_derive g2 x (g3 x) /\
    is_derive u0 (g x) (u1 (g x)) /\ is_derive u1 (g x) (u2 (g x)) /\ is_derive u2 (g x) (u3 (g x)).
  Let y0 := fun t => u0 (g t).

  Lemma D1_eq x : D x -> Derive y0 x = Y1 u1 g g1 x.
  Proof. intros Hx. destruct (H x Hx) as (A & B & C & E & F & G). apply is_derive_unique. exact (fdb1 u0 u1 g g1 x A E). Qed.
  Lemma D2_eq x : D x -> Derive (Derive y0) x = Y2 u1 u2 g g1 g2 x.
  Proof.
    intros Hx. destruct (H x Hx) as (A & B & C & E & F & G).
    rewrite (Derive_ext_loc (Derive y0) (Y1 u1 g g1)).
    - apply is_derive_unique. exact (fdb2 u1 u2 g g1 g2 x A B F).
    - apply (filter_imp D (fun t => Derive y0 t = Y1 u1 g g1 t)); [|exact (D_open x Hx)]. intros t Ht. exact (D1_eq t Ht).
  Qed.
  Lemma derive_n_lemma x : D x ->
    is_derive_n y0 1 x (Y1 u1 g g1 x) /\ is_derive_n y0 2 x (Y2 u1 u2 g g1 g2 x) /\
    is_derive_n y0 3 x (Y3 u1 u2 u3 g g1 g2 g3 x).
  Proof.
    intros Hx. destruct (H x Hx) as (A & B & C & E & F & G). split; [|split].
    - simpl. exact (fdb1 u0 u1 g g1 x A E).
    - simpl. apply (is_derive_ext_loc (Y1 u1 g g1)).
      + apply (filter_imp D (fun t => Y1 u1 g g1 t = Derive y0 t)); [|exact (D_open x Hx)]. intros t Ht. symmetry. exact (D1_eq t Ht).
      + exact (fdb2 u1 u2 g g1 g2 x A B F).
    - simpl. apply (is_derive_ext_loc (Y2 u1 u2 g g1 g2)).
      + apply (filter_imp D (fun t => Y2 u1 u2 g g1 g2 t = Derive (Derive y0) t)); [|exact (D_open x Hx)]. intros t Ht. symmetry. exact (D2_eq t Ht).
      + exact (fdb3 u1 u2 u3 g g1 g2 g3 x A B C F G).
  Qed.
End FdBn.

