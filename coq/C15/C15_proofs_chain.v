(* C15 proofs, part 2a: the coefficient rewriting of _transform_ode_from_derivs for ODEs of order 1 and 2 (regenerated terms
   tode_b1_j, tode_b2_j) is the chain rule: sum_k a_k y^(k)(x) = sum_j b_j u^(j)(g x) for y = u o g.  unfold + ring only. *)
From Coq Require Import Reals Lra List.
From Coquelicot Require Import Coquelicot.
From P Require Import C15_bell C15_gen C15_ref C15_proofs_fdb.
Import ListNotations.
Open Scope R_scope.

Lemma tode_1_lemma a0 a1 d1 d2 d3 w0 w1 :
  a0 * w0 + a1 * (w1 * d1) = tode_b1_0 a0 a1 d1 d2 d3 * w0 + tode_b1_1 a0 a1 d1 d2 d3 * w1.
Proof. unfold tode_b1_0, tode_b1_1. ring. Qed.
Lemma tode_2_lemma a0 a1 a2 d1 d2 d3 w0 w1 w2 :
  a0 * w0 + a1 * (w1 * d1) + a2 * (w2 * d1 ^ 2 + w1 * d2) =
  tode_b2_0 a0 a1 a2 d1 d2 d3 * w0 + tode_b2_1 a0 a1 a2 d1 d2 d3 * w1 + tode_b2_2 a0 a1 a2 d1 d2 d3 * w2.
Proof. unfold tode_b2_0, tode_b2_1, tode_b2_2. ring. Qed.

Lemma tode_leading_12 a0 a1 a2 d1 d2 d3 :
  tode_b1_1 a0 a1 d1 d2 d3 = a1 * d1 /\ tode_b2_2 a0 a1 a2 d1 d2 d3 = a2 * d1 ^ 2.
Proof. unfold tode_b1_1, tode_b2_2. split; ring. Qed.

Section ChainRule.
  Variables (u0 u1 u2 u3 g g1 g2 g3 : R -> R) (x : R).
  Hypothesis Hg1 : is_derive g x (g1 x).
  Hypothesis Hg2 : is_derive g1 x (g2 x).
  Hypothesis Hg3 : is_derive g2 x (g3 x).
  Hypothesis Hu1 : is_derive u0 (g x) (u1 (g x)).
  Hypothesis Hu2 : is_derive u1 (g x) (u2 (g x)).
  Hypothesis Hu3 : is_derive u2 (g x) (u3 (g x)).
  Let y1 := Y1 u1 g g1.
  Let y2 := Y2 u1 u2 g g1 g2.
  Let y3 := Y3 u1 u2 u3 g g1 g2 g3.

  Lemma chain_rule_1_lemma a0 a1 :
    is_derive (fun t => u0 (g t)) x (y1 x) /\
    a0 * u0 (g x) + a1 * y1 x =
    tode_b1_0 a0 a1 (g1 x) (g2 x) (g3 x) * u0 (g x) + tode_b1_1 a0 a1 (g1 x) (g2 x) (g3 x) * u1 (g x).
  Proof. split; [exact (fdb1 u0 u1 g g1 x Hg1 Hu1)|]. unfold y1, Y1. apply tode_1_lemma. Qed.
  Lemma chain_rule_2_lemma a0 a1 a2 :
    is_derive (fun t => u0 (g t)) x (y1 x) /\ is_derive y1 x (y2 x) /\
    a0 * u0 (g x) + a1 * y1 x + a2 * y2 x =
    tode_b2_0 a0 a1 a2 (g1 x) (g2 x) (g3 x) * u0 (g x) + tode_b2_1 a0 a1 a2 (g1 x) (g2 x) (g3 x) * u1 (g x) +
    tode_b2_2 a0 a1 a2 (g1 x) (g2 x) (g3 x) * u2 (g x).
  Proof. split; [exact (fdb1 u0 u1 g g1 x Hg1 Hu1)|]. split; [exact (fdb2 u1 u2 g g1 g2 x Hg1 Hg2 Hu2)|]. unfold y1, y2, Y1, Y2. apply tode_2_lemma. Qed.
End ChainRule.
