(* C15: without a transform the right-hand side handed to SciPy is the explicit form at x itself and res.sol is returned as is. *)
From Coq Require Import Reals Lra List.
From Coquelicot Require Import Coquelicot.
From P Require Import C15_bell C15_gen C15_ref C15_model.
Open Scope R_scope.

(* ---------------------------------------------------------------- no transform: res.sol is returned as is *)
Lemma direct_3_lemma (a0 a1 a2 a3 f : R -> R) (D : R -> Prop) (S0 S1 S2 : R -> R) :
  (forall x, D x -> a3 x <> 0) ->
  solves_3 D (fun x => x) (ivp_rhsD_3 a0 a1 a2 a3 f) S0 S1 S2 ->
  forall x, D x -> exists y3 : R, is_derive S0 x (S1 x) /\ is_derive S1 x (S2 x) /\ is_derive S2 x y3 /\
    a0 x * S0 x + a1 x * S1 x + a2 x * S2 x + a3 x * y3 = f x.
Proof.
  intros Ha HS x Hx. destruct (HS x Hx) as (E1 & E2 & E3). unfold ivp_rhsD_3 in E1, E2, E3. cbn [fst snd] in E1, E2, E3.
  eexists. split; [exact E1|]. split; [exact E2|]. split; [exact E3|].
  field. exact (Ha x Hx).
Qed.
Lemma direct_2_lemma (a0 a1 a2 f : R -> R) (D : R -> Prop) (S0 S1 : R -> R) :
  (forall x, D x -> a2 x <> 0) ->
  solves_2 D (fun x => x) (ivp_rhsD_2 a0 a1 a2 f) S0 S1 ->
  forall x, D x -> exists y2 : R, is_derive S0 x (S1 x) /\ is_derive S1 x y2 /\ a0 x * S0 x + a1 x * S1 x + a2 x * y2 = f x.
Proof.
  intros Ha HS x Hx. destruct (HS x Hx) as (E1 & E2). unfold ivp_rhsD_2 in E1, E2. cbn [fst snd] in E1, E2.
  eexists. split; [exact E1|]. split; [exact E2|]. field. exact (Ha x Hx).
Qed.
Lemma direct_1_lemma (a0 a1 f : R -> R) (D : R -> Prop) (S0 : R -> R) :
  (forall x, D x -> a1 x <> 0) ->
  solves_1 D (fun x => x) (ivp_rhsD_1 a0 a1 f) S0 ->
  forall x, D x -> exists y1 : R, is_derive S0 x y1 /\ a0 x * S0 x + a1 x * y1 = f x.
Proof.
  intros Ha HS x Hx. pose proof (HS x Hx) as E1. unfold ivp_rhsD_1 in E1.
  eexists. split; [exact E1|]. field. exact (Ha x Hx).
Qed.
Lemma bvp_direct_same_rhs a0 a1 a2 a3 f x w0 w1 w2 :
  bvp_rhsD_1 a0 a1 f x w0 = ivp_rhsD_1 a0 a1 f x w0 /\ bvp_rhsD_2 a0 a1 a2 f x w0 w1 = ivp_rhsD_2 a0 a1 a2 f x w0 w1 /\
  bvp_rhsD_3 a0 a1 a2 a3 f x w0 w1 w2 = ivp_rhsD_3 a0 a1 a2 a3 f x w0 w1 w2.
Proof. repeat split; reflexivity. Qed.
