(* C15 property theorems (statements only): instances with transforms regenerated from src/grid/rtransform.py (C03_gen.v). *)
From Coq Require Import Reals List.
From Coquelicot Require Import Coquelicot.
From P Require Import C03_gen.
From P Require Import C15_bell C15_gen C15_ref C15_model C15_proofs_wiring C15_proofs_inst.
Import ListNotations.
Open Scope R_scope.

Theorem Becke_admissible : forall (rmin R_ : R),
  0 < R_ ->
  tf_ok Dom (Becke_transform rmin R_) (Becke_inverse rmin R_) (Becke_deriv rmin R_) (Becke_deriv2 rmin R_) (Becke_deriv3 rmin R_).
Proof. exact Becke_tf_ok_lemma. Qed.
Print Assumptions Becke_admissible.

Theorem Knowles_admissible : forall (rmin R_ k : R),
  0 < R_ -> 0 < k ->
  tf_ok Dom (Knowles_transform rmin R_ k) (Knowles_inverse rmin R_ k) (Knowles_deriv rmin R_ k) (Knowles_deriv2 rmin R_ k) (Knowles_deriv3 rmin R_ k).
Proof. exact Knowles_tf_ok_lemma. Qed.
Print Assumptions Knowles_admissible.

Theorem MultiExp_admissible : forall (rmin R_ : R),
  0 < R_ ->
  tf_ok Dom (MultiExp_transform rmin R_) (MultiExp_inverse rmin R_) (MultiExp_deriv rmin R_) (MultiExp_deriv2 rmin R_) (MultiExp_deriv3 rmin R_).
Proof. exact MultiExp_tf_ok_lemma. Qed.
Print Assumptions MultiExp_admissible.

Theorem solution_transfers_ivp_3_Becke : forall (rmin R_ : R) (a0 a1 a2 a3 f : R -> R) (x0 x1 c0 c1 c2 : R) (S0 S1 S2 : R -> R),
  0 < R_ -> (forall x, Dom x -> a3 x <> 0) ->
  let g := Becke_transform rmin R_ in let ginv := Becke_inverse rmin R_ in
  let g1 := Becke_deriv rmin R_ in let g2 := Becke_deriv2 rmin R_ in let g3 := Becke_deriv3 rmin R_ in
  solves_3 Dom g (ivp_rhsT_3 a0 a1 a2 a3 ginv g1 g2 g3 f) S0 S1 S2 ->
  init_T_3 g1 g2 g3 x0 c0 c1 c2 (S0 (fst (span_T g x0 x1)), S1 (fst (span_T g x0 x1)), S2 (fst (span_T g x0 x1))) ->
  let y := out_T_3 g g1 g2 g3 S0 S1 S2 in
  (forall x, Dom x -> exists y3 : R,
     is_derive (fun t => fst (fst (y t))) x (snd (fst (y x))) /\ is_derive (fun t => snd (fst (y t))) x (snd (y x)) /\
     is_derive (fun t => snd (y t)) x y3 /\
     a0 x * fst (fst (y x)) + a1 x * snd (fst (y x)) + a2 x * snd (y x) + a3 x * y3 = f x) /\
  y x0 = (c0, c1, c2).
Proof. exact ivp3_Becke_lemma. Qed.
Print Assumptions solution_transfers_ivp_3_Becke.

Theorem solution_transfers_ivp_3_Knowles : forall (rmin R_ k : R) (a0 a1 a2 a3 f : R -> R) (x0 x1 c0 c1 c2 : R) (S0 S1 S2 : R -> R),
  0 < R_ -> 0 < k -> (forall x, Dom x -> a3 x <> 0) ->
  let g := Knowles_transform rmin R_ k in let ginv := Knowles_inverse rmin R_ k in
  let g1 := Knowles_deriv rmin R_ k in let g2 := Knowles_deriv2 rmin R_ k in let g3 := Knowles_deriv3 rmin R_ k in
  solves_3 Dom g (ivp_rhsT_3 a0 a1 a2 a3 ginv g1 g2 g3 f) S0 S1 S2 ->
  init_T_3 g1 g2 g3 x0 c0 c1 c2 (S0 (fst (span_T g x0 x1)), S1 (fst (span_T g x0 x1)), S2 (fst (span_T g x0 x1))) ->
  let y := out_T_3 g g1 g2 g3 S0 S1 S2 in
  (forall x, Dom x -> exists y3 : R,
     is_derive (fun t => fst (fst (y t))) x (snd (fst (y x))) /\ is_derive (fun t => snd (fst (y t))) x (snd (y x)) /\
     is_derive (fun t => snd (y t)) x y3 /\
     a0 x * fst (fst (y x)) + a1 x * snd (fst (y x)) + a2 x * snd (y x) + a3 x * y3 = f x) /\
  y x0 = (c0, c1, c2).
Proof. exact ivp3_Knowles_lemma. Qed.
Print Assumptions solution_transfers_ivp_3_Knowles.

Theorem solution_transfers_bvp_2_MultiExp : forall (rmin R_ : R) (a0 a1 a2 f : R -> R) (xa xb : R) (S0 S1 : R -> R),
  0 < R_ -> (forall x, Dom x -> a2 x <> 0) ->
  let g := MultiExp_transform rmin R_ in let ginv := MultiExp_inverse rmin R_ in
  let g1 := MultiExp_deriv rmin R_ in let g2 := MultiExp_deriv2 rmin R_ in let g3 := MultiExp_deriv3 rmin R_ in
  solves_2 Dom g (bvp_rhsT_2 a0 a1 a2 ginv g1 g2 g3 f) S0 S1 ->
  let y := out_T_2 g g1 g2 g3 S0 S1 in
  let Ya := [S0 (g xa); S1 (g xa)] in let Yb := [S0 (g xb); S1 (g xb)] in
  (forall x, Dom x -> exists y2 : R,
     is_derive (fun t => fst (y t)) x (snd (y x)) /\ is_derive (fun t => snd (y t)) x y2 /\
     a0 x * fst (y x) + a1 x * snd (y x) + a2 x * y2 = f x) /\
  (forall C, bc_entry 0 0 C Ya Yb = 0 -> fst (y xa) = C) /\
  (forall C, bc_entry 1 0 C Ya Yb = 0 -> fst (y xb) = C) /\
  (forall C, bc_entry 0 1 C Ya Yb = 0 -> snd (y xa) = g1 xa * C) /\
  (forall C, bc_entry 1 1 C Ya Yb = 0 -> snd (y xb) = g1 xb * C).
Proof. exact bvp2_MultiExp_lemma. Qed.
Print Assumptions solution_transfers_bvp_2_MultiExp.

Theorem chain_rule_3_Knowles : forall (rmin R_ k : R) (u0 u1 u2 u3 : R -> R) (a0 a1 a2 a3 x : R),
  0 < R_ -> 0 < k -> Dom x ->
  let g := Knowles_transform rmin R_ k in
  let g1 := Knowles_deriv rmin R_ k in let g2 := Knowles_deriv2 rmin R_ k in let g3 := Knowles_deriv3 rmin R_ k in
  is_derive u0 (g x) (u1 (g x)) -> is_derive u1 (g x) (u2 (g x)) -> is_derive u2 (g x) (u3 (g x)) ->
  is_derive (fun t => u0 (g t)) x (Y1 u1 g g1 x) /\ is_derive (Y1 u1 g g1) x (Y2 u1 u2 g g1 g2 x) /\
  is_derive (Y2 u1 u2 g g1 g2) x (Y3 u1 u2 u3 g g1 g2 g3 x) /\
  a0 * u0 (g x) + a1 * Y1 u1 g g1 x + a2 * Y2 u1 u2 g g1 g2 x + a3 * Y3 u1 u2 u3 g g1 g2 g3 x =
  tode_b3_0 a0 a1 a2 a3 (g1 x) (g2 x) (g3 x) * u0 (g x) + tode_b3_1 a0 a1 a2 a3 (g1 x) (g2 x) (g3 x) * u1 (g x) +
  tode_b3_2 a0 a1 a2 a3 (g1 x) (g2 x) (g3 x) * u2 (g x) + tode_b3_3 a0 a1 a2 a3 (g1 x) (g2 x) (g3 x) * u3 (g x).
Proof. exact chain_rule_3_Knowles_lemma. Qed.
Print Assumptions chain_rule_3_Knowles.

Theorem Dom_is_open : forall x, Dom x -> locally x Dom.
Proof. exact Dom_open. Qed.
Print Assumptions Dom_is_open.
