(* C15 proofs, part 4: _rearrange_to_explicit_ode (regenerated explicit_K) is equivalent to the ODE when the leading
   coefficient does not vanish; _evaluate_coeffs_on_points; the composition _transform_and_rearrange_to_explicit_ode. *)
From Coq Require Import Reals Lra List.
From Coquelicot Require Import Coquelicot.
From P Require Import C15_bell C15_gen.
Open Scope R_scope.

(* ---------------------------------------------------------------- explicit form *)
Lemma explicit_form_1_lemma b0 b1 fx y0 y1 : b1 <> 0 ->
  (y1 = explicit_1 b0 b1 fx y0 <-> b0 * y0 + b1 * y1 = fx).
Proof. intros Hb. unfold explicit_1. split; intros H; [rewrite H|rewrite <- H]; field; exact Hb. Qed.
Lemma explicit_form_2_lemma b0 b1 b2 fx y0 y1 y2 : b2 <> 0 ->
  (y2 = explicit_2 b0 b1 b2 fx y0 y1 <-> b0 * y0 + b1 * y1 + b2 * y2 = fx).
Proof. intros Hb. unfold explicit_2. split; intros H; [rewrite H|rewrite <- H]; field; exact Hb. Qed.
Lemma explicit_form_3_lemma b0 b1 b2 b3 fx y0 y1 y2 y3 : b3 <> 0 ->
  (y3 = explicit_3 b0 b1 b2 b3 fx y0 y1 y2 <-> b0 * y0 + b1 * y1 + b2 * y2 + b3 * y3 = fx).
Proof. intros Hb. unfold explicit_3. split; intros H; [rewrite H|rewrite <- H]; field; exact Hb. Qed.

(* coefficient evaluation: constants are constant functions *)
Lemma coeff_eval_lemma (c : R) (a : R -> R) x : coeff_const c x = c /\ coeff_fun a x = a x.
Proof. unfold coeff_const, coeff_fun. split; ring. Qed.

(* the transformed explicit right-hand side is the explicit form of the rewritten coefficients *)
Lemma tre_is_explicit_of_tode_lemma (a0 a1 a2 a3 g1 g2 g3 f : R -> R) x w0 w1 w2 :
  tre_3 a0 a1 a2 a3 g1 g2 g3 f x w0 w1 w2 =
  explicit_3 (tode_b3_0 (a0 x) (a1 x) (a2 x) (a3 x) (g1 x) (g2 x) (g3 x)) (tode_b3_1 (a0 x) (a1 x) (a2 x) (a3 x) (g1 x) (g2 x) (g3 x))
             (tode_b3_2 (a0 x) (a1 x) (a2 x) (a3 x) (g1 x) (g2 x) (g3 x)) (tode_b3_3 (a0 x) (a1 x) (a2 x) (a3 x) (g1 x) (g2 x) (g3 x))
             (f x) w0 w1 w2 /\
  tre_2 a0 a1 a2 g1 g2 g3 f x w0 w1 =
  explicit_2 (tode_b2_0 (a0 x) (a1 x) (a2 x) (g1 x) (g2 x) (g3 x)) (tode_b2_1 (a0 x) (a1 x) (a2 x) (g1 x) (g2 x) (g3 x))
             (tode_b2_2 (a0 x) (a1 x) (a2 x) (g1 x) (g2 x) (g3 x)) (f x) w0 w1 /\
  tre_1 a0 a1 g1 g2 g3 f x w0 =
  explicit_1 (tode_b1_0 (a0 x) (a1 x) (g1 x) (g2 x) (g3 x)) (tode_b1_1 (a0 x) (a1 x) (g1 x) (g2 x) (g3 x)) (f x) w0.
Proof. repeat split; reflexivity. Qed.
