(* C15 property theorems (statements only): the matrix of _derivative_transformation_matrix (entries sympy.bell(i+1, j+1, derivs)). *)
From Coq Require Import Reals List.
From Coquelicot Require Import Coquelicot.
From P Require Import C15_bell C15_gen C15_ref C15_model C15_proofs_fdb C15_proofs_matrix.
Import ListNotations.
Open Scope R_scope.

(* invertible (a bijection of R^N: unique pre-image of every vector) iff g' <> 0: conversion of initial data *)
Theorem jet_matrix_invertible_1 : forall d1 d2 d3 : R,
  (forall w, exists v, mv1 d1 d2 d3 v = w /\ forall v', mv1 d1 d2 d3 v' = w -> v' = v) <-> d1 <> 0.
Proof. exact mv1_bij_lemma. Qed.
Print Assumptions jet_matrix_invertible_1.

Theorem jet_matrix_invertible_2 : forall d1 d2 d3 : R,
  (forall w1 w2, exists v1 v2, mv2 d1 d2 d3 v1 v2 = (w1, w2) /\
                 forall v1' v2', mv2 d1 d2 d3 v1' v2' = (w1, w2) -> v1' = v1 /\ v2' = v2) <-> d1 <> 0.
Proof. exact mv2_bij_lemma. Qed.
Print Assumptions jet_matrix_invertible_2.

Theorem jet_matrix_invertible_3 : forall d1 d2 d3 : R,
  (forall w1 w2 w3, exists v1 v2 v3, mv3 d1 d2 d3 v1 v2 v3 = (w1, w2, w3) /\
                    forall v1' v2' v3', mv3 d1 d2 d3 v1' v2' v3' = (w1, w2, w3) -> v1' = v1 /\ v2' = v2 /\ v3' = v3) <-> d1 <> 0.
Proof. exact mv3_bij_lemma. Qed.
Print Assumptions jet_matrix_invertible_3.
