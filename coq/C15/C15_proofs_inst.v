(* C15: the general theorems instantiated with transforms regenerated from src/grid/rtransform.py (C03_gen.v) and
   C03's derivative / inverse lemmas: Becke (rational, increasing), Knowles (real exponent k, increasing) and
   MultiExp (decreasing: g' < 0). *)
From Coq Require Import Reals Lra List.
From Coquelicot Require Import Coquelicot.
From P Require Import C03_gen C03_proofs_simple C03_proofs_knowles.
From P Require Import C15_bell C15_gen C15_ref C15_model C15_proofs_fdb C15_proofs_chain C15_proofs_wiring.
Import ListNotations.
Open Scope R_scope.

Definition Dom (x : R) : Prop := -1 < x < 1.

Lemma Dom_open x : Dom x -> locally x Dom.
Proof.
  intros [H1 H2]. assert (Hp : 0 < Rmin (x + 1) (1 - x)) by (apply Rmin_glb_lt; lra).
  exists (mkposreal _ Hp). intros t Ht. apply Rabs_lt_between' in Ht. simpl in Ht.
  pose proof (Rmin_l (x + 1) (1 - x)). pose proof (Rmin_r (x + 1) (1 - x)). unfold Dom. lra.
Qed.

Lemma Becke_tf_ok_lemma rmin R_ : 0 < R_ ->
  tf_ok Dom (Becke_transform rmin R_) (Becke_inverse rmin R_) (Becke_deriv rmin R_) (Becke_deriv2 rmin R_) (Becke_deriv3 rmin R_).
Proof.
  intros HR x Hx.
  refine (conj (Becke_d1 rmin R_ x Hx) (conj (Becke_d2 rmin R_ x Hx) (conj (Becke_d3 rmin R_ x Hx) (conj _ _)))).
  - apply Rgt_not_eq. exact (Becke_deriv_pos rmin R_ x HR Hx).
  - apply Becke_inv_tf; [lra|exact Hx].
Qed.
Lemma Knowles_tf_ok_lemma rmin R_ k : 0 < R_ -> 0 < k ->
  tf_ok Dom (Knowles_transform rmin R_ k) (Knowles_inverse rmin R_ k) (Knowles_deriv rmin R_ k) (Knowles_deriv2 rmin R_ k) (Knowles_deriv3 rmin R_ k).
Proof.
  intros HR Hk x Hx.
  refine (conj (Knowles_d1 rmin R_ k x Hk Hx) (conj (Knowles_d2 rmin R_ k x Hk Hx) (conj (Knowles_d3 rmin R_ k x Hk Hx) (conj _ _)))).
  - apply Rgt_not_eq. exact (Knowles_deriv_pos rmin R_ k x HR Hk Hx).
  - apply Knowles_inv_tf; [lra|exact Hk|exact Hx].
Qed.
Lemma MultiExp_tf_ok_lemma rmin R_ : 0 < R_ ->
  tf_ok Dom (MultiExp_transform rmin R_) (MultiExp_inverse rmin R_) (MultiExp_deriv rmin R_) (MultiExp_deriv2 rmin R_) (MultiExp_deriv3 rmin R_).
Proof.
  intros HR x Hx.
  refine (conj (MultiExp_d1 rmin R_ x Hx) (conj (MultiExp_d2 rmin R_ x Hx) (conj (MultiExp_d3 rmin R_ x Hx) (conj _ _)))).
  - apply Rlt_not_eq. exact (MultiExp_deriv_neg rmin R_ x HR Hx).
  - apply MultiExp_inv_tf; [lra|exact Hx].
Qed.

Lemma ivp3_Becke_lemma rmin R_ (a0 a1 a2 a3 f : R -> R) (x0 x1 c0 c1 c2 : R) (S0 S1 S2 : R -> R) :
  0 < R_ -> (forall x, Dom x -> a3 x <> 0) ->
  let g := Becke_transform rmin R_ in let ginv := Becke_inverse rmin R_ in
  let g1 := Becke_deriv rmin R_ in let g2 := Becke_deriv2 rmin R_ in let g3 := Becke_deriv3 rmin R_ in
  solves_3 Dom g (ivp_rhsT_3 a0 a1 a2 a3 ginv g1 g2 g3 f) S0 S1 S2 ->
  init_T_3 g1 g2 g3 x0 c0 c1 c2 (S0 (fst (span_T g x0 x1)), S1 (fst (span_T g x0 x1)), S2 (fst (span_T g x0 x1))) ->
  let y := out_T_3 g g1 g2 g3 S0 S1 S2 in
  (forall x, Dom x -> exists y3 : R,
     is_derive (fun t => fst (fst (y t))) x (snd (fst (y x))) /\ is_derive (fun t => snd (fst (y t))) x (snd (y x)) /\
     is_derive (fun t => snd (y t)) x y3 /\
     a0 x * fst (fst (y x)) + a1 x * snd (fst (y x)) + a2 x * snd (y x) + a3 x * y3 = f x) /\
  y x0 = (c0, c1, c2).
Proof.
  intros HR Ha g ginv g1 g2 g3 HS Hi.
  exact (ivp_transfers_3_lemma a0 a1 a2 a3 f g ginv g1 g2 g3 Dom x0 x1 c0 c1 c2 S0 S1 S2 (Becke_tf_ok_lemma rmin R_ HR) Ha HS Hi).
Qed.
Lemma ivp3_Knowles_lemma rmin R_ k (a0 a1 a2 a3 f : R -> R) (x0 x1 c0 c1 c2 : R) (S0 S1 S2 : R -> R) :
  0 < R_ -> 0 < k -> (forall x, Dom x -> a3 x <> 0) ->
  let g := Knowles_transform rmin R_ k in let ginv := Knowles_inverse rmin R_ k in
  let g1 := Knowles_deriv rmin R_ k in let g2 := Knowles_deriv2 rmin R_ k in let g3 := Knowles_deriv3 rmin R_ k in
  solves_3 Dom g (ivp_rhsT_3 a0 a1 a2 a3 ginv g1 g2 g3 f) S0 S1 S2 ->
  init_T_3 g1 g2 g3 x0 c0 c1 c2 (S0 (fst (span_T g x0 x1)), S1 (fst (span_T g x0 x1)), S2 (fst (span_T g x0 x1))) ->
  let y := out_T_3 g g1 g2 g3 S0 S1 S2 in
  (forall x, Dom x -> exists y3 : R,
     is_derive (fun t => fst (fst (y t))) x (snd (fst (y x))) /\ is_derive (fun t => snd (fst (y t))) x (snd (y x)) /\
     is_derive (fun t => snd (y t)) x y3 /\
     a0 x * fst (fst (y x)) + a1 x * snd (fst (y x)) + a2 x * snd (y x) + a3 x * y3 = f x) /\
  y x0 = (c0, c1, c2).
Proof.
  intros HR Hk Ha g ginv g1 g2 g3 HS Hi.
  exact (ivp_transfers_3_lemma a0 a1 a2 a3 f g ginv g1 g2 g3 Dom x0 x1 c0 c1 c2 S0 S1 S2 (Knowles_tf_ok_lemma rmin R_ k HR Hk) Ha HS Hi).
Qed.
Lemma bvp2_MultiExp_lemma rmin R_ (a0 a1 a2 f : R -> R) (xa xb : R) (S0 S1 : R -> R) :
  0 < R_ -> (forall x, Dom x -> a2 x <> 0) ->
  let g := MultiExp_transform rmin R_ in let ginv := MultiExp_inverse rmin R_ in
  let g1 := MultiExp_deriv rmin R_ in let g2 := MultiExp_deriv2 rmin R_ in let g3 := MultiExp_deriv3 rmin R_ in
  solves_2 Dom g (bvp_rhsT_2 a0 a1 a2 ginv g1 g2 g3 f) S0 S1 ->
  let y := out_T_2 g g1 g2 g3 S0 S1 in
  let Ya := [S0 (g xa); S1 (g xa)] in let Yb := [S0 (g xb); S1 (g xb)] in
  (forall x, Dom x -> exists y2 : R,
     is_derive (fun t => fst (y t)) x (snd (y x)) /\ is_derive (fun t => snd (y t)) x y2 /\
     a0 x * fst (y x) + a1 x * snd (y x) + a2 x * y2 = f x) /\
  (forall C, bc_entry 0 0 C Ya Yb = 0 -> fst (y xa) = C) /\
  (forall C, bc_entry 1 0 C Ya Yb = 0 -> fst (y xb) = C) /\
  (forall C, bc_entry 0 1 C Ya Yb = 0 -> snd (y xa) = g1 xa * C) /\
  (forall C, bc_entry 1 1 C Ya Yb = 0 -> snd (y xb) = g1 xb * C).
Proof.
  intros HR Ha g ginv g1 g2 g3 HS.
  exact (bvp_transfers_2_lemma a0 a1 a2 f g ginv g1 g2 g3 Dom xa xb S0 S1 (MultiExp_tf_ok_lemma rmin R_ HR) Ha HS).
Qed.

(* chain rule with the code's coefficients through the Knowles map, all k > 0 *)
Lemma chain_rule_3_Knowles_lemma rmin R_ k (u0 u1 u2 u3 : R -> R) (a0 a1 a2 a3 x : R) :
  0 < R_ -> 0 < k -> Dom x ->
  let g := Knowles_transform rmin R_ k in
  let g1 := Knowles_deriv rmin R_ k in let g2 := Knowles_deriv2 rmin R_ k in let g3 := Knowles_deriv3 rmin R_ k in
  is_derive u0 (g x) (u1 (g x)) -> is_derive u1 (g x) (u2 (g x)) -> is_derive u2 (g x) (u3 (g x)) ->
  is_derive (fun t => u0 (g t)) x (Y1 u1 g g1 x) /\ is_derive (Y1 u1 g g1) x (Y2 u1 u2 g g1 g2 x) /\
  is_derive (Y2 u1 u2 g g1 g2) x (Y3 u1 u2 u3 g g1 g2 g3 x) /\
  a0 * u0 (g x) + a1 * Y1 u1 g g1 x + a2 * Y2 u1 u2 g g1 g2 x + a3 * Y3 u1 u2 u3 g g1 g2 g3 x =
  tode_b3_0 a0 a1 a2 a3 (g1 x) (g2 x) (g3 x) * u0 (g x) + tode_b3_1 a0 a1 a2 a3 (g1 x) (g2 x) (g3 x) * u1 (g x) +
  tode_b3_2 a0 a1 a2 a3 (g1 x) (g2 x) (g3 x) * u2 (g x) + tode_b3_3 a0 a1 a2 a3 (g1 x) (g2 x) (g3 x) * u3 (g x).
Proof.
  intros HR Hk Hx g g1 g2 g3 U1 U2 U3. destruct (Knowles_tf_ok_lemma rmin R_ k HR Hk x Hx) as (G1 & G2 & G3 & _ & _).
  exact (chain_rule_3_lemma u0 u1 u2 u3 g g1 g2 g3 x G1 G2 G3 U1 U2 U3 a0 a1 a2 a3).
Qed.

(* ---------------------------------------------------------------- non-vacuity: an oracle output that satisfies the contract.
   Identity map g x = x, ODE y' - y = 0 (a0 = -1, a1 = 1, f = 0) on the whole line, dense output S0 = exp. *)
Example contract_satisfiable :
  tf_ok (fun _ => True) (fun x => x) (fun r => r) (fun _ => 1) (fun _ => 0) (fun _ => 0) /\
  solves_1 (fun _ => True) (fun x => x) (ivp_rhsT_1 (fun _ => -1) (fun _ => 1) (fun r => r) (fun _ => 1) (fun _ => 0) (fun _ => 0) (fun _ => 0)) exp /\
  init_T_1 1 (exp (fst (span_T (fun x => x) 0 1))).
Proof.
  split; [|split].
  - intros x _. split; [|split; [|split; [|split]]].
    + auto_derive; [exact I|ring].
    + auto_derive; [exact I|ring].
    + auto_derive; [exact I|ring].
    + lra.
    + reflexivity.
  - intros x _. unfold ivp_rhsT_1. evar_last; [apply is_derive_exp|]. field.
  - unfold init_T_1, span_T. cbn [fst]. apply exp_0.
Qed.
Example Becke_instance_nonvacuous : 0 < 3 / 2 /\ Dom (1 / 4) /\ (forall x, Dom x -> (fun t => 2 + t) x <> 0).
Proof. unfold Dom. repeat split; try lra. intros x [H1 H2]. lra. Qed.
