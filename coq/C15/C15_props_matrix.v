(* C15 property theorems (statements only): the matrix of _derivative_transformation_matrix (entries sympy.bell(i+1, j+1, derivs)). *)
From Coq Require Import Reals List.
From Coquelicot Require Import Coquelicot.
From P Require Import C15_bell C15_gen C15_ref C15_model C15_proofs_fdb C15_proofs_matrix.
Import ListNotations.
Open Scope R_scope.

(* applied to the jet (u', u'', u''') at g x it gives the reference jet (y', y'', y''') at x; the 1x1 and 2x2 matrices likewise *)
Theorem jet_matrix : forall (u1 u2 u3 g g1 g2 g3 : R -> R) (x : R),
  mv3 (g1 x) (g2 x) (g3 x) (u1 (g x)) (u2 (g x)) (u3 (g x)) = (Y1 u1 g g1 x, Y2 u1 u2 g g1 g2 x, Y3 u1 u2 u3 g g1 g2 g3 x) /\
  mv2 (g1 x) (g2 x) (g3 x) (u1 (g x)) (u2 (g x)) = (Y1 u1 g g1 x, Y2 u1 u2 g g1 g2 x) /\
  mv1 (g1 x) (g2 x) (g3 x) (u1 (g x)) = Y1 u1 g g1 x.
Proof. exact jet_matrix_lemma. Qed.
Print Assumptions jet_matrix.

(* as functions of x, each component of M(x) . jet_u(g x) is the derivative of the previous one, starting from y = u o g *)
Theorem jet_matrix_derive : forall (u0 u1 u2 u3 g g1 g2 g3 : R -> R) (x : R),
  is_derive g x (g1 x) -> is_derive g1 x (g2 x) -> is_derive g2 x (g3 x) ->
  is_derive u0 (g x) (u1 (g x)) -> is_derive u1 (g x) (u2 (g x)) -> is_derive u2 (g x) (u3 (g x)) ->
  let J := fun t => mv3 (g1 t) (g2 t) (g3 t) (u1 (g t)) (u2 (g t)) (u3 (g t)) in
  is_derive (fun t => u0 (g t)) x (fst (fst (J x))) /\
  is_derive (fun t => fst (fst (J t))) x (snd (fst (J x))) /\
  is_derive (fun t => snd (fst (J t))) x (snd (J x)).
Proof. exact jet_matrix_derive_lemma. Qed.
Print Assumptions jet_matrix_derive.

(* the smaller matrices are leading blocks of the 3x3 one *)
Theorem jet_matrix_blocks : forall d1 d2 d3 v1 v2 : R,
  mv1 d1 d2 d3 v1 = fst (mv2 d1 d2 d3 v1 v2) /\ mv2 d1 d2 d3 v1 v2 = fst (mv3 d1 d2 d3 v1 v2 0).
Proof. exact mv_blocks. Qed.
Print Assumptions jet_matrix_blocks.
