(* C15 property theorems (statements only): explicit first-order form. *)
From Coq Require Import Reals List.
From Coquelicot Require Import Coquelicot.
From P Require Import C15_bell C15_gen C15_proofs_explicit.
Import ListNotations.
Open Scope R_scope.

Theorem explicit_form_1 : forall b0 b1 fx y0 y1 : R, b1 <> 0 ->
  (y1 = explicit_1 b0 b1 fx y0 <-> b0 * y0 + b1 * y1 = fx).
Proof. exact explicit_form_1_lemma. Qed.
Print Assumptions explicit_form_1.

Theorem explicit_form_2 : forall b0 b1 b2 fx y0 y1 y2 : R, b2 <> 0 ->
  (y2 = explicit_2 b0 b1 b2 fx y0 y1 <-> b0 * y0 + b1 * y1 + b2 * y2 = fx).
Proof. exact explicit_form_2_lemma. Qed.
Print Assumptions explicit_form_2.

Theorem explicit_form_3 : forall b0 b1 b2 b3 fx y0 y1 y2 y3 : R, b3 <> 0 ->
  (y3 = explicit_3 b0 b1 b2 b3 fx y0 y1 y2 <-> b0 * y0 + b1 * y1 + b2 * y2 + b3 * y3 = fx).
Proof. exact explicit_form_3_lemma. Qed.
Print Assumptions explicit_form_3.

(* _evaluate_coeffs_on_points: a numeric coefficient is the constant function *)
Theorem coeff_eval : forall (c : R) (a : R -> R) (x : R), coeff_const c x = c /\ coeff_fun a x = a x.
Proof. exact coeff_eval_lemma. Qed.
Print Assumptions coeff_eval.

(* _transform_and_rearrange_to_explicit_ode = explicit form of the rewritten coefficients, evaluated at the ORIGINAL point x *)
Theorem tre_is_explicit_of_tode : forall (a0 a1 a2 a3 g1 g2 g3 f : R -> R) (x w0 w1 w2 : R),
  tre_3 a0 a1 a2 a3 g1 g2 g3 f x w0 w1 w2 =
  explicit_3 (tode_b3_0 (a0 x) (a1 x) (a2 x) (a3 x) (g1 x) (g2 x) (g3 x)) (tode_b3_1 (a0 x) (a1 x) (a2 x) (a3 x) (g1 x) (g2 x) (g3 x))
             (tode_b3_2 (a0 x) (a1 x) (a2 x) (a3 x) (g1 x) (g2 x) (g3 x)) (tode_b3_3 (a0 x) (a1 x) (a2 x) (a3 x) (g1 x) (g2 x) (g3 x))
             (f x) w0 w1 w2 /\
  tre_2 a0 a1 a2 g1 g2 g3 f x w0 w1 =
  explicit_2 (tode_b2_0 (a0 x) (a1 x) (a2 x) (g1 x) (g2 x) (g3 x)) (tode_b2_1 (a0 x) (a1 x) (a2 x) (g1 x) (g2 x) (g3 x))
             (tode_b2_2 (a0 x) (a1 x) (a2 x) (g1 x) (g2 x) (g3 x)) (f x) w0 w1 /\
  tre_1 a0 a1 g1 g2 g3 f x w0 =
  explicit_1 (tode_b1_0 (a0 x) (a1 x) (g1 x) (g2 x) (g3 x)) (tode_b1_1 (a0 x) (a1 x) (g1 x) (g2 x) (g3 x)) (f x) w0.
Proof. exact tre_is_explicit_of_tode_lemma. Qed.
Print Assumptions tre_is_explicit_of_tode.
