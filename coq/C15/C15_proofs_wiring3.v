(* C15: the wiring of solve_ode_ivp / solve_ode_bvp.  If the SciPy solver (an oracle: Section-free, its contract is the
   hypothesis `solves_K`) returns a dense output S that satisfies the generated first-order system in the transformed
   variable r = g x, then the callable the code returns (S composed with g, derivatives multiplied by the code's
   derivative matrix) is the solution of the stated ODE in x with the stated initial / boundary data. *)
From Coq Require Import Reals Lra List.
From Coquelicot Require Import Coquelicot.
From P Require Import C15_bell C15_gen C15_ref C15_model C15_proofs_fdb C15_proofs_matrix.
Import ListNotations.
Open Scope R_scope.

(* ---------------------------------------------------------------- order 3 *)
Lemma transfers_3 (rhs : (R -> R) -> (R -> R) -> (R -> R) -> (R -> R) -> (R -> R) -> (R -> R) -> (R -> R) -> (R -> R) -> (R -> R) -> R -> R -> R -> R -> R * R * R)
  (a0 a1 a2 a3 f g ginv g1 g2 g3 : R -> R) (D : R -> Prop) (S0 S1 S2 : R -> R) :
  (forall x w0 w1 w2, D x -> rhs a0 a1 a2 a3 ginv g1 g2 g3 f (g x) w0 w1 w2 = (w1, w2, tre_3 a0 a1 a2 a3 g1 g2 g3 f x w0 w1 w2)) ->
  tf_ok D g ginv g1 g2 g3 -> (forall x, D x -> a3 x <> 0) ->
  solves_3 D g (rhs a0 a1 a2 a3 ginv g1 g2 g3 f) S0 S1 S2 ->
  let y := out_T_3 g g1 g2 g3 S0 S1 S2 in
  forall x, D x -> exists y3 : R,
    is_derive (fun t => fst (fst (y t))) x (snd (fst (y x))) /\ is_derive (fun t => snd (fst (y t))) x (snd (y x)) /\
    is_derive (fun t => snd (y t)) x y3 /\
    a0 x * fst (fst (y x)) + a1 x * snd (fst (y x)) + a2 x * snd (y x) + a3 x * y3 = f x.
Proof.
  intros Hr Ht Ha HS y x Hx. destruct (Ht x Hx) as (G1 & G2 & G3 & Hn & Hi). destruct (HS x Hx) as (E1 & E2 & E3).
  rewrite (Hr x _ _ _ Hx) in E1, E2, E3. cbn [fst snd] in E1, E2, E3.
  set (U3 := fun r : R => tre_3 a0 a1 a2 a3 g1 g2 g3 f (ginv r) (S0 r) (S1 r) (S2 r)).
  assert (E3' : is_derive S2 (g x) (U3 (g x))) by (unfold U3; rewrite Hi; exact E3).
  assert (X1 : forall t : R, Y1 S1 g g1 t = snd (fst (y t))) by (intros t; unfold y, out_T_3; cbn [fst snd]; rewrite mv2_closed; cbn [fst snd]; unfold Y1; ring).
  assert (X2 : forall t : R, Y2 S1 S2 g g1 g2 t = snd (y t)) by (intros t; unfold y, out_T_3; cbn [fst snd]; rewrite mv2_closed; cbn [fst snd]; unfold Y2; ring).
  exists (Y3 S1 S2 U3 g g1 g2 g3 x). rewrite <- X1, <- X2. split; [|split; [|split]].
  - unfold y, out_T_3. cbn [fst snd]. exact (fdb1 S0 S1 g g1 x G1 E1).
  - apply (is_derive_ext (Y1 S1 g g1) _ x _ X1). exact (fdb2 S1 S2 g g1 g2 x G1 G2 E2).
  - apply (is_derive_ext (Y2 S1 S2 g g1 g2) _ x _ X2). exact (fdb3 S1 S2 U3 g g1 g2 g3 x G1 G2 G3 E2 E3').
  - unfold y, out_T_3, Y1, Y2, Y3, U3. cbn [fst snd]. rewrite Hi.
    unfold tre_3. field. split; [exact Hn|exact (Ha x Hx)].
Qed.

(* the generated right-hand sides of both solvers have the shape assumed above *)
Lemma ivp_rhs_shape_3 a0 a1 a2 a3 f g ginv g1 g2 g3 (D : R -> Prop) : tf_ok D g ginv g1 g2 g3 ->
  forall x w0 w1 w2, D x -> ivp_rhsT_3 a0 a1 a2 a3 ginv g1 g2 g3 f (g x) w0 w1 w2 = (w1, w2, tre_3 a0 a1 a2 a3 g1 g2 g3 f x w0 w1 w2).
Proof. intros Ht x w0 w1 w2 Hx. destruct (Ht x Hx) as (_ & _ & _ & _ & Hi). unfold ivp_rhsT_3, tre_3. rewrite Hi. reflexivity. Qed.
Lemma bvp_rhs_shape_3 a0 a1 a2 a3 f g ginv g1 g2 g3 (D : R -> Prop) : tf_ok D g ginv g1 g2 g3 ->
  forall x w0 w1 w2, D x -> bvp_rhsT_3 a0 a1 a2 a3 ginv g1 g2 g3 f (g x) w0 w1 w2 = (w1, w2, tre_3 a0 a1 a2 a3 g1 g2 g3 f x w0 w1 w2).
Proof. intros Ht x w0 w1 w2 Hx. destruct (Ht x Hx) as (_ & _ & _ & _ & Hi). unfold bvp_rhsT_3, tre_3. rewrite Hi. reflexivity. Qed.

Lemma ivp_transfers_3_lemma (a0 a1 a2 a3 f g ginv g1 g2 g3 : R -> R) (D : R -> Prop) (x0 x1 c0 c1 c2 : R) (S0 S1 S2 : R -> R) :
  tf_ok D g ginv g1 g2 g3 -> (forall x, D x -> a3 x <> 0) ->
  solves_3 D g (ivp_rhsT_3 a0 a1 a2 a3 ginv g1 g2 g3 f) S0 S1 S2 ->
  init_T_3 g1 g2 g3 x0 c0 c1 c2 (S0 (fst (span_T g x0 x1)), S1 (fst (span_T g x0 x1)), S2 (fst (span_T g x0 x1))) ->
  let y := out_T_3 g g1 g2 g3 S0 S1 S2 in
  (forall x, D x -> exists y3 : R,
     is_derive (fun t => fst (fst (y t))) x (snd (fst (y x))) /\ is_derive (fun t => snd (fst (y t))) x (snd (y x)) /\
     is_derive (fun t => snd (y t)) x y3 /\
     a0 x * fst (fst (y x)) + a1 x * snd (fst (y x)) + a2 x * snd (y x) + a3 x * y3 = f x) /\
  y x0 = (c0, c1, c2).
Proof.
  intros Ht Ha HS Hi y. split.
  - exact (transfers_3 ivp_rhsT_3 a0 a1 a2 a3 f g ginv g1 g2 g3 D S0 S1 S2 (ivp_rhs_shape_3 a0 a1 a2 a3 f g ginv g1 g2 g3 D Ht) Ht Ha HS).
  - destruct Hi as [I0 I1]. cbn [fst snd span_T] in I0, I1. unfold y, out_T_3. rewrite I0, I1. reflexivity.
Qed.

(* ---------------------------------------------------------------- boundary value problems
   bd_cond entry (i, j, C): SciPy's solution satisfies bc_entry i j C (S(g xa)) (S(g xb)) = 0.
   j = 0: the returned function takes the value C at the end point, in the user's variable.
   j >= 1: the constraint is on d^j u / dr^j, the derivative with respect to the TRANSFORMED variable (as the docstring of
   solve_ode_bvp states); in the user's variable the returned derivatives are then M(x_i) applied to the constrained jet. *)
Lemma bvp_transfers_3_lemma (a0 a1 a2 a3 f g ginv g1 g2 g3 : R -> R) (D : R -> Prop) (xa xb : R) (S0 S1 S2 : R -> R) :
  tf_ok D g ginv g1 g2 g3 -> (forall x, D x -> a3 x <> 0) ->
  solves_3 D g (bvp_rhsT_3 a0 a1 a2 a3 ginv g1 g2 g3 f) S0 S1 S2 ->
  let y := out_T_3 g g1 g2 g3 S0 S1 S2 in
  let Ya := [S0 (g xa); S1 (g xa); S2 (g xa)] in let Yb := [S0 (g xb); S1 (g xb); S2 (g xb)] in
  (forall x, D x -> exists y3 : R,
     is_derive (fun t => fst (fst (y t))) x (snd (fst (y x))) /\ is_derive (fun t => snd (fst (y t))) x (snd (y x)) /\
     is_derive (fun t => snd (y t)) x y3 /\
     a0 x * fst (fst (y x)) + a1 x * snd (fst (y x)) + a2 x * snd (y x) + a3 x * y3 = f x) /\
  (forall C, bc_entry 0 0 C Ya Yb = 0 -> fst (fst (y xa)) = C) /\
  (forall C, bc_entry 1 0 C Ya Yb = 0 -> fst (fst (y xb)) = C) /\
  (forall C, bc_entry 0 1 C Ya Yb = 0 -> snd (fst (y xa)) = g1 xa * C) /\
  (forall C, bc_entry 1 1 C Ya Yb = 0 -> snd (fst (y xb)) = g1 xb * C) /\
  (forall C, bc_entry 0 2 C Ya Yb = 0 -> snd (y xa) = g2 xa * S1 (g xa) + g1 xa ^ 2 * C) /\
  (forall C, bc_entry 1 2 C Ya Yb = 0 -> snd (y xb) = g2 xb * S1 (g xb) + g1 xb ^ 2 * C).
Proof.
  intros Ht Ha HS y Ya Yb. split.
  - exact (transfers_3 bvp_rhsT_3 a0 a1 a2 a3 f g ginv g1 g2 g3 D S0 S1 S2 (bvp_rhs_shape_3 a0 a1 a2 a3 f g ginv g1 g2 g3 D Ht) Ht Ha HS).
  - unfold bc_entry, y, out_T_3, Ya, Yb. cbn [nth fst snd]. repeat split; intros C HC; rewrite ?mv2_closed; cbn [fst snd];
      try (replace C with (S0 (g xa)) by lra; ring); try (replace C with (S0 (g xb)) by lra; ring);
      try (replace C with (S1 (g xa)) by lra; ring); try (replace C with (S1 (g xb)) by lra; ring);
      try (replace C with (S2 (g xa)) by lra; ring); try (replace C with (S2 (g xb)) by lra; ring).
Qed.
