(* C15 proofs, part 2b: the coefficient rewriting of _transform_ode_from_derivs for third-order ODEs (tode_b3_j, with the
   Faa di Bruno / Bell terms 3 g' g'' and g''') is the chain rule.  unfold + ring only. *)
From Coq Require Import Reals Lra List.
From Coquelicot Require Import Coquelicot.
From P Require Import C15_bell C15_gen C15_ref C15_proofs_fdb.
Import ListNotations.
Open Scope R_scope.

Lemma tode_3_lemma a0 a1 a2 a3 d1 d2 d3 w0 w1 w2 w3 :
  a0 * w0 + a1 * (w1 * d1) + a2 * (w2 * d1 ^ 2 + w1 * d2) + a3 * (w3 * d1 ^ 3 + 3 * w2 * d1 * d2 + w1 * d3) =
  tode_b3_0 a0 a1 a2 a3 d1 d2 d3 * w0 + tode_b3_1 a0 a1 a2 a3 d1 d2 d3 * w1 +
  tode_b3_2 a0 a1 a2 a3 d1 d2 d3 * w2 + tode_b3_3 a0 a1 a2 a3 d1 d2 d3 * w3.
Proof. unfold tode_b3_0, tode_b3_1, tode_b3_2, tode_b3_3. ring. Qed.
Lemma tode_leading_3 a0 a1 a2 a3 d1 d2 d3 : tode_b3_3 a0 a1 a2 a3 d1 d2 d3 = a3 * d1 ^ 3.
Proof. unfold tode_b3_3. ring. Qed.

Section ChainRule.
  Variables (u0 u1 u2 u3 g g1 g2 g3 : R -> R) (x : R).
  Hypothesis Hg1 : is_derive g x (g1 x).
  Hypothesis Hg2 : is_derive g1 x (g2 x).
  Hypothesis Hg3 : is_derive g2 x (g3 x).
  Hypothesis Hu1 : is_derive u0 (g x) (u1 (g x)).
  Hypothesis Hu2 : is_derive u1 (g x) (u2 (g x)).
  Hypothesis Hu3 : is_derive u2 (g x) (u3 (g x)).
  Let y1 := Y1 u1 g g1.
  Let y2 := Y2 u1 u2 g g1 g2.
  Let y3 := Y3 u1 u2 u3 g g1 g2 g3.

  Lemma chain_rule_3_lemma a0 a1 a2 a3 :
    is_derive (fun t => u0 (g t)) x (y1 x) /\ is_derive y1 x (y2 x) /\ is_derive y2 x (y3 x) /\
    a0 * u0 (g x) + a1 * y1 x + a2 * y2 x + a3 * y3 x =
    tode_b3_0 a0 a1 a2 a3 (g1 x) (g2 x) (g3 x) * u0 (g x) + tode_b3_1 a0 a1 a2 a3 (g1 x) (g2 x) (g3 x) * u1 (g x) +
    tode_b3_2 a0 a1 a2 a3 (g1 x) (g2 x) (g3 x) * u2 (g x) + tode_b3_3 a0 a1 a2 a3 (g1 x) (g2 x) (g3 x) * u3 (g x).
  Proof.
    split; [exact (fdb1 u0 u1 g g1 x Hg1 Hu1)|]. split; [exact (fdb2 u1 u2 g g1 g2 x Hg1 Hg2 Hu2)|].
    split; [exact (fdb3 u1 u2 u3 g g1 g2 g3 x Hg1 Hg2 Hg3 Hu2 Hu3)|].
    unfold y1, y2, y3, Y1, Y2, Y3. apply tode_3_lemma.
  Qed.

End ChainRule.
