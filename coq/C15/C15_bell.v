(* C15: semantics of the external routine sympy.bell(n, k, symbols) (incomplete Bell polynomial B_{n,k}) that
   _derivative_transformation_matrix calls: the standard recurrence
     B_{0,0} = 1,  B_{n,0} = B_{0,k} = 0,  B_{n,k}(x_1, x_2, ...) = sum_{m=1}^{n-k+1} C(n-1, m-1) x_m B_{n-m,k-1}.
   The harness validates sympy.bell against the closed forms below on every run (oracle validation).
   No proofs about the code in this file. *)
From Coq Require Import Reals List.
Import ListNotations.
Open Scope R_scope.

Fixpoint binom (n k : nat) : nat :=
  match n, k with
  | _, O => 1%nat
  | O, S _ => 0%nat
  | S n', S k' => (binom n' k' + binom n' k)%nat
  end.

Fixpoint bell_k (k : nat) : nat -> list R -> R := fun n xs =>
  match k with
  | O => match n with O => 1 | _ => 0 end
  | S k' => fold_right Rplus 0
              (map (fun m => INR (binom (n - 1) (m - 1)) * nth (m - 1) xs 0 * bell_k k' (n - m) xs) (seq 1 (n - k')))
  end.

Definition bell (n k : nat) (xs : list R) : R := bell_k k n xs.
