(* C15: a second-order boundary value problem through the decreasing MultiExp map, and non-vacuity examples. *)
From Coq Require Import Reals Lra List.
From Coquelicot Require Import Coquelicot.
From P Require Import C03_gen.
From P Require Import C15_bell C15_gen C15_ref C15_model C15_proofs_fdb C15_proofs_matrix C15_proofs_wiring12 C15_proofs_tf.
Import ListNotations.
Open Scope R_scope.

Lemma bvp2_MultiExp_lemma rmin R_ (a0 a1 a2 f : R -> R) (xa xb : R) (S0 S1 : R -> R) :
  0 < R_ -> (forall x, Dom x -> a2 x <> 0) ->
  let g := MultiExp_transform rmin R_ in let ginv := MultiExp_inverse rmin R_ in
  let g1 := MultiExp_deriv rmin R_ in let g2 := MultiExp_deriv2 rmin R_ in let g3 := MultiExp_deriv3 rmin R_ in
  solves_2 Dom g (bvp_rhsT_2 a0 a1 a2 ginv g1 g2 g3 f) S0 S1 ->
  let y := out_T_2 g g1 g2 g3 S0 S1 in
  let Ya := [S0 (g xa); S1 (g xa)] in let Yb := [S0 (g xb); S1 (g xb)] in
  (forall x, Dom x -> exists y2 : R,
     is_derive (fun t => fst (y t)) x (snd (y x)) /\ is_derive (fun t => snd (y t)) x y2 /\
     a0 x * fst (y x) + a1 x * snd (y x) + a2 x * y2 = f x) /\
  (forall C, bc_entry 0 0 C Ya Yb = 0 -> fst (y xa) = C) /\
  (forall C, bc_entry 1 0 C Ya Yb = 0 -> fst (y xb) = C) /\
  (forall C, bc_entry 0 1 C Ya Yb = 0 -> snd (y xa) = g1 xa * C) /\
  (forall C, bc_entry 1 1 C Ya Yb = 0 -> snd (y xb) = g1 xb * C).
Proof.
  intros HR Ha g ginv g1 g2 g3 HS.
  exact (bvp_transfers_2_lemma a0 a1 a2 f g ginv g1 g2 g3 Dom xa xb S0 S1 (MultiExp_tf_ok_lemma rmin R_ HR) Ha HS).
Qed.

(* ---------------------------------------------------------------- non-vacuity: an oracle output that satisfies the contract.
   Identity map g x = x, ODE y' - y = 0 (a0 = -1, a1 = 1, f = 0) on the whole line, dense output S0 = exp. *)
Example contract_satisfiable :
  tf_ok (fun _ => True) (fun x => x) (fun r => r) (fun _ => 1) (fun _ => 0) (fun _ => 0) /\
  solves_1 (fun _ => True) (fun x => x) (ivp_rhsT_1 (fun _ => -1) (fun _ => 1) (fun r => r) (fun _ => 1) (fun _ => 0) (fun _ => 0) (fun _ => 0)) exp /\
  init_T_1 1 (exp (fst (span_T (fun x => x) 0 1))).
Proof.
  split; [|split].
  - intros x _. split; [|split; [|split; [|split]]].
    + auto_derive; [exact I|ring].
    + auto_derive; [exact I|ring].
    + auto_derive; [exact I|ring].
    + lra.
    + reflexivity.
  - intros x _. unfold ivp_rhsT_1. evar_last; [apply is_derive_exp|]. field.
  - unfold init_T_1, span_T. cbn [fst]. apply exp_0.
Qed.
(* the same through the Becke map, order 2: u(r) = r solves u'' = 0, i.e. y = g(x) solves y'' = g''(x) (a0 = a1 = 0, a2 = 1, f = g'') *)
Example contract_satisfiable_Becke rmin R_ : 0 < R_ ->
  let g := Becke_transform rmin R_ in let ginv := Becke_inverse rmin R_ in
  let g1 := Becke_deriv rmin R_ in let g2 := Becke_deriv2 rmin R_ in let g3 := Becke_deriv3 rmin R_ in
  tf_ok Dom g ginv g1 g2 g3 /\ (forall x, Dom x -> (fun _ : R => 1) x <> 0) /\
  solves_2 Dom g (ivp_rhsT_2 (fun _ => 0) (fun _ => 0) (fun _ => 1) ginv g1 g2 g3 g2) (fun r => r) (fun _ => 1) /\
  init_T_2 g1 g2 g3 0 (g 0) (g1 0) ((fun r : R => r) (fst (span_T g 0 (1 / 2))), (fun _ : R => 1) (fst (span_T g 0 (1 / 2)))).
Proof.
  intros HR g ginv g1 g2 g3. pose proof (Becke_tf_ok_lemma rmin R_ HR) as Ht. split; [exact Ht|]. split; [intros; lra|]. split.
  - intros x Hx. destruct (Ht x Hx) as (_ & _ & _ & Hn & Hi). unfold ivp_rhsT_2. cbn [fst snd]. split.
    + auto_derive; [exact I|ring].
    + evar_last; [apply (is_derive_const 1 (g x))|].
      unfold zero; simpl. unfold ginv, g. rewrite Hi. unfold g1 in Hn. unfold g1, g2. field. exact Hn.
  - unfold init_T_2, span_T. cbn [fst snd]. split; [reflexivity|]. rewrite mv1_closed. ring.
Qed.
Example Becke_instance_nonvacuous : 0 < 3 / 2 /\ Dom (1 / 4) /\ (forall x, Dom x -> (fun t => 2 + t) x <> 0).
Proof. unfold Dom. repeat split; try lra. intros x [H1 H2]. lra. Qed.
