(* C15 proofs, part 3: the matrix of _derivative_transformation_matrix (regenerated entries dtm_N_i_j = sympy.bell(i+1, j+1, ..))
   maps the jet (u', u'', u''') at g x to the jet (y', y'', y''') at x, and is a bijection iff g' <> 0. *)
From Coq Require Import Reals Lra List.
From Coquelicot Require Import Coquelicot.
From P Require Import C15_bell C15_gen C15_ref C15_model C15_proofs_fdb.
Import ListNotations.
Open Scope R_scope.

(* the matrices built by _derivative_transformation_matrix *)
Lemma mv1_closed d1 d2 d3 v1 : mv1 d1 d2 d3 v1 = d1 * v1.
Proof. unfold mv1, dtm_1_0_0. bell_closed. ring. Qed.
Lemma mv2_closed d1 d2 d3 v1 v2 : mv2 d1 d2 d3 v1 v2 = (d1 * v1, d2 * v1 + d1 ^ 2 * v2).
Proof. unfold mv2, dtm_2_0_0, dtm_2_0_1, dtm_2_1_0, dtm_2_1_1. bell_closed. apply f_equal2; ring. Qed.
Lemma mv3_closed d1 d2 d3 v1 v2 v3 :
  mv3 d1 d2 d3 v1 v2 v3 = (d1 * v1, d2 * v1 + d1 ^ 2 * v2, d3 * v1 + 3 * d1 * d2 * v2 + d1 ^ 3 * v3).
Proof.
  unfold mv3, dtm_3_0_0, dtm_3_0_1, dtm_3_0_2, dtm_3_1_0, dtm_3_1_1, dtm_3_1_2, dtm_3_2_0, dtm_3_2_1, dtm_3_2_2.
  bell_closed. apply f_equal2; [apply f_equal2|]; ring.
Qed.
(* the smaller matrices are the leading blocks of the larger ones (loop bounds) *)
Lemma mv_blocks d1 d2 d3 v1 v2 :
  mv1 d1 d2 d3 v1 = fst (mv2 d1 d2 d3 v1 v2) /\ mv2 d1 d2 d3 v1 v2 = fst (mv3 d1 d2 d3 v1 v2 0).
Proof. rewrite mv1_closed, mv2_closed, mv3_closed. cbn [fst snd]. split; reflexivity. Qed.

  (* the code's matrix applied to the u-jet at g x is the y-jet at x *)
Lemma jet_matrix_lemma (u1 u2 u3 g g1 g2 g3 : R -> R) (x : R) :
  let y1 := Y1 u1 g g1 in let y2 := Y2 u1 u2 g g1 g2 in let y3 := Y3 u1 u2 u3 g g1 g2 g3 in
    mv3 (g1 x) (g2 x) (g3 x) (u1 (g x)) (u2 (g x)) (u3 (g x)) = (y1 x, y2 x, y3 x) /\
    mv2 (g1 x) (g2 x) (g3 x) (u1 (g x)) (u2 (g x)) = (y1 x, y2 x) /\
    mv1 (g1 x) (g2 x) (g3 x) (u1 (g x)) = y1 x.
Proof.
  intros y1 y2 y3. rewrite mv3_closed, mv2_closed, mv1_closed. unfold y1, y2, y3, Y1, Y2, Y3.
    repeat split; [apply f_equal2; [apply f_equal2|]; ring | apply f_equal2; ring | ring].
Qed.

(* jets through the code's matrix, as functions of x: each component is the derivative of the previous one *)
Lemma jet_matrix_derive_lemma (u0 u1 u2 u3 g g1 g2 g3 : R -> R) (x : R) :
  is_derive g x (g1 x) -> is_derive g1 x (g2 x) -> is_derive g2 x (g3 x) ->
  is_derive u0 (g x) (u1 (g x)) -> is_derive u1 (g x) (u2 (g x)) -> is_derive u2 (g x) (u3 (g x)) ->
  let J := fun t => mv3 (g1 t) (g2 t) (g3 t) (u1 (g t)) (u2 (g t)) (u3 (g t)) in
  is_derive (fun t => u0 (g t)) x (fst (fst (J x))) /\
  is_derive (fun t => fst (fst (J t))) x (snd (fst (J x))) /\
  is_derive (fun t => snd (fst (J t))) x (snd (J x)).
Proof.
  intros A B C E F G J.
  assert (X1 : forall t : R, Y1 u1 g g1 t = fst (fst (J t))) by (intros t; unfold J; rewrite mv3_closed; cbn [fst snd]; unfold Y1; ring).
  assert (X2 : forall t : R, Y2 u1 u2 g g1 g2 t = snd (fst (J t))) by (intros t; unfold J; rewrite mv3_closed; cbn [fst snd]; unfold Y2; ring).
  assert (X3 : forall t : R, Y3 u1 u2 u3 g g1 g2 g3 t = snd (J t)) by (intros t; unfold J; rewrite mv3_closed; cbn [fst snd]; unfold Y3; ring).
  rewrite <- X1, <- X2, <- X3. split; [|split].
  - exact (fdb1 u0 u1 g g1 x A E).
  - apply (is_derive_ext (Y1 u1 g g1) _ x _ X1). exact (fdb2 u1 u2 g g1 g2 x A B F).
  - apply (is_derive_ext (Y2 u1 u2 g g1 g2) _ x _ X2). exact (fdb3 u1 u2 u3 g g1 g2 g3 x A B C F G).
Qed.

(* invertibility: the matrix is a bijection of R^N iff g' <> 0 (mapping of initial data, IVP) *)
Lemma mv1_bij_lemma d1 d2 d3 :
  (forall w, exists v, mv1 d1 d2 d3 v = w /\ forall v', mv1 d1 d2 d3 v' = w -> v' = v) <-> d1 <> 0.
Proof.
  split.
  - intros H E. destruct (H 1) as [v [Hv _]]. rewrite mv1_closed, E in Hv. lra.
  - intros Hd w. exists (w / d1). rewrite mv1_closed. split; [field; exact Hd|].
    intros v'. rewrite mv1_closed. intros E. rewrite <- E. field. exact Hd.
Qed.
Lemma mv2_bij_lemma d1 d2 d3 :
  (forall w1 w2, exists v1 v2, mv2 d1 d2 d3 v1 v2 = (w1, w2) /\
                 forall v1' v2', mv2 d1 d2 d3 v1' v2' = (w1, w2) -> v1' = v1 /\ v2' = v2) <-> d1 <> 0.
Proof.
  split.
  - intros H E. destruct (H 1 0) as [v1 [v2 [Hv _]]]. rewrite mv2_closed, E in Hv. injection Hv. intros. lra.
  - intros Hd w1 w2. exists (w1 / d1), ((w2 - d2 * (w1 / d1)) / d1 ^ 2). rewrite mv2_closed. split.
    + apply f_equal2; field; exact Hd.
    + intros v1' v2'. rewrite mv2_closed. intros E. injection E. intros E2 E1. rewrite <- E2, <- E1. split; field; exact Hd.
Qed.
Lemma mv3_bij_lemma d1 d2 d3 :
  (forall w1 w2 w3, exists v1 v2 v3, mv3 d1 d2 d3 v1 v2 v3 = (w1, w2, w3) /\
                    forall v1' v2' v3', mv3 d1 d2 d3 v1' v2' v3' = (w1, w2, w3) -> v1' = v1 /\ v2' = v2 /\ v3' = v3) <-> d1 <> 0.
Proof.
  split.
  - intros H E. destruct (H 1 0 0) as [v1 [v2 [v3 [Hv _]]]]. rewrite mv3_closed, E in Hv. injection Hv. intros. lra.
  - intros Hd w1 w2 w3.
    exists (w1 / d1), ((w2 - d2 * (w1 / d1)) / d1 ^ 2),
           ((w3 - d3 * (w1 / d1) - 3 * d1 * d2 * ((w2 - d2 * (w1 / d1)) / d1 ^ 2)) / d1 ^ 3).
    rewrite mv3_closed. split.
    + apply f_equal2; [apply f_equal2|]; field; exact Hd.
    + intros v1' v2' v3'. rewrite mv3_closed. intros E. injection E. intros E3 E2 E1.
      rewrite <- E3, <- E2, <- E1. repeat split; field; exact Hd.
Qed.

