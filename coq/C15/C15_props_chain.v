(* C15 property theorems (statements only): chain rule with the code's rewritten coefficients, orders 1..3.
   For y = u o g with derivative witnesses u1,u2,u3 of u (at g x) and g1,g2,g3 of g (at x), the reference jets Y1,Y2,Y3
   (C15_ref.v) are the successive derivatives of y and  sum_k a_k y^(k)(x) = sum_j b_j u^(j)(g x)  with the b_j that
   _transform_ode_from_derivs computes, for ALL coefficient values and ALL thrice differentiable g. *)
From Coq Require Import Reals List.
From Coquelicot Require Import Coquelicot.
From P Require Import C15_bell C15_gen C15_ref C15_proofs_fdb C15_proofs_chain.
Import ListNotations.
Open Scope R_scope.

Theorem chain_rule_1 : forall (u0 u1 u2 u3 g g1 g2 g3 : R -> R) (x : R),
  is_derive g x (g1 x) -> is_derive u0 (g x) (u1 (g x)) ->
  forall a0 a1 : R,
  is_derive (fun t => u0 (g t)) x (Y1 u1 g g1 x) /\
  a0 * u0 (g x) + a1 * Y1 u1 g g1 x =
  tode_b1_0 a0 a1 (g1 x) (g2 x) (g3 x) * u0 (g x) + tode_b1_1 a0 a1 (g1 x) (g2 x) (g3 x) * u1 (g x).
Proof. exact (fun u0 u1 u2 u3 g g1 g2 g3 x => chain_rule_1_lemma u0 u1 g g1 g2 g3 x). Qed.
Print Assumptions chain_rule_1.

Theorem chain_rule_2 : forall (u0 u1 u2 u3 g g1 g2 g3 : R -> R) (x : R),
  is_derive g x (g1 x) -> is_derive g1 x (g2 x) ->
  is_derive u0 (g x) (u1 (g x)) -> is_derive u1 (g x) (u2 (g x)) ->
  forall a0 a1 a2 : R,
  is_derive (fun t => u0 (g t)) x (Y1 u1 g g1 x) /\ is_derive (Y1 u1 g g1) x (Y2 u1 u2 g g1 g2 x) /\
  a0 * u0 (g x) + a1 * Y1 u1 g g1 x + a2 * Y2 u1 u2 g g1 g2 x =
  tode_b2_0 a0 a1 a2 (g1 x) (g2 x) (g3 x) * u0 (g x) + tode_b2_1 a0 a1 a2 (g1 x) (g2 x) (g3 x) * u1 (g x) +
  tode_b2_2 a0 a1 a2 (g1 x) (g2 x) (g3 x) * u2 (g x).
Proof. exact (fun u0 u1 u2 u3 g g1 g2 g3 x => chain_rule_2_lemma u0 u1 u2 g g1 g2 g3 x). Qed.
Print Assumptions chain_rule_2.

(* on an open set D the reference jets are Coquelicot's iterated derivatives of y = u o g *)
Theorem chain_rule_derive_n : forall (u0 u1 u2 u3 g g1 g2 g3 : R -> R) (D : R -> Prop),
  (forall x, D x -> locally x D) ->
  (forall x, D x ->
     is_derive g x (g1 x) /\ is_derive g1 x (g2 x) /\ is_derive g2 x (g3 x) /\
     is_derive u0 (g x) (u1 (g x)) /\ is_derive u1 (g x) (u2 (g x)) /\ is_derive u2 (g x) (u3 (g x))) ->
  forall x, D x ->
    is_derive_n (fun t => u0 (g t)) 1 x (Y1 u1 g g1 x) /\ is_derive_n (fun t => u0 (g t)) 2 x (Y2 u1 u2 g g1 g2 x) /\
    is_derive_n (fun t => u0 (g t)) 3 x (Y3 u1 u2 u3 g g1 g2 g3 x).
Proof. exact derive_n_lemma. Qed.
Print Assumptions chain_rule_derive_n.
