(* C15 proofs.  Everything is stated on the terms regenerated from src/grid/ode.py (C15_gen.v); the proofs only use
   unfold + ring/field and Coquelicot's derivative rules, so they do not depend on the syntactic shape of those terms. *)
From Coq Require Import Reals Lra List.
From Coquelicot Require Import Coquelicot.
From P Require Import C15_bell C15_gen C15_model.
Import ListNotations.
Open Scope R_scope.

(* replace `Derive F y` by the value given by a hypothesis `is_derive f y l` *)
Ltac derive_known := repeat match goal with |- context [Derive ?F ?y] =>
  match goal with H : is_derive ?f y ?l |- _ =>
    replace (Derive F y) with l by (symmetry; apply is_derive_unique; exact H) end end.
Ltac ex_known := repeat split; try exact I; try (eexists; eassumption).

(* ---------------------------------------------------------------- Bell polynomials: closed forms for n, k <= 3 (and B_{4,2}) *)
Lemma bell_1_1 a b c : bell 1 1 [a; b; c] = a. Proof. unfold bell; simpl; ring. Qed.
Lemma bell_2_1 a b c : bell 2 1 [a; b; c] = b. Proof. unfold bell; simpl; ring. Qed.
Lemma bell_2_2 a b c : bell 2 2 [a; b; c] = a ^ 2. Proof. unfold bell; simpl; ring. Qed.
Lemma bell_3_1 a b c : bell 3 1 [a; b; c] = c. Proof. unfold bell; simpl; ring. Qed.
Lemma bell_3_2 a b c : bell 3 2 [a; b; c] = 3 * a * b. Proof. unfold bell; simpl; ring. Qed.
Lemma bell_3_3 a b c : bell 3 3 [a; b; c] = a ^ 3. Proof. unfold bell; simpl; ring. Qed.
Lemma bell_4_2 a b c d : bell 4 2 [a; b; c; d] = 4 * a * c + 3 * b ^ 2. Proof. unfold bell; simpl; ring. Qed.
Lemma bell_lt a b c : bell 1 2 [a; b; c] = 0 /\ bell 1 3 [a; b; c] = 0 /\ bell 2 3 [a; b; c] = 0.
Proof. unfold bell; simpl; repeat split; ring. Qed.
Ltac bell_closed := rewrite ?bell_1_1, ?bell_2_1, ?bell_2_2, ?bell_3_1, ?bell_3_2, ?bell_3_3.

(* the matrices built by _derivative_transformation_matrix *)
Lemma mv1_closed d1 d2 d3 v1 : mv1 d1 d2 d3 v1 = d1 * v1.
Proof. unfold mv1, dtm_1_0_0. bell_closed. ring. Qed.
Lemma mv2_closed d1 d2 d3 v1 v2 : mv2 d1 d2 d3 v1 v2 = (d1 * v1, d2 * v1 + d1 ^ 2 * v2).
Proof. unfold mv2, dtm_2_0_0, dtm_2_0_1, dtm_2_1_0, dtm_2_1_1. bell_closed. apply f_equal2; ring. Qed.
Lemma mv3_closed d1 d2 d3 v1 v2 v3 :
  mv3 d1 d2 d3 v1 v2 v3 = (d1 * v1, d2 * v1 + d1 ^ 2 * v2, d3 * v1 + 3 * d1 * d2 * v2 + d1 ^ 3 * v3).
Proof.
  unfold mv3, dtm_3_0_0, dtm_3_0_1, dtm_3_0_2, dtm_3_1_0, dtm_3_1_1, dtm_3_1_2, dtm_3_2_0, dtm_3_2_1, dtm_3_2_2.
  bell_closed. apply f_equal2; [apply f_equal2|]; ring.
Qed.
(* the smaller matrices are the leading blocks of the larger ones (loop bounds) *)
Lemma mv_blocks d1 d2 d3 v1 v2 :
  mv1 d1 d2 d3 v1 = fst (mv2 d1 d2 d3 v1 v2) /\ mv2 d1 d2 d3 v1 v2 = fst (mv3 d1 d2 d3 v1 v2 0).
Proof. rewrite mv1_closed, mv2_closed, mv3_closed. cbn [fst snd]. split; reflexivity. Qed.

(* ---------------------------------------------------------------- chain rule up to order 3 (reference formulas Y1, Y2, Y3) *)
Section FdB.
  Variables (u0 u1 u2 u3 g g1 g2 g3 : R -> R) (x : R).
  Hypothesis Hg1 : is_derive g x (g1 x).
  Hypothesis Hg2 : is_derive g1 x (g2 x).
  Hypothesis Hg3 : is_derive g2 x (g3 x).
  Hypothesis Hu1 : is_derive u0 (g x) (u1 (g x)).
  Hypothesis Hu2 : is_derive u1 (g x) (u2 (g x)).
  Hypothesis Hu3 : is_derive u2 (g x) (u3 (g x)).

  Lemma fdb1 : is_derive (fun t => u0 (g t)) x (Y1 u1 g g1 x).
  Proof. unfold Y1. auto_derive; [ex_known | derive_known; ring]. Qed.
  Lemma fdb2 : is_derive (Y1 u1 g g1) x (Y2 u1 u2 g g1 g2 x).
  Proof. unfold Y1, Y2. auto_derive; [ex_known | derive_known; ring]. Qed.
  Lemma fdb3 : is_derive (Y2 u1 u2 g g1 g2) x (Y3 u1 u2 u3 g g1 g2 g3 x).
  Proof. unfold Y2, Y3. auto_derive; [ex_known | derive_known; ring]. Qed.
End FdB.

(* on an open set the reference jets are the iterated derivatives (Coquelicot's Derive_n / is_derive_n) *)
Section FdBn.
  Variables (u0 u1 u2 u3 g g1 g2 g3 : R -> R) (D : R -> Prop).
  Hypothesis D_open : forall x, D x -> locally x D.
  Hypothesis H : forall x, D x ->
    is_derive g x (g1 x) /\ is_derive g1 x (g2 x) /\ is_derive g2 x (g3 x) /\
    is_derive u0 (g x) (u1 (g x)) /\ is_derive u1 (g x) (u2 (g x)) /\ is_derive u2 (g x) (u3 (g x)).
  Let y0 := fun t => u0 (g t).

  Lemma D1_eq x : D x -> Derive y0 x = Y1 u1 g g1 x.
  Proof. intros Hx. destruct (H x Hx) as (A & B & C & E & F & G). apply is_derive_unique. exact (fdb1 u0 u1 g g1 x A E). Qed.
  Lemma D2_eq x : D x -> Derive (Derive y0) x = Y2 u1 u2 g g1 g2 x.
  Proof.
    intros Hx. destruct (H x Hx) as (A & B & C & E & F & G).
    rewrite (Derive_ext_loc (Derive y0) (Y1 u1 g g1)).
    - apply is_derive_unique. exact (fdb2 u1 u2 g g1 g2 x A B F).
    - apply (filter_imp D (fun t => Derive y0 t = Y1 u1 g g1 t)); [|exact (D_open x Hx)]. intros t Ht. exact (D1_eq t Ht).
  Qed.
  Lemma derive_n_lemma x : D x ->
    is_derive_n y0 1 x (Y1 u1 g g1 x) /\ is_derive_n y0 2 x (Y2 u1 u2 g g1 g2 x) /\
    is_derive_n y0 3 x (Y3 u1 u2 u3 g g1 g2 g3 x).
  Proof.
    intros Hx. destruct (H x Hx) as (A & B & C & E & F & G). split; [|split].
    - simpl. exact (fdb1 u0 u1 g g1 x A E).
    - simpl. apply (is_derive_ext_loc (Y1 u1 g g1)).
      + apply (filter_imp D (fun t => Y1 u1 g g1 t = Derive y0 t)); [|exact (D_open x Hx)]. intros t Ht. symmetry. exact (D1_eq t Ht).
      + exact (fdb2 u1 u2 g g1 g2 x A B F).
    - simpl. apply (is_derive_ext_loc (Y2 u1 u2 g g1 g2)).
      + apply (filter_imp D (fun t => Y2 u1 u2 g g1 g2 t = Derive (Derive y0) t)); [|exact (D_open x Hx)]. intros t Ht. symmetry. exact (D2_eq t Ht).
      + exact (fdb3 u1 u2 u3 g g1 g2 g3 x A B C F G).
  Qed.
End FdBn.

(* ---------------------------------------------------------------- the code's coefficient rewriting *)
Lemma tode_1_lemma a0 a1 d1 d2 d3 w0 w1 :
  a0 * w0 + a1 * (w1 * d1) = tode_b1_0 a0 a1 d1 d2 d3 * w0 + tode_b1_1 a0 a1 d1 d2 d3 * w1.
Proof. unfold tode_b1_0, tode_b1_1. ring. Qed.
Lemma tode_2_lemma a0 a1 a2 d1 d2 d3 w0 w1 w2 :
  a0 * w0 + a1 * (w1 * d1) + a2 * (w2 * d1 ^ 2 + w1 * d2) =
  tode_b2_0 a0 a1 a2 d1 d2 d3 * w0 + tode_b2_1 a0 a1 a2 d1 d2 d3 * w1 + tode_b2_2 a0 a1 a2 d1 d2 d3 * w2.
Proof. unfold tode_b2_0, tode_b2_1, tode_b2_2. ring. Qed.
Lemma tode_3_lemma a0 a1 a2 a3 d1 d2 d3 w0 w1 w2 w3 :
  a0 * w0 + a1 * (w1 * d1) + a2 * (w2 * d1 ^ 2 + w1 * d2) + a3 * (w3 * d1 ^ 3 + 3 * w2 * d1 * d2 + w1 * d3) =
  tode_b3_0 a0 a1 a2 a3 d1 d2 d3 * w0 + tode_b3_1 a0 a1 a2 a3 d1 d2 d3 * w1 +
  tode_b3_2 a0 a1 a2 a3 d1 d2 d3 * w2 + tode_b3_3 a0 a1 a2 a3 d1 d2 d3 * w3.
Proof. unfold tode_b3_0, tode_b3_1, tode_b3_2, tode_b3_3. ring. Qed.
Lemma tode_leading a0 a1 a2 a3 d1 d2 d3 :
  tode_b1_1 a0 a1 d1 d2 d3 = a1 * d1 /\ tode_b2_2 a0 a1 a2 d1 d2 d3 = a2 * d1 ^ 2 /\
  tode_b3_3 a0 a1 a2 a3 d1 d2 d3 = a3 * d1 ^ 3.
Proof. unfold tode_b1_1, tode_b2_2, tode_b3_3. repeat split; ring. Qed.

Section ChainRule.
  Variables (u0 u1 u2 u3 g g1 g2 g3 : R -> R) (x : R).
  Hypothesis Hg1 : is_derive g x (g1 x).
  Hypothesis Hg2 : is_derive g1 x (g2 x).
  Hypothesis Hg3 : is_derive g2 x (g3 x).
  Hypothesis Hu1 : is_derive u0 (g x) (u1 (g x)).
  Hypothesis Hu2 : is_derive u1 (g x) (u2 (g x)).
  Hypothesis Hu3 : is_derive u2 (g x) (u3 (g x)).
  Let y1 := Y1 u1 g g1.
  Let y2 := Y2 u1 u2 g g1 g2.
  Let y3 := Y3 u1 u2 u3 g g1 g2 g3.

  Lemma chain_rule_1_lemma a0 a1 :
    is_derive (fun t => u0 (g t)) x (y1 x) /\
    a0 * u0 (g x) + a1 * y1 x =
    tode_b1_0 a0 a1 (g1 x) (g2 x) (g3 x) * u0 (g x) + tode_b1_1 a0 a1 (g1 x) (g2 x) (g3 x) * u1 (g x).
  Proof. split; [exact (fdb1 u0 u1 g g1 x Hg1 Hu1)|]. unfold y1, Y1. apply tode_1_lemma. Qed.
  Lemma chain_rule_2_lemma a0 a1 a2 :
    is_derive (fun t => u0 (g t)) x (y1 x) /\ is_derive y1 x (y2 x) /\
    a0 * u0 (g x) + a1 * y1 x + a2 * y2 x =
    tode_b2_0 a0 a1 a2 (g1 x) (g2 x) (g3 x) * u0 (g x) + tode_b2_1 a0 a1 a2 (g1 x) (g2 x) (g3 x) * u1 (g x) +
    tode_b2_2 a0 a1 a2 (g1 x) (g2 x) (g3 x) * u2 (g x).
  Proof. split; [exact (fdb1 u0 u1 g g1 x Hg1 Hu1)|]. split; [exact (fdb2 u1 u2 g g1 g2 x Hg1 Hg2 Hu2)|]. unfold y1, y2, Y1, Y2. apply tode_2_lemma. Qed.
  Lemma chain_rule_3_lemma a0 a1 a2 a3 :
    is_derive (fun t => u0 (g t)) x (y1 x) /\ is_derive y1 x (y2 x) /\ is_derive y2 x (y3 x) /\
    a0 * u0 (g x) + a1 * y1 x + a2 * y2 x + a3 * y3 x =
    tode_b3_0 a0 a1 a2 a3 (g1 x) (g2 x) (g3 x) * u0 (g x) + tode_b3_1 a0 a1 a2 a3 (g1 x) (g2 x) (g3 x) * u1 (g x) +
    tode_b3_2 a0 a1 a2 a3 (g1 x) (g2 x) (g3 x) * u2 (g x) + tode_b3_3 a0 a1 a2 a3 (g1 x) (g2 x) (g3 x) * u3 (g x).
  Proof.
    split; [exact (fdb1 u0 u1 g g1 x Hg1 Hu1)|]. split; [exact (fdb2 u1 u2 g g1 g2 x Hg1 Hg2 Hu2)|].
    split; [exact (fdb3 u1 u2 u3 g g1 g2 g3 x Hg1 Hg2 Hg3 Hu2 Hu3)|].
    unfold y1, y2, y3, Y1, Y2, Y3. apply tode_3_lemma.
  Qed.

  (* the code's matrix applied to the u-jet at g x is the y-jet at x *)
  Lemma jet_matrix_lemma :
    mv3 (g1 x) (g2 x) (g3 x) (u1 (g x)) (u2 (g x)) (u3 (g x)) = (y1 x, y2 x, y3 x) /\
    mv2 (g1 x) (g2 x) (g3 x) (u1 (g x)) (u2 (g x)) = (y1 x, y2 x) /\
    mv1 (g1 x) (g2 x) (g3 x) (u1 (g x)) = y1 x.
  Proof.
    rewrite mv3_closed, mv2_closed, mv1_closed. unfold y1, y2, y3, Y1, Y2, Y3.
    repeat split; [apply f_equal2; [apply f_equal2|]; ring | apply f_equal2; ring | ring].
  Qed.
End ChainRule.

(* jets through the code's matrix, as functions of x: each component is the derivative of the previous one *)
Lemma jet_matrix_derive_lemma (u0 u1 u2 u3 g g1 g2 g3 : R -> R) (x : R) :
  is_derive g x (g1 x) -> is_derive g1 x (g2 x) -> is_derive g2 x (g3 x) ->
  is_derive u0 (g x) (u1 (g x)) -> is_derive u1 (g x) (u2 (g x)) -> is_derive u2 (g x) (u3 (g x)) ->
  let J := fun t => mv3 (g1 t) (g2 t) (g3 t) (u1 (g t)) (u2 (g t)) (u3 (g t)) in
  is_derive (fun t => u0 (g t)) x (fst (fst (J x))) /\
  is_derive (fun t => fst (fst (J t))) x (snd (fst (J x))) /\
  is_derive (fun t => snd (fst (J t))) x (snd (J x)).
Proof.
  intros A B C E F G J.
  assert (X1 : forall t : R, Y1 u1 g g1 t = fst (fst (J t))) by (intros t; unfold J; rewrite mv3_closed; cbn [fst snd]; unfold Y1; ring).
  assert (X2 : forall t : R, Y2 u1 u2 g g1 g2 t = snd (fst (J t))) by (intros t; unfold J; rewrite mv3_closed; cbn [fst snd]; unfold Y2; ring).
  assert (X3 : forall t : R, Y3 u1 u2 u3 g g1 g2 g3 t = snd (J t)) by (intros t; unfold J; rewrite mv3_closed; cbn [fst snd]; unfold Y3; ring).
  rewrite <- X1, <- X2, <- X3. split; [|split].
  - exact (fdb1 u0 u1 g g1 x A E).
  - apply (is_derive_ext (Y1 u1 g g1) _ x _ X1). exact (fdb2 u1 u2 g g1 g2 x A B F).
  - apply (is_derive_ext (Y2 u1 u2 g g1 g2) _ x _ X2). exact (fdb3 u1 u2 u3 g g1 g2 g3 x A B C F G).
Qed.

(* invertibility: the matrix is a bijection of R^N iff g' <> 0 (mapping of initial data, IVP) *)
Lemma mv1_bij_lemma d1 d2 d3 :
  (forall w, exists v, mv1 d1 d2 d3 v = w /\ forall v', mv1 d1 d2 d3 v' = w -> v' = v) <-> d1 <> 0.
Proof.
  split.
  - intros H E. destruct (H 1) as [v [Hv _]]. rewrite mv1_closed, E in Hv. lra.
  - intros Hd w. exists (w / d1). rewrite mv1_closed. split; [field; exact Hd|].
    intros v'. rewrite mv1_closed. intros E. rewrite <- E. field. exact Hd.
Qed.
Lemma mv2_bij_lemma d1 d2 d3 :
  (forall w1 w2, exists v1 v2, mv2 d1 d2 d3 v1 v2 = (w1, w2) /\
                 forall v1' v2', mv2 d1 d2 d3 v1' v2' = (w1, w2) -> v1' = v1 /\ v2' = v2) <-> d1 <> 0.
Proof.
  split.
  - intros H E. destruct (H 1 0) as [v1 [v2 [Hv _]]]. rewrite mv2_closed, E in Hv. injection Hv. intros. lra.
  - intros Hd w1 w2. exists (w1 / d1), ((w2 - d2 * (w1 / d1)) / d1 ^ 2). rewrite mv2_closed. split.
    + apply f_equal2; field; exact Hd.
    + intros v1' v2'. rewrite mv2_closed. intros E. injection E. intros E2 E1. rewrite <- E2, <- E1. split; field; exact Hd.
Qed.
Lemma mv3_bij_lemma d1 d2 d3 :
  (forall w1 w2 w3, exists v1 v2 v3, mv3 d1 d2 d3 v1 v2 v3 = (w1, w2, w3) /\
                    forall v1' v2' v3', mv3 d1 d2 d3 v1' v2' v3' = (w1, w2, w3) -> v1' = v1 /\ v2' = v2 /\ v3' = v3) <-> d1 <> 0.
Proof.
  split.
  - intros H E. destruct (H 1 0 0) as [v1 [v2 [v3 [Hv _]]]]. rewrite mv3_closed, E in Hv. injection Hv. intros. lra.
  - intros Hd w1 w2 w3.
    exists (w1 / d1), ((w2 - d2 * (w1 / d1)) / d1 ^ 2),
           ((w3 - d3 * (w1 / d1) - 3 * d1 * d2 * ((w2 - d2 * (w1 / d1)) / d1 ^ 2)) / d1 ^ 3).
    rewrite mv3_closed. split.
    + apply f_equal2; [apply f_equal2|]; field; exact Hd.
    + intros v1' v2' v3'. rewrite mv3_closed. intros E. injection E. intros E3 E2 E1.
      rewrite <- E3, <- E2, <- E1. repeat split; field; exact Hd.
Qed.

(* ---------------------------------------------------------------- explicit form *)
Lemma explicit_form_1_lemma b0 b1 fx y0 y1 : b1 <> 0 ->
  (y1 = explicit_1 b0 b1 fx y0 <-> b0 * y0 + b1 * y1 = fx).
Proof. intros Hb. unfold explicit_1. split; intros H; [rewrite H|rewrite <- H]; field; exact Hb. Qed.
Lemma explicit_form_2_lemma b0 b1 b2 fx y0 y1 y2 : b2 <> 0 ->
  (y2 = explicit_2 b0 b1 b2 fx y0 y1 <-> b0 * y0 + b1 * y1 + b2 * y2 = fx).
Proof. intros Hb. unfold explicit_2. split; intros H; [rewrite H|rewrite <- H]; field; exact Hb. Qed.
Lemma explicit_form_3_lemma b0 b1 b2 b3 fx y0 y1 y2 y3 : b3 <> 0 ->
  (y3 = explicit_3 b0 b1 b2 b3 fx y0 y1 y2 <-> b0 * y0 + b1 * y1 + b2 * y2 + b3 * y3 = fx).
Proof. intros Hb. unfold explicit_3. split; intros H; [rewrite H|rewrite <- H]; field; exact Hb. Qed.

(* coefficient evaluation: constants are constant functions *)
Lemma coeff_eval_lemma (c : R) (a : R -> R) x : coeff_const c x = c /\ coeff_fun a x = a x.
Proof. unfold coeff_const, coeff_fun. split; ring. Qed.

(* the transformed explicit right-hand side is the explicit form of the rewritten coefficients *)
Lemma tre_is_explicit_of_tode_lemma (a0 a1 a2 a3 g1 g2 g3 f : R -> R) x w0 w1 w2 :
  tre_3 a0 a1 a2 a3 g1 g2 g3 f x w0 w1 w2 =
  explicit_3 (tode_b3_0 (a0 x) (a1 x) (a2 x) (a3 x) (g1 x) (g2 x) (g3 x)) (tode_b3_1 (a0 x) (a1 x) (a2 x) (a3 x) (g1 x) (g2 x) (g3 x))
             (tode_b3_2 (a0 x) (a1 x) (a2 x) (a3 x) (g1 x) (g2 x) (g3 x)) (tode_b3_3 (a0 x) (a1 x) (a2 x) (a3 x) (g1 x) (g2 x) (g3 x))
             (f x) w0 w1 w2 /\
  tre_2 a0 a1 a2 g1 g2 g3 f x w0 w1 =
  explicit_2 (tode_b2_0 (a0 x) (a1 x) (a2 x) (g1 x) (g2 x) (g3 x)) (tode_b2_1 (a0 x) (a1 x) (a2 x) (g1 x) (g2 x) (g3 x))
             (tode_b2_2 (a0 x) (a1 x) (a2 x) (g1 x) (g2 x) (g3 x)) (f x) w0 w1 /\
  tre_1 a0 a1 g1 g2 g3 f x w0 =
  explicit_1 (tode_b1_0 (a0 x) (a1 x) (g1 x) (g2 x) (g3 x)) (tode_b1_1 (a0 x) (a1 x) (g1 x) (g2 x) (g3 x)) (f x) w0.
Proof. repeat split; reflexivity. Qed.
