(* C15: transforms regenerated from src/grid/rtransform.py (C03_gen.v) are admissible (tf_ok) on (-1, 1), by C03's lemmas:
   Becke (rational, increasing), Knowles (real exponent k, increasing), MultiExp (decreasing: g' < 0). *)
From Coq Require Import Reals Lra List.
From Coquelicot Require Import Coquelicot.
From P Require Import C03_gen C03_proofs_simple C03_proofs_knowles.
From P Require Import C15_bell C15_gen C15_ref C15_model.
Open Scope R_scope.

Lemma tf_ok_unfold_lemma (D : R -> Prop) (g ginv g1 g2 g3 : R -> R) :
  tf_ok D g ginv g1 g2 g3 <->
  (forall x, D x -> is_derive g x (g1 x) /\ is_derive g1 x (g2 x) /\ is_derive g2 x (g3 x) /\ g1 x <> 0 /\ ginv (g x) = x).
Proof. unfold tf_ok. split; auto. Qed.


Lemma Dom_open x : Dom x -> locally x Dom.
Proof.
  intros [H1 H2]. assert (Hp : 0 < Rmin (x + 1) (1 - x)) by (apply Rmin_glb_lt; lra).
  exists (mkposreal _ Hp). intros t Ht. apply Rabs_lt_between' in Ht. simpl in Ht.
  pose proof (Rmin_l (x + 1) (1 - x)). pose proof (Rmin_r (x + 1) (1 - x)). unfold Dom. lra.
Qed.

Lemma Becke_tf_ok_lemma rmin R_ : 0 < R_ ->
  tf_ok Dom (Becke_transform rmin R_) (Becke_inverse rmin R_) (Becke_deriv rmin R_) (Becke_deriv2 rmin R_) (Becke_deriv3 rmin R_).
Proof.
  intros HR x Hx.
  refine (conj (Becke_d1 rmin R_ x Hx) (conj (Becke_d2 rmin R_ x Hx) (conj (Becke_d3 rmin R_ x Hx) (conj _ _)))).
  - apply Rgt_not_eq. exact (Becke_deriv_pos rmin R_ x HR Hx).
  - apply Becke_inv_tf; [lra|exact Hx].
Qed.
Lemma Knowles_tf_ok_lemma rmin R_ k : 0 < R_ -> 0 < k ->
  tf_ok Dom (Knowles_transform rmin R_ k) (Knowles_inverse rmin R_ k) (Knowles_deriv rmin R_ k) (Knowles_deriv2 rmin R_ k) (Knowles_deriv3 rmin R_ k).
Proof.
  intros HR Hk x Hx.
  refine (conj (Knowles_d1 rmin R_ k x Hk Hx) (conj (Knowles_d2 rmin R_ k x Hk Hx) (conj (Knowles_d3 rmin R_ k x Hk Hx) (conj _ _)))).
  - apply Rgt_not_eq. exact (Knowles_deriv_pos rmin R_ k x HR Hk Hx).
  - apply Knowles_inv_tf; [lra|exact Hk|exact Hx].
Qed.
Lemma MultiExp_tf_ok_lemma rmin R_ : 0 < R_ ->
  tf_ok Dom (MultiExp_transform rmin R_) (MultiExp_inverse rmin R_) (MultiExp_deriv rmin R_) (MultiExp_deriv2 rmin R_) (MultiExp_deriv3 rmin R_).
Proof.
  intros HR x Hx.
  refine (conj (MultiExp_d1 rmin R_ x Hx) (conj (MultiExp_d2 rmin R_ x Hx) (conj (MultiExp_d3 rmin R_ x Hx) (conj _ _)))).
  - apply Rlt_not_eq. exact (MultiExp_deriv_neg rmin R_ x HR Hx).
  - apply MultiExp_inv_tf; [lra|exact Hx].
Qed.

