(* C15: hand model of the wiring of solve_ode_ivp / solve_ode_bvp / _transform_solution_to_original_domain around the
   generated helpers (C15_gen.v, regenerated from src/grid/ode.py on every run).  Definitions only - no proofs here.
   The harness validates every definition of this file against the implementation with SciPy's solvers replaced by a
   recording stub (wiring correspondence), on every run.

   Conventions: g = transform.transform, ginv = transform.inverse, g1,g2,g3 = transform.deriv, deriv2, deriv3;
   x is the user's variable, r = g x the variable SciPy integrates in;  a_k, f are the user's coefficient functions and
   right-hand side (constants are constant functions);  S_i are the components of the solver's dense output `res.sol`. *)
From Coq Require Import Reals List.
From Coquelicot Require Import Coquelicot.
From P Require Import C15_bell C15_gen C15_ref.
Import ListNotations.
Open Scope R_scope.

(* numpy `deriv.dot(v)` with the matrix returned by _derivative_transformation_matrix(deriv_funcs, point, N) *)
Definition mv1 (d1 d2 d3 v1 : R) : R := dtm_1_0_0 d1 d2 d3 * v1.
Definition mv2 (d1 d2 d3 v1 v2 : R) : R * R :=
  (dtm_2_0_0 d1 d2 d3 * v1 + dtm_2_0_1 d1 d2 d3 * v2,
   dtm_2_1_0 d1 d2 d3 * v1 + dtm_2_1_1 d1 d2 d3 * v2).
Definition mv3 (d1 d2 d3 v1 v2 v3 : R) : R * R * R :=
  (dtm_3_0_0 d1 d2 d3 * v1 + dtm_3_0_1 d1 d2 d3 * v2 + dtm_3_0_2 d1 d2 d3 * v3,
   dtm_3_1_0 d1 d2 d3 * v1 + dtm_3_1_1 d1 d2 d3 * v2 + dtm_3_1_2 d1 d2 d3 * v3,
   dtm_3_2_0 d1 d2 d3 * v1 + dtm_3_2_1 d1 d2 d3 * v2 + dtm_3_2_2 d1 d2 d3 * v3).

(* admissible transform on the set D of x values: thrice differentiable with the code's deriv/deriv2/deriv3 as derivatives,
   g' <> 0, and transform.inverse inverts transform *)
Definition tf_ok (D : R -> Prop) (g ginv g1 g2 g3 : R -> R) : Prop :=
  forall x, D x -> is_derive g x (g1 x) /\ is_derive g1 x (g2 x) /\ is_derive g2 x (g3 x) /\ g1 x <> 0 /\ ginv (g x) = x.

(* the open interval on which the transforms with domain (-1, 1) are admissible *)
Definition Dom (x : R) : Prop := -1 < x < 1.

(* ------------------------------------------------------------------ solve_ode_ivp with a transform
   x_span  ->  transform.transform(x_span);
   y0      ->  hstack(y0[0], scipy.linalg.solve(M(x_span[0]), y0[1:]))  with M = _derivative_transformation_matrix(.., order-1);
              scipy.linalg.solve is an oracle: its result v satisfies M v = y0[1:]  (relation below);
   func    ->  generated (ivp_rhsT_K);
   result  ->  x |-> (S0 (g x), M(x) . (S1 (g x), ..)) (_transform_solution_to_original_domain, no_derivatives=False),
               x |-> S0 (g x) when no_derivatives=True *)
Definition span_T (g : R -> R) (x0 x1 : R) : R * R := (g x0, g x1).

Definition init_T_1 (c0 : R) (W0 : R) : Prop := W0 = c0.
Definition init_T_2 (g1 g2 g3 : R -> R) (x0 c0 c1 : R) (W : R * R) : Prop :=
  fst W = c0 /\ mv1 (g1 x0) (g2 x0) (g3 x0) (snd W) = c1.
Definition init_T_3 (g1 g2 g3 : R -> R) (x0 c0 c1 c2 : R) (W : R * R * R) : Prop :=
  fst (fst W) = c0 /\ mv2 (g1 x0) (g2 x0) (g3 x0) (snd (fst W)) (snd W) = (c1, c2).

Definition out_T_1 (g S0 : R -> R) (x : R) : R := S0 (g x).
Definition out_T_2 (g g1 g2 g3 S0 S1 : R -> R) (x : R) : R * R :=
  (S0 (g x), mv1 (g1 x) (g2 x) (g3 x) (S1 (g x))).
Definition out_T_3 (g g1 g2 g3 S0 S1 S2 : R -> R) (x : R) : R * R * R :=
  (S0 (g x), fst (mv2 (g1 x) (g2 x) (g3 x) (S1 (g x)) (S2 (g x))), snd (mv2 (g1 x) (g2 x) (g3 x) (S1 (g x)) (S2 (g x)))).
Definition out_T_noderiv (g S0 : R -> R) (x : R) : R := S0 (g x).

(* the contract of scipy.integrate.solve_ivp / solve_bvp used by the theorems ("the returned dense output satisfies the
   first-order system it was given", at the points r = g x, x in D); F is the generated right-hand side *)
Definition solves_1 (D : R -> Prop) (g : R -> R) (F : R -> R -> R) (S0 : R -> R) : Prop :=
  forall x, D x -> is_derive S0 (g x) (F (g x) (S0 (g x))).
Definition solves_2 (D : R -> Prop) (g : R -> R) (F : R -> R -> R -> R * R) (S0 S1 : R -> R) : Prop :=
  forall x, D x -> is_derive S0 (g x) (fst (F (g x) (S0 (g x)) (S1 (g x)))) /\
                   is_derive S1 (g x) (snd (F (g x) (S0 (g x)) (S1 (g x)))).
Definition solves_3 (D : R -> Prop) (g : R -> R) (F : R -> R -> R -> R -> R * R * R) (S0 S1 S2 : R -> R) : Prop :=
  forall x, D x -> is_derive S0 (g x) (fst (fst (F (g x) (S0 (g x)) (S1 (g x)) (S2 (g x))))) /\
                   is_derive S1 (g x) (snd (fst (F (g x) (S0 (g x)) (S1 (g x)) (S2 (g x))))) /\
                   is_derive S2 (g x) (snd (F (g x) (S0 (g x)) (S1 (g x)) (S2 (g x)))).

(* ------------------------------------------------------------------ solve_ode_bvp
   bc(ya, yb) = [ (ya if i = 0 else yb)[j] - C  for (i, j, C) in bd_cond ];  mesh -> transform.transform(x);
   func and the returned callable are as for the initial value problem. *)
Definition bc_entry (i j : nat) (C : R) (Ya Yb : list R) : R := nth j (match i with O => Ya | _ => Yb end) 0 - C.
