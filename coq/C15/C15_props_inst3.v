(* C15 property theorems (statements only): instances with transforms regenerated from src/grid/rtransform.py (C03_gen.v). *)
From Coq Require Import Reals List.
From Coquelicot Require Import Coquelicot.
From P Require Import C03_gen.
From P Require Import C15_bell C15_gen C15_ref C15_model C15_proofs_inst3.
Import ListNotations.
Open Scope R_scope.

Theorem solution_transfers_ivp_3_Becke : forall (rmin R_ : R) (a0 a1 a2 a3 f : R -> R) (x0 x1 c0 c1 c2 : R) (S0 S1 S2 : R -> R),
  0 < R_ -> (forall x, Dom x -> a3 x <> 0) ->
  let g := Becke_transform rmin R_ in let ginv := Becke_inverse rmin R_ in
  let g1 := Becke_deriv rmin R_ in let g2 := Becke_deriv2 rmin R_ in let g3 := Becke_deriv3 rmin R_ in
  solves_3 Dom g (ivp_rhsT_3 a0 a1 a2 a3 ginv g1 g2 g3 f) S0 S1 S2 ->
  init_T_3 g1 g2 g3 x0 c0 c1 c2 (S0 (fst (span_T g x0 x1)), S1 (fst (span_T g x0 x1)), S2 (fst (span_T g x0 x1))) ->
  let y := out_T_3 g g1 g2 g3 S0 S1 S2 in
  (forall x, Dom x -> exists y3 : R,
     is_derive (fun t => fst (fst (y t))) x (snd (fst (y x))) /\ is_derive (fun t => snd (fst (y t))) x (snd (y x)) /\
     is_derive (fun t => snd (y t)) x y3 /\
     a0 x * fst (fst (y x)) + a1 x * snd (fst (y x)) + a2 x * snd (y x) + a3 x * y3 = f x) /\
  y x0 = (c0, c1, c2).
Proof. exact ivp3_Becke_lemma. Qed.
Print Assumptions solution_transfers_ivp_3_Becke.

Theorem solution_transfers_ivp_3_Knowles : forall (rmin R_ k : R) (a0 a1 a2 a3 f : R -> R) (x0 x1 c0 c1 c2 : R) (S0 S1 S2 : R -> R),
  0 < R_ -> 0 < k -> (forall x, Dom x -> a3 x <> 0) ->
  let g := Knowles_transform rmin R_ k in let ginv := Knowles_inverse rmin R_ k in
  let g1 := Knowles_deriv rmin R_ k in let g2 := Knowles_deriv2 rmin R_ k in let g3 := Knowles_deriv3 rmin R_ k in
  solves_3 Dom g (ivp_rhsT_3 a0 a1 a2 a3 ginv g1 g2 g3 f) S0 S1 S2 ->
  init_T_3 g1 g2 g3 x0 c0 c1 c2 (S0 (fst (span_T g x0 x1)), S1 (fst (span_T g x0 x1)), S2 (fst (span_T g x0 x1))) ->
  let y := out_T_3 g g1 g2 g3 S0 S1 S2 in
  (forall x, Dom x -> exists y3 : R,
     is_derive (fun t => fst (fst (y t))) x (snd (fst (y x))) /\ is_derive (fun t => snd (fst (y t))) x (snd (y x)) /\
     is_derive (fun t => snd (y t)) x y3 /\
     a0 x * fst (fst (y x)) + a1 x * snd (fst (y x)) + a2 x * snd (y x) + a3 x * y3 = f x) /\
  y x0 = (c0, c1, c2).
Proof. exact ivp3_Knowles_lemma. Qed.
Print Assumptions solution_transfers_ivp_3_Knowles.

Theorem chain_rule_3_Knowles : forall (rmin R_ k : R) (u0 u1 u2 u3 : R -> R) (a0 a1 a2 a3 x : R),
  0 < R_ -> 0 < k -> Dom x ->
  let g := Knowles_transform rmin R_ k in
  let g1 := Knowles_deriv rmin R_ k in let g2 := Knowles_deriv2 rmin R_ k in let g3 := Knowles_deriv3 rmin R_ k in
  is_derive u0 (g x) (u1 (g x)) -> is_derive u1 (g x) (u2 (g x)) -> is_derive u2 (g x) (u3 (g x)) ->
  is_derive (fun t => u0 (g t)) x (Y1 u1 g g1 x) /\ is_derive (Y1 u1 g g1) x (Y2 u1 u2 g g1 g2 x) /\
  is_derive (Y2 u1 u2 g g1 g2) x (Y3 u1 u2 u3 g g1 g2 g3 x) /\
  a0 * u0 (g x) + a1 * Y1 u1 g g1 x + a2 * Y2 u1 u2 g g1 g2 x + a3 * Y3 u1 u2 u3 g g1 g2 g3 x =
  tode_b3_0 a0 a1 a2 a3 (g1 x) (g2 x) (g3 x) * u0 (g x) + tode_b3_1 a0 a1 a2 a3 (g1 x) (g2 x) (g3 x) * u1 (g x) +
  tode_b3_2 a0 a1 a2 a3 (g1 x) (g2 x) (g3 x) * u2 (g x) + tode_b3_3 a0 a1 a2 a3 (g1 x) (g2 x) (g3 x) * u3 (g x).
Proof. exact chain_rule_3_Knowles_lemma. Qed.
Print Assumptions chain_rule_3_Knowles.
