(* C15 property theorems (statements only): solution_transfers.
   SciPy's solve_ivp / solve_bvp are oracles; `solves_K D g F S` (C15_model.v) is their contract "the dense output S satisfies
   the first-order system F it was given at r = g x", `init_T_K` / `bc_entry ... = 0` the data they were given.
   Then the callable returned by solve_ode_ivp / solve_ode_bvp (out_T_K: S composed with g, derivatives multiplied by the
   code's matrix) has, in the user's variable x, successive components that are derivatives of each other, satisfies the
   stated ODE  sum_k a_k(x) y^(k)(x) = f(x), and takes the stated initial / boundary data. *)
From Coq Require Import Reals List.
From Coquelicot Require Import Coquelicot.
From P Require Import C15_bell C15_gen C15_ref C15_model C15_proofs_wiring3.
Import ListNotations.
Open Scope R_scope.

Theorem solution_transfers_ivp_3 : forall (a0 a1 a2 a3 f g ginv g1 g2 g3 : R -> R) (D : R -> Prop) (x0 x1 c0 c1 c2 : R) (S0 S1 S2 : R -> R),
  tf_ok D g ginv g1 g2 g3 -> (forall x, D x -> a3 x <> 0) ->
  solves_3 D g (ivp_rhsT_3 a0 a1 a2 a3 ginv g1 g2 g3 f) S0 S1 S2 ->
  init_T_3 g1 g2 g3 x0 c0 c1 c2 (S0 (fst (span_T g x0 x1)), S1 (fst (span_T g x0 x1)), S2 (fst (span_T g x0 x1))) ->
  let y := out_T_3 g g1 g2 g3 S0 S1 S2 in
  (forall x, D x -> exists y3 : R,
     is_derive (fun t => fst (fst (y t))) x (snd (fst (y x))) /\ is_derive (fun t => snd (fst (y t))) x (snd (y x)) /\
     is_derive (fun t => snd (y t)) x y3 /\
     a0 x * fst (fst (y x)) + a1 x * snd (fst (y x)) + a2 x * snd (y x) + a3 x * y3 = f x) /\
  y x0 = (c0, c1, c2).
Proof. exact ivp_transfers_3_lemma. Qed.
Print Assumptions solution_transfers_ivp_3.

Theorem solution_transfers_bvp_3 : forall (a0 a1 a2 a3 f g ginv g1 g2 g3 : R -> R) (D : R -> Prop) (xa xb : R) (S0 S1 S2 : R -> R),
  tf_ok D g ginv g1 g2 g3 -> (forall x, D x -> a3 x <> 0) ->
  solves_3 D g (bvp_rhsT_3 a0 a1 a2 a3 ginv g1 g2 g3 f) S0 S1 S2 ->
  let y := out_T_3 g g1 g2 g3 S0 S1 S2 in
  let Ya := [S0 (g xa); S1 (g xa); S2 (g xa)] in let Yb := [S0 (g xb); S1 (g xb); S2 (g xb)] in
  (forall x, D x -> exists y3 : R,
     is_derive (fun t => fst (fst (y t))) x (snd (fst (y x))) /\ is_derive (fun t => snd (fst (y t))) x (snd (y x)) /\
     is_derive (fun t => snd (y t)) x y3 /\
     a0 x * fst (fst (y x)) + a1 x * snd (fst (y x)) + a2 x * snd (y x) + a3 x * y3 = f x) /\
  (forall C, bc_entry 0 0 C Ya Yb = 0 -> fst (fst (y xa)) = C) /\
  (forall C, bc_entry 1 0 C Ya Yb = 0 -> fst (fst (y xb)) = C) /\
  (forall C, bc_entry 0 1 C Ya Yb = 0 -> snd (fst (y xa)) = g1 xa * C) /\
  (forall C, bc_entry 1 1 C Ya Yb = 0 -> snd (fst (y xb)) = g1 xb * C) /\
  (forall C, bc_entry 0 2 C Ya Yb = 0 -> snd (y xa) = g2 xa * S1 (g xa) + g1 xa ^ 2 * C) /\
  (forall C, bc_entry 1 2 C Ya Yb = 0 -> snd (y xb) = g2 xb * S1 (g xb) + g1 xb ^ 2 * C).
Proof. exact bvp_transfers_3_lemma. Qed.
Print Assumptions solution_transfers_bvp_3.
