(* C15 property theorems (statements only): without a transform (res.sol returned as is). *)
From Coq Require Import Reals List.
From Coquelicot Require Import Coquelicot.
From P Require Import C15_bell C15_gen C15_ref C15_model C15_proofs_wiring_direct.
Import ListNotations.
Open Scope R_scope.

Theorem direct_solution_1 : forall (a0 a1 f : R -> R) (D : R -> Prop) (S0 : R -> R),
  (forall x, D x -> a1 x <> 0) ->
  solves_1 D (fun x => x) (ivp_rhsD_1 a0 a1 f) S0 ->
  forall x, D x -> exists y1 : R, is_derive S0 x y1 /\ a0 x * S0 x + a1 x * y1 = f x.
Proof. exact direct_1_lemma. Qed.
Print Assumptions direct_solution_1.

Theorem direct_solution_2 : forall (a0 a1 a2 f : R -> R) (D : R -> Prop) (S0 S1 : R -> R),
  (forall x, D x -> a2 x <> 0) ->
  solves_2 D (fun x => x) (ivp_rhsD_2 a0 a1 a2 f) S0 S1 ->
  forall x, D x -> exists y2 : R, is_derive S0 x (S1 x) /\ is_derive S1 x y2 /\ a0 x * S0 x + a1 x * S1 x + a2 x * y2 = f x.
Proof. exact direct_2_lemma. Qed.
Print Assumptions direct_solution_2.

Theorem direct_solution_3 : forall (a0 a1 a2 a3 f : R -> R) (D : R -> Prop) (S0 S1 S2 : R -> R),
  (forall x, D x -> a3 x <> 0) ->
  solves_3 D (fun x => x) (ivp_rhsD_3 a0 a1 a2 a3 f) S0 S1 S2 ->
  forall x, D x -> exists y3 : R, is_derive S0 x (S1 x) /\ is_derive S1 x (S2 x) /\ is_derive S2 x y3 /\
    a0 x * S0 x + a1 x * S1 x + a2 x * S2 x + a3 x * y3 = f x.
Proof. exact direct_3_lemma. Qed.
Print Assumptions direct_solution_3.
