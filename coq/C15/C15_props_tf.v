(* C15 property theorems (statements only): instances with transforms regenerated from src/grid/rtransform.py (C03_gen.v). *)
From Coq Require Import Reals List.
From Coquelicot Require Import Coquelicot.
From P Require Import C03_gen.
From P Require Import C15_bell C15_gen C15_ref C15_model C15_proofs_tf.
Import ListNotations.
Open Scope R_scope.

(* the transform's admissibility hypothesis used above *)
Theorem tf_ok_unfold : forall (D : R -> Prop) (g ginv g1 g2 g3 : R -> R),
  tf_ok D g ginv g1 g2 g3 <->
  (forall x, D x -> is_derive g x (g1 x) /\ is_derive g1 x (g2 x) /\ is_derive g2 x (g3 x) /\ g1 x <> 0 /\ ginv (g x) = x).
Proof. exact tf_ok_unfold_lemma. Qed.
Print Assumptions tf_ok_unfold.

Theorem Becke_admissible : forall (rmin R_ : R),
  0 < R_ ->
  tf_ok Dom (Becke_transform rmin R_) (Becke_inverse rmin R_) (Becke_deriv rmin R_) (Becke_deriv2 rmin R_) (Becke_deriv3 rmin R_).
Proof. exact Becke_tf_ok_lemma. Qed.
Print Assumptions Becke_admissible.

Theorem Knowles_admissible : forall (rmin R_ k : R),
  0 < R_ -> 0 < k ->
  tf_ok Dom (Knowles_transform rmin R_ k) (Knowles_inverse rmin R_ k) (Knowles_deriv rmin R_ k) (Knowles_deriv2 rmin R_ k) (Knowles_deriv3 rmin R_ k).
Proof. exact Knowles_tf_ok_lemma. Qed.
Print Assumptions Knowles_admissible.

Theorem MultiExp_admissible : forall (rmin R_ : R),
  0 < R_ ->
  tf_ok Dom (MultiExp_transform rmin R_) (MultiExp_inverse rmin R_) (MultiExp_deriv rmin R_) (MultiExp_deriv2 rmin R_) (MultiExp_deriv3 rmin R_).
Proof. exact MultiExp_tf_ok_lemma. Qed.
Print Assumptions MultiExp_admissible.

Theorem Dom_is_open : forall x, Dom x -> locally x Dom.
Proof. exact Dom_open. Qed.
Print Assumptions Dom_is_open.
