(* C15: hand-written reference, independent of the code: derivatives of y = u o g by the chain rule (Faa di Bruno, orders 1..3).
   Definitions only. *)
From Coq Require Import Reals.
Open Scope R_scope.

Definition Y1 (u1 g g1 : R -> R) (t : R) : R := u1 (g t) * g1 t.
Definition Y2 (u1 u2 g g1 g2 : R -> R) (t : R) : R := u2 (g t) * g1 t ^ 2 + u1 (g t) * g2 t.
Definition Y3 (u1 u2 u3 g g1 g2 g3 : R -> R) (t : R) : R :=
  u3 (g t) * g1 t ^ 3 + 3 * u2 (g t) * g1 t * g2 t + u1 (g t) * g3 t.

