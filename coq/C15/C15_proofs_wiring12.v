(* C15: the wiring of solve_ode_ivp / solve_ode_bvp.  If the SciPy solver (an oracle: Section-free, its contract is the
   hypothesis `solves_K`) returns a dense output S that satisfies the generated first-order system in the transformed
   variable r = g x, then the callable the code returns (S composed with g, derivatives multiplied by the code's
   derivative matrix) is the solution of the stated ODE in x with the stated initial / boundary data. *)
From Coq Require Import Reals Lra List.
From Coquelicot Require Import Coquelicot.
From P Require Import C15_bell C15_gen C15_ref C15_model C15_proofs_fdb C15_proofs_matrix.
Import ListNotations.
Open Scope R_scope.

(* orders 1 and 2 *)
(* ---------------------------------------------------------------- order 1 *)
Lemma transfers_1 (rhs : (R -> R) -> (R -> R) -> (R -> R) -> (R -> R) -> (R -> R) -> (R -> R) -> (R -> R) -> R -> R -> R)
  (a0 a1 f g ginv g1 g2 g3 : R -> R) (D : R -> Prop) (S0 : R -> R) :
  (forall x w0, D x -> rhs a0 a1 ginv g1 g2 g3 f (g x) w0 = tre_1 a0 a1 g1 g2 g3 f x w0) ->
  tf_ok D g ginv g1 g2 g3 -> (forall x, D x -> a1 x <> 0) ->
  solves_1 D g (rhs a0 a1 ginv g1 g2 g3 f) S0 ->
  forall x, D x -> exists y1 : R,
    is_derive (out_T_1 g S0) x y1 /\ a0 x * out_T_1 g S0 x + a1 x * y1 = f x.
Proof.
  intros Hr Ht Ha HS x Hx. destruct (Ht x Hx) as (G1 & G2 & G3 & Hn & Hi). pose proof (HS x Hx) as E1.
  rewrite (Hr x _ Hx) in E1.
  set (U1 := fun r : R => tre_1 a0 a1 g1 g2 g3 f (ginv r) (S0 r)).
  assert (E1' : is_derive S0 (g x) (U1 (g x))) by (unfold U1; rewrite Hi; exact E1).
  exists (Y1 U1 g g1 x). split.
  - unfold out_T_1. exact (fdb1 S0 U1 g g1 x G1 E1').
  - unfold out_T_1, Y1, U1. rewrite Hi. unfold tre_1. field. split; [exact Hn|exact (Ha x Hx)].
Qed.

(* ---------------------------------------------------------------- order 2 *)
Lemma transfers_2 (rhs : (R -> R) -> (R -> R) -> (R -> R) -> (R -> R) -> (R -> R) -> (R -> R) -> (R -> R) -> (R -> R) -> R -> R -> R -> R * R)
  (a0 a1 a2 f g ginv g1 g2 g3 : R -> R) (D : R -> Prop) (S0 S1 : R -> R) :
  (forall x w0 w1, D x -> rhs a0 a1 a2 ginv g1 g2 g3 f (g x) w0 w1 = (w1, tre_2 a0 a1 a2 g1 g2 g3 f x w0 w1)) ->
  tf_ok D g ginv g1 g2 g3 -> (forall x, D x -> a2 x <> 0) ->
  solves_2 D g (rhs a0 a1 a2 ginv g1 g2 g3 f) S0 S1 ->
  let y := out_T_2 g g1 g2 g3 S0 S1 in
  forall x, D x -> exists y2 : R,
    is_derive (fun t => fst (y t)) x (snd (y x)) /\ is_derive (fun t => snd (y t)) x y2 /\
    a0 x * fst (y x) + a1 x * snd (y x) + a2 x * y2 = f x.
Proof.
  intros Hr Ht Ha HS y x Hx. destruct (Ht x Hx) as (G1 & G2 & G3 & Hn & Hi). destruct (HS x Hx) as (E1 & E2).
  rewrite (Hr x _ _ Hx) in E1, E2. cbn [fst snd] in E1, E2.
  set (U2 := fun r : R => tre_2 a0 a1 a2 g1 g2 g3 f (ginv r) (S0 r) (S1 r)).
  assert (E2' : is_derive S1 (g x) (U2 (g x))) by (unfold U2; rewrite Hi; exact E2).
  assert (X1 : forall t : R, Y1 S1 g g1 t = snd (y t)) by (intros t; unfold y, out_T_2; cbn [fst snd]; rewrite mv1_closed; unfold Y1; ring).
  exists (Y2 S1 U2 g g1 g2 x). rewrite <- X1. split; [|split].
  - unfold y, out_T_2. cbn [fst snd]. exact (fdb1 S0 S1 g g1 x G1 E1).
  - apply (is_derive_ext (Y1 S1 g g1) _ x _ X1). exact (fdb2 S1 U2 g g1 g2 x G1 G2 E2').
  - unfold y, out_T_2, Y1, Y2, U2. cbn [fst snd]. rewrite Hi. unfold tre_2. field. split; [exact Hn|exact (Ha x Hx)].
Qed.

(* the generated right-hand sides of both solvers have the shape assumed above *)
Lemma ivp_rhs_shape_1 a0 a1 f g ginv g1 g2 g3 (D : R -> Prop) : tf_ok D g ginv g1 g2 g3 ->
  forall x w0, D x -> ivp_rhsT_1 a0 a1 ginv g1 g2 g3 f (g x) w0 = tre_1 a0 a1 g1 g2 g3 f x w0.
Proof. intros Ht x w0 Hx. destruct (Ht x Hx) as (_ & _ & _ & _ & Hi). unfold ivp_rhsT_1, tre_1. rewrite Hi. reflexivity. Qed.
Lemma bvp_rhs_shape_1 a0 a1 f g ginv g1 g2 g3 (D : R -> Prop) : tf_ok D g ginv g1 g2 g3 ->
  forall x w0, D x -> bvp_rhsT_1 a0 a1 ginv g1 g2 g3 f (g x) w0 = tre_1 a0 a1 g1 g2 g3 f x w0.
Proof. intros Ht x w0 Hx. destruct (Ht x Hx) as (_ & _ & _ & _ & Hi). unfold bvp_rhsT_1, tre_1. rewrite Hi. reflexivity. Qed.
Lemma ivp_rhs_shape_2 a0 a1 a2 f g ginv g1 g2 g3 (D : R -> Prop) : tf_ok D g ginv g1 g2 g3 ->
  forall x w0 w1, D x -> ivp_rhsT_2 a0 a1 a2 ginv g1 g2 g3 f (g x) w0 w1 = (w1, tre_2 a0 a1 a2 g1 g2 g3 f x w0 w1).
Proof. intros Ht x w0 w1 Hx. destruct (Ht x Hx) as (_ & _ & _ & _ & Hi). unfold ivp_rhsT_2, tre_2. rewrite Hi. reflexivity. Qed.
Lemma bvp_rhs_shape_2 a0 a1 a2 f g ginv g1 g2 g3 (D : R -> Prop) : tf_ok D g ginv g1 g2 g3 ->
  forall x w0 w1, D x -> bvp_rhsT_2 a0 a1 a2 ginv g1 g2 g3 f (g x) w0 w1 = (w1, tre_2 a0 a1 a2 g1 g2 g3 f x w0 w1).
Proof. intros Ht x w0 w1 Hx. destruct (Ht x Hx) as (_ & _ & _ & _ & Hi). unfold bvp_rhsT_2, tre_2. rewrite Hi. reflexivity. Qed.

Lemma ivp_transfers_1_lemma (a0 a1 f g ginv g1 g2 g3 : R -> R) (D : R -> Prop) (x0 x1 c0 : R) (S0 : R -> R) :
  tf_ok D g ginv g1 g2 g3 -> (forall x, D x -> a1 x <> 0) ->
  solves_1 D g (ivp_rhsT_1 a0 a1 ginv g1 g2 g3 f) S0 ->
  init_T_1 c0 (S0 (fst (span_T g x0 x1))) ->
  (forall x, D x -> exists y1 : R, is_derive (out_T_1 g S0) x y1 /\ a0 x * out_T_1 g S0 x + a1 x * y1 = f x) /\
  out_T_1 g S0 x0 = c0.
Proof.
  intros Ht Ha HS Hi. split.
  - exact (transfers_1 ivp_rhsT_1 a0 a1 f g ginv g1 g2 g3 D S0 (ivp_rhs_shape_1 a0 a1 f g ginv g1 g2 g3 D Ht) Ht Ha HS).
  - exact Hi.
Qed.
Lemma ivp_transfers_2_lemma (a0 a1 a2 f g ginv g1 g2 g3 : R -> R) (D : R -> Prop) (x0 x1 c0 c1 : R) (S0 S1 : R -> R) :
  tf_ok D g ginv g1 g2 g3 -> (forall x, D x -> a2 x <> 0) ->
  solves_2 D g (ivp_rhsT_2 a0 a1 a2 ginv g1 g2 g3 f) S0 S1 ->
  init_T_2 g1 g2 g3 x0 c0 c1 (S0 (fst (span_T g x0 x1)), S1 (fst (span_T g x0 x1))) ->
  let y := out_T_2 g g1 g2 g3 S0 S1 in
  (forall x, D x -> exists y2 : R,
     is_derive (fun t => fst (y t)) x (snd (y x)) /\ is_derive (fun t => snd (y t)) x y2 /\
     a0 x * fst (y x) + a1 x * snd (y x) + a2 x * y2 = f x) /\
  y x0 = (c0, c1).
Proof.
  intros Ht Ha HS Hi y. split.
  - exact (transfers_2 ivp_rhsT_2 a0 a1 a2 f g ginv g1 g2 g3 D S0 S1 (ivp_rhs_shape_2 a0 a1 a2 f g ginv g1 g2 g3 D Ht) Ht Ha HS).
  - destruct Hi as [I0 I1]. cbn [fst snd span_T] in I0, I1. unfold y, out_T_2. rewrite I0, I1. reflexivity.
Qed.

(* ---------------------------------------------------------------- boundary value problems
   bd_cond entry (i, j, C): SciPy's solution satisfies bc_entry i j C (S(g xa)) (S(g xb)) = 0.
   j = 0: the returned function takes the value C at the end point, in the user's variable.
   j >= 1: the constraint is on d^j u / dr^j, the derivative with respect to the TRANSFORMED variable (as the docstring of
   solve_ode_bvp states); in the user's variable the returned derivatives are then M(x_i) applied to the constrained jet. *)
Lemma bvp_transfers_2_lemma (a0 a1 a2 f g ginv g1 g2 g3 : R -> R) (D : R -> Prop) (xa xb : R) (S0 S1 : R -> R) :
  tf_ok D g ginv g1 g2 g3 -> (forall x, D x -> a2 x <> 0) ->
  solves_2 D g (bvp_rhsT_2 a0 a1 a2 ginv g1 g2 g3 f) S0 S1 ->
  let y := out_T_2 g g1 g2 g3 S0 S1 in
  let Ya := [S0 (g xa); S1 (g xa)] in let Yb := [S0 (g xb); S1 (g xb)] in
  (forall x, D x -> exists y2 : R,
     is_derive (fun t => fst (y t)) x (snd (y x)) /\ is_derive (fun t => snd (y t)) x y2 /\
     a0 x * fst (y x) + a1 x * snd (y x) + a2 x * y2 = f x) /\
  (forall C, bc_entry 0 0 C Ya Yb = 0 -> fst (y xa) = C) /\
  (forall C, bc_entry 1 0 C Ya Yb = 0 -> fst (y xb) = C) /\
  (forall C, bc_entry 0 1 C Ya Yb = 0 -> snd (y xa) = g1 xa * C) /\
  (forall C, bc_entry 1 1 C Ya Yb = 0 -> snd (y xb) = g1 xb * C).
Proof.
  intros Ht Ha HS y Ya Yb. split.
  - exact (transfers_2 bvp_rhsT_2 a0 a1 a2 f g ginv g1 g2 g3 D S0 S1 (bvp_rhs_shape_2 a0 a1 a2 f g ginv g1 g2 g3 D Ht) Ht Ha HS).
  - unfold bc_entry, y, out_T_2, Ya, Yb. cbn [nth fst snd]. repeat split; intros C HC; rewrite ?mv1_closed;
      try (replace C with (S0 (g xa)) by lra; ring); try (replace C with (S0 (g xb)) by lra; ring);
      try (replace C with (S1 (g xa)) by lra; ring); try (replace C with (S1 (g xb)) by lra; ring).
Qed.
Lemma bvp_transfers_1_lemma (a0 a1 f g ginv g1 g2 g3 : R -> R) (D : R -> Prop) (xa xb : R) (S0 : R -> R) :
  tf_ok D g ginv g1 g2 g3 -> (forall x, D x -> a1 x <> 0) ->
  solves_1 D g (bvp_rhsT_1 a0 a1 ginv g1 g2 g3 f) S0 ->
  (forall x, D x -> exists y1 : R, is_derive (out_T_1 g S0) x y1 /\ a0 x * out_T_1 g S0 x + a1 x * y1 = f x) /\
  (forall C, bc_entry 0 0 C [S0 (g xa)] [S0 (g xb)] = 0 -> out_T_1 g S0 xa = C) /\
  (forall C, bc_entry 1 0 C [S0 (g xa)] [S0 (g xb)] = 0 -> out_T_1 g S0 xb = C).
Proof.
  intros Ht Ha HS. split.
  - exact (transfers_1 bvp_rhsT_1 a0 a1 f g ginv g1 g2 g3 D S0 (bvp_rhs_shape_1 a0 a1 f g ginv g1 g2 g3 D Ht) Ht Ha HS).
  - unfold bc_entry, out_T_1. cbn [nth]. split; intros C HC; lra.
Qed.
