(* C15 property theorems (statements only): instances with transforms regenerated from src/grid/rtransform.py (C03_gen.v). *)
From Coq Require Import Reals List.
From Coquelicot Require Import Coquelicot.
From P Require Import C03_gen.
From P Require Import C15_bell C15_gen C15_ref C15_model C15_proofs_inst2.
Import ListNotations.
Open Scope R_scope.

Theorem solution_transfers_bvp_2_MultiExp : forall (rmin R_ : R) (a0 a1 a2 f : R -> R) (xa xb : R) (S0 S1 : R -> R),
  0 < R_ -> (forall x, Dom x -> a2 x <> 0) ->
  let g := MultiExp_transform rmin R_ in let ginv := MultiExp_inverse rmin R_ in
  let g1 := MultiExp_deriv rmin R_ in let g2 := MultiExp_deriv2 rmin R_ in let g3 := MultiExp_deriv3 rmin R_ in
  solves_2 Dom g (bvp_rhsT_2 a0 a1 a2 ginv g1 g2 g3 f) S0 S1 ->
  let y := out_T_2 g g1 g2 g3 S0 S1 in
  let Ya := [S0 (g xa); S1 (g xa)] in let Yb := [S0 (g xb); S1 (g xb)] in
  (forall x, Dom x -> exists y2 : R,
     is_derive (fun t => fst (y t)) x (snd (y x)) /\ is_derive (fun t => snd (y t)) x y2 /\
     a0 x * fst (y x) + a1 x * snd (y x) + a2 x * y2 = f x) /\
  (forall C, bc_entry 0 0 C Ya Yb = 0 -> fst (y xa) = C) /\
  (forall C, bc_entry 1 0 C Ya Yb = 0 -> fst (y xb) = C) /\
  (forall C, bc_entry 0 1 C Ya Yb = 0 -> snd (y xa) = g1 xa * C) /\
  (forall C, bc_entry 1 1 C Ya Yb = 0 -> snd (y xb) = g1 xb * C).
Proof. exact bvp2_MultiExp_lemma. Qed.
Print Assumptions solution_transfers_bvp_2_MultiExp.
