(* C20 property theorems (statements only; proofs are in C20_proofs*.v; C20_gen.v / C20_proofs_gen.v are
   generated from /repo/src/grid on every run). *)
From Coq Require Import Arith List Bool Relations.
From P Require Import C20_ir C20_proofs_main C20_gen C20_proofs_gen.
Import ListNotations.

(* Soundness of the may-alias checker, for every IR program, every summary table accepted by the
   checker, every call depth and every execution (normal return or exception) of a function the checker
   accepts, started on any well-formed heap with a snapshot of everything reachable from the arguments:
   every object reachable from an argument is bit-for-bit unchanged, and every protected object
   (arguments, objects handed to or returned by user callbacks) still has the data it had when it became
   protected. *)
Theorem analysis_sound : forall (Sg : sigma) (P : program) (f : fname), no_protected_write Sg P f = true ->
  forall n vs h h' s s' r,
    heap_wf h -> (forall l0, In (Some l0) vs -> l0 < next h) -> entry_snap h vs s ->
    callsem P n f vs h s h' s' r ->
    (forall l, reachl h vs l -> data h' l = data h l) /\
    (forall l d, s' l = Some d -> data h' l = d).
Proof. exact analysis_sound_lemma. Qed.
Print Assumptions analysis_sound.

(* The generated program (every function, method, nested function and lambda of the ten anchored
   modules) passes the checker with the generated summaries, and every function is accepted except the
   listed exceptions. *)
Theorem C20_static :
  check_prog sigma_gen prog = true /\
  forallb (fun f => s_ok (sig sigma_gen f) || existsb (Nat.eqb f) exceptions) (seq 0 (length prog)) = true.
Proof. exact static_lemma. Qed.
Print Assumptions C20_static.

(* hence: no function outside the exception list ever modifies a protected object *)
Theorem C20_generated_sound : forall f, f < length prog -> existsb (Nat.eqb f) exceptions = false ->
  forall n vs h h' s s' r,
    heap_wf h -> (forall l0, In (Some l0) vs -> l0 < next h) -> entry_snap h vs s ->
    callsem prog n f vs h s h' s' r ->
    (forall l, reachl h vs l -> data h' l = data h l) /\
    (forall l d, s' l = Some d -> data h' l = d).
Proof. exact generated_sound_lemma. Qed.
Print Assumptions C20_generated_sound.

(* every exception really is rejected by the checker (none is listed without need) ... *)
Theorem C20_exceptions_fail :
  forallb (fun f => match nth_error prog f with
                    | Some fd => negb (is_ok (verdict sigma_gen f fd))
                    | None => false end) exceptions = true.
Proof. exact exceptions_fail_lemma. Qed.
Print Assumptions C20_exceptions_fail.

(* ... and the root causes are refuted with their write sites: (function, site, reason) with reason
   1 = in-place write through a variable that may share with a protected object,
   2 = container mutation of such an object *)
Theorem C20_defects_refuted :
  forallb (fun t => match t with (f, site, why) =>
     match nth_error prog f with
     | Some fd => match verdict sigma_gen f fd with Bad s w => Nat.eqb s site && Nat.eqb w why | Ok _ => false end
     | None => false end end) defect_sites = true.
Proof. exact refuted_lemma. Qed.
Print Assumptions C20_defects_refuted.
