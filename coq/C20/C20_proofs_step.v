(* C20 — soundness of the abstract transfer function for the primitive statements. *)
From Coq Require Import Arith List Bool Relations Lia.
From P Require Import C20_ir C20_proofs C20_proofs_inv.
Import ListNotations.

(* What a checked function guarantees to its callers.  [S] is any set of allocated objects that is
   closed under references and contains the arguments (and all protected objects if the callee may run
   user code).  The callee then only touches S and the objects it allocates (N); it never changes the
   data of an object that existed before the call; its result lies in S or N, and in the isolated part
   Nc of N when the summary says "fresh". *)
Definition spec (sm : summary) (R : callrel) : Prop :=
  forall vs h s h' s' r, R vs h s h' s' r ->
  forall S : loc -> bool,
    heap_wf h -> (forall l, S l = true -> l < next h) ->
    (forall a b, S a = true -> refs h a b -> S b = true) ->
    (forall l, In (Some l) vs -> S l = true) ->
    (forall l d, s l = Some d -> data h l = d /\ l < next h) ->
    (s_user sm = true -> forall l d, s l = Some d -> S l = true) ->
    exists N Nc : loc -> bool,
      heap_wf h' /\ next h <= next h' /\
      (forall l, N l = true -> next h <= l /\ l < next h') /\
      (forall l, Nc l = true -> N l = true) /\
      (forall a, a < next h -> data h' a = data h a) /\
      (forall a b, a < next h -> S a = false -> (refs h' a b <-> refs h a b)) /\
      (forall a b, (S a || N a) = true -> refs h' a b -> (S b || N b) = true) /\
      (forall a b, (S a || N a) = true -> refs h' a b -> Nc b = true -> Nc a = true) /\
      (forall a b, refs h' a b -> Nc a = true -> Nc b = true) /\
      (forall l d, s l = Some d -> s' l = Some d) /\
      (forall l d, s' l = Some d -> s l = None -> (S l || N l) = true /\ Nc l = false /\ data h' l = d) /\
      (s_user sm = false -> forall l, s' l = s l) /\
      (forall l, r = Some (Some l) -> (S l || N l) = true /\ (s_fresh sm = true -> Nc l = true)) /\
      (s_fresh sm = false -> forall l, Nc l = false).

Lemma inrange_in : forall n xs x, inrange n xs = true -> In x xs -> x < n.
Proof. unfold inrange. intros n xs x H Hin. rewrite forallb_forall in H. apply Nat.ltb_lt. auto. Qed.

Lemma upd_same : forall e x v, upd e x v x = v.
Proof. intros. unfold upd. now rewrite Nat.eqb_refl. Qed.
Lemma upd_other : forall e x v y, y <> x -> upd e x v y = e y.
Proof. intros. unfold upd. destruct (Nat.eqb_spec y x); congruence. Qed.

(* assigning a variable *)
Lemma Inv_setvar : forall u A st L col x c v,
  Inv u A st L col -> x < length A ->
  (forall l, v = Some l -> L l = true /\ col l = c) ->
  Inv u (setnth A x c) {| hp := hp st; en := upd (en st) x v; sn := sn st |} L col.
Proof.
  intros u A st L col x c v [wf lb clo ecol envc snc] Hx Hv. constructor; simpl.
  - auto. - auto. - auto. - auto.
  - intros y l He. destruct (Nat.eq_dec y x) as [->|Hne].
    + rewrite upd_same in He. destruct (Hv l He) as [H1 H2]. split; auto. split.
      * now rewrite cls_setnth_same.
      * now rewrite setnth_length.
    + rewrite upd_other in He by auto. destruct (envc y l He) as (H1 & H2 & H3). split; auto. split.
      * rewrite cls_setnth_other; auto.
      * now rewrite setnth_length.
  - auto.
Qed.

Lemma Ext_env : forall st L col e, Ext st L col {| hp := hp st; en := e; sn := sn st |} L col.
Proof. intros. constructor; simpl; auto. intros; split; auto. tauto. Qed.

(* allocation of one object whose references go to objects of colour c in L *)
Lemma Inv_alloc : forall u A st L col h' c (T : loc -> Prop),
  Inv u A st L col ->
  next h' = S (next (hp st)) ->
  (forall a, a < next (hp st) -> data h' a = data (hp st) a) ->
  (forall a b, refs h' a b -> refs (hp st) a b \/ (a = next (hp st) /\ T b)) ->
  (forall a b, refs (hp st) a b -> refs h' a b) ->
  (forall b, T b -> L b = true /\ col b = c) ->
  let L' := fun l => L l || Nat.eqb l (next (hp st)) in
  let col' := fun l => if Nat.eqb l (next (hp st)) then c else col l in
  let st' := {| hp := h'; en := en st; sn := sn st |} in
  Inv u A st' L' col' /\ Ext st L col st' L' col'.
Proof.
  intros u A st L col h' c T [wf lb clo ecol envc snc] Hn Hd Hr Hr' HT L' col' st'.
  assert (Hcol : forall l, L l = true -> col' l = col l).
  { intros l Hl. unfold col'. destruct (Nat.eqb_spec l (next (hp st))); auto. apply lb in Hl. lia. }
  assert (HL' : forall l, L l = true -> L' l = true) by (intros l Hl; unfold L'; now rewrite Hl).
  split.
  - constructor; simpl.
    + intros a b R. rewrite Hn. destruct (Hr a b R) as [R0|[-> Tb]].
      * destruct (wf a b R0). lia.
      * destruct (HT b Tb) as [Lb _]. apply lb in Lb. lia.
    + intros l Hl. unfold L' in Hl. apply orb_true_iff in Hl as [Hl|Hl].
      * apply lb in Hl. lia. * apply Nat.eqb_eq in Hl. lia.
    + intros a b Ha R. destruct (Hr a b R) as [R0|[-> Tb]].
      * unfold L' in Ha. apply orb_true_iff in Ha as [Ha|Ha].
        -- apply HL'. eauto.
        -- apply Nat.eqb_eq in Ha. destruct (wf a b R0). lia.
      * apply HL'. apply HT; auto.
    + intros a b Ha R. destruct (Hr a b R) as [R0|[-> Tb]].
      * unfold L' in Ha. apply orb_true_iff in Ha as [Ha|Ha].
        -- rewrite !Hcol; eauto.
        -- apply Nat.eqb_eq in Ha. destruct (wf a b R0). lia.
      * destruct (HT b Tb) as [Lb Cb]. rewrite (Hcol b Lb). unfold col'. now rewrite Nat.eqb_refl.
    + intros x l He. destruct (envc x l He) as (H1 & H2 & H3). split; auto. split; auto.
      rewrite Hcol; auto.
    + intros l d Hs. destruct (snc l d Hs) as (H1 & H2 & H3 & H4). split.
      * rewrite Hd; auto.
      * split. lia. split.
        -- intros Hl. unfold col'. destruct (Nat.eqb_spec l (next (hp st))). lia.
           apply H3. unfold L' in Hl. apply orb_true_iff in Hl as [Hl|Hl]; auto.
           apply Nat.eqb_eq in Hl. lia.
        -- intros Hu. apply HL'. auto.
  - constructor; simpl.
    + lia. + auto.
    + intros l Hl. unfold L' in Hl. apply orb_true_iff in Hl as [Hl|Hl]; auto.
      apply Nat.eqb_eq in Hl. right. lia.
    + intros l Hl Z. rewrite Hcol; auto.
    + intros l Hl Z. apply Hd. auto.
    + intros a Ha HLa. split. auto. intros b. split; auto.
      intros R. destruct (Hr a b R) as [R0|[-> _]]; auto. lia.
    + auto.
Qed.

(* a step that changes data only on objects of non-zero colour in L and adds references only between
   objects of one colour in L *)
Lemma Inv_mutate : forall u A st L col h',
  Inv u A st L col ->
  next h' = next (hp st) ->
  (forall a, data h' a <> data (hp st) a -> L a = true /\ col a <> 0) ->
  (forall a b, refs h' a b -> refs (hp st) a b \/ (L a = true /\ L b = true /\ col a = col b)) ->
  (forall a b, refs (hp st) a b -> refs h' a b) ->
  let st' := {| hp := h'; en := en st; sn := sn st |} in
  Inv u A st' L col /\ Ext st L col st' L col.
Proof.
  intros u A st L col h' [wf lb clo ecol envc snc] Hn Hd Hr Hr' st'.
  assert (Hsame : forall a, (L a = true -> col a = 0) -> data h' a = data (hp st) a).
  { intros a Ha. destruct (Nat.eq_dec (data h' a) (data (hp st) a)) as [E|E]; auto.
    destruct (Hd a E) as [H1 H2]. exfalso. auto. }
  split.
  - constructor; simpl.
    + intros a b R. rewrite Hn. destruct (Hr a b R) as [R0|(La & Lb & _)].
      * apply wf; auto. * split; auto.
    + intros l Hl. rewrite Hn. auto.
    + intros a b Ha R. destruct (Hr a b R) as [R0|(La & Lb & _)]; eauto.
    + intros a b Ha R. destruct (Hr a b R) as [R0|(La & Lb & E)]; eauto.
    + auto.
    + intros l d Hs. destruct (snc l d Hs) as (H1 & H2 & H3 & H4). split.
      * rewrite Hsame; auto.
      * split. lia. split; auto.
  - constructor; simpl.
    + lia. + auto. + auto. + auto.
    + intros l Hl Z. apply Hsame. auto.
    + intros a Ha HLa. split.
      * apply Hsame. intros; congruence.
      * intros b. split; auto. intros R. destruct (Hr a b R) as [R0|(La & _)]; auto. congruence.
    + auto.
Qed.

Lemma reachv_cons : forall h e x ys l, reachv h e [x] l -> reachv h e (x :: ys) l.
Proof. intros h e x ys l (y & l0 & Hin & He & R). exists y, l0. split; auto. destruct Hin as [->|[]]. now left. Qed.
Lemma reachv_tail : forall h e x ys l, reachv h e ys l -> reachv h e (x :: ys) l.
Proof. intros h e x ys l (y & l0 & Hin & He & R). exists y, l0. split; auto. now right. Qed.

(* inversion lemmas with stable names *)
Lemma prim_alias_inv : forall C x ys st st', prim C (Alias x ys) st st' ->
  st' = {| hp := hp st; en := upd (en st) x None; sn := sn st |} \/
  (exists l, reachv (hp st) (en st) ys l /\ st' = {| hp := hp st; en := upd (en st) x (Some l); sn := sn st |}) \/
  (exists h', next h' = S (next (hp st)) /\
     (forall a, a < next (hp st) -> data h' a = data (hp st) a) /\
     (forall a b, refs h' a b -> refs (hp st) a b \/ (a = next (hp st) /\ reachv (hp st) (en st) ys b)) /\
     (forall a b, refs (hp st) a b -> refs h' a b) /\
     st' = {| hp := h'; en := upd (en st) x (Some (next (hp st))); sn := sn st |}).
Proof.
  intros C x ys st st' P. inversion P; subst.
  - now left.
  - right; left. eauto.
  - right; right. exists h'. repeat split; auto.
Qed.

Lemma prim_write_inv : forall C x site st st', prim C (Write x site) st st' ->
  exists h', next h' = next (hp st) /\
    (forall a, data h' a <> data (hp st) a -> reachv (hp st) (en st) [x] a) /\
    (forall a b, refs h' a b <-> refs (hp st) a b) /\
    st' = {| hp := h'; en := en st; sn := sn st |}.
Proof. intros C x site st st' P. inversion P; subst. exists h'. repeat split; auto; apply H5. Qed.

Lemma prim_store_inv : forall C x ys site st st', prim C (Store x ys site) st st' ->
  exists h', next h' = next (hp st) /\
    (forall a, data h' a <> data (hp st) a -> reachv (hp st) (en st) [x] a) /\
    (forall a b, refs h' a b -> refs (hp st) a b \/
                 (reachv (hp st) (en st) [x] a /\ reachv (hp st) (en st) ys b)) /\
    (forall a b, refs (hp st) a b -> refs h' a b) /\
    st' = {| hp := h'; en := en st; sn := sn st |}.
Proof. intros C x ys site st st' P. inversion P; subst. exists h'. repeat split; auto. Qed.

Lemma prim_setattr_inv : forall C x ys st st', prim C (SetAttr x ys) st st' ->
  exists h', next h' = next (hp st) /\
    (forall a, data h' a = data (hp st) a) /\
    (forall a b, refs h' a b -> refs (hp st) a b \/
                 (reachv (hp st) (en st) [x] a /\ reachv (hp st) (en st) ys b)) /\
    (forall a b, refs (hp st) a b -> refs h' a b) /\
    st' = {| hp := h'; en := en st; sn := sn st |}.
Proof. intros C x ys st st' P. inversion P; subst. exists h'. repeat split; auto. Qed.

Lemma prim_calluser_inv : forall C x ys st st', prim C (CallUser x ys) st st' ->
  exists h' sn' r,
    next (hp st) <= next h' /\
    (forall a, a < next (hp st) -> data h' a = data (hp st) a) /\
    (forall a b, refs (hp st) a b -> refs h' a b) /\
    (forall a b, refs h' a b -> refs (hp st) a b \/ (sn' a <> None /\ sn' b <> None)) /\
    heap_wf h' /\
    (forall l d, sn st l = Some d -> sn' l = Some d) /\
    (forall l, reachv (hp st) (en st) ys l -> sn' l <> None) /\
    (forall l, next (hp st) <= l -> l < next h' -> sn' l <> None) /\
    (forall l d, sn' l = Some d -> sn st l = None ->
        data h' l = d /\ l < next h' /\ (l < next (hp st) -> reachv (hp st) (en st) ys l)) /\
    (forall l, r = Some l -> sn' l <> None) /\
    st' = {| hp := h'; en := upd (en st) x r; sn := sn' |}.
Proof.
  intros C x ys st st' P. inversion P; subst. exists h', sn', r.
  repeat match goal with |- _ /\ _ => split end; auto.
Qed.

Lemma prim_calllib_inv : forall C x f ys site st st', prim C (CallLib x f ys site) st st' ->
  exists h' sn' r, C f (getargs (en st) ys) (hp st) (sn st) h' sn' (Some r) /\
     st' = {| hp := h'; en := upd (en st) x r; sn := sn' |}.
Proof. intros C x f ys site st st' P. inversion P; subst. eauto. Qed.

(* user code ran: new protected objects, new references between protected objects *)
Lemma Inv_user : forall A st L col ys h' sn',
  Inv true A st L col ->
  (forall l, reachv (hp st) (en st) ys l -> L l = true /\ col l = 0) ->
  next (hp st) <= next h' ->
  (forall a, a < next (hp st) -> data h' a = data (hp st) a) ->
  (forall a b, refs (hp st) a b -> refs h' a b) ->
  (forall a b, refs h' a b -> refs (hp st) a b \/ (sn' a <> None /\ sn' b <> None)) ->
  heap_wf h' ->
  (forall l d, sn st l = Some d -> sn' l = Some d) ->
  (forall l d, sn' l = Some d -> sn st l = None ->
      data h' l = d /\ l < next h' /\ (l < next (hp st) -> reachv (hp st) (en st) ys l)) ->
  let L' := fun l => L l || (Nat.leb (next (hp st)) l && Nat.ltb l (next h')) in
  let col' := fun l => if L l then col l else 0 in
  let st' := {| hp := h'; en := en st; sn := sn' |} in
  Inv true A st' L' col' /\ Ext st L col st' L' col' /\
  (forall l, sn' l <> None -> L' l = true /\ col' l = 0).
Proof.
  intros A st L col ys h' sn' [wf lb clo ecol envc snc] Hys Hn Hd Hr Hr' Hwf Hmono Hnew L' col' st'.
  assert (HL' : forall l, L l = true -> L' l = true) by (intros l Hl; unfold L'; now rewrite Hl).
  assert (Hc' : forall l, L l = true -> col' l = col l) by (intros l Hl; unfold col'; now rewrite Hl).
  assert (P1 : forall l, sn' l <> None -> L' l = true /\ col' l = 0).
  { intros l Hl. destruct (sn' l) as [d|] eqn:E; try congruence.
    destruct (sn st l) as [d0|] eqn:E0.
    - destruct (snc l d0 E0) as (_ & _ & Z & InL). specialize (InL eq_refl). split; auto.
      rewrite Hc'; auto.
    - destruct (Hnew l d E E0) as (_ & Lt & Hre).
      destruct (Nat.lt_ge_cases l (next (hp st))) as [Hlt|Hge].
      + destruct (Hys l (Hre Hlt)) as [Ll Cl]. split; auto. rewrite Hc'; auto.
      + split.
        * unfold L'. apply orb_true_iff. right. apply andb_true_iff. split.
          now apply Nat.leb_le. now apply Nat.ltb_lt.
        * unfold col'. destruct (L l) eqn:EL; auto. apply lb in EL. lia. }
  split; [|split]; auto.
  - constructor; simpl.
    + auto.
    + intros l Hl. unfold L' in Hl. apply orb_true_iff in Hl as [Hl|Hl].
      * apply lb in Hl. lia.
      * apply andb_true_iff in Hl as [_ Hl]. now apply Nat.ltb_lt in Hl.
    + intros a b Ha R. destruct (Hr' a b R) as [R0|[Pa Pb]].
      * apply HL'. destruct (wf a b R0) as [Ha0 _].
        unfold L' in Ha. apply orb_true_iff in Ha as [Ha|Ha]; eauto.
        apply andb_true_iff in Ha as [Ha _]. apply Nat.leb_le in Ha. lia.
      * apply P1; auto.
    + intros a b Ha R. destruct (Hr' a b R) as [R0|[Pa Pb]].
      * destruct (wf a b R0) as [Ha0 _].
        unfold L' in Ha. apply orb_true_iff in Ha as [Ha|Ha].
        -- rewrite !Hc'; eauto.
        -- apply andb_true_iff in Ha as [Ha _]. apply Nat.leb_le in Ha. lia.
      * destruct (P1 a Pa) as [_ ->]. destruct (P1 b Pb) as [_ ->]. auto.
    + intros x l He. destruct (envc x l He) as (H1 & H2 & H3). split; auto. split; auto.
      rewrite Hc'; auto.
    + intros l d Hs. assert (Pl : sn' l <> None) by congruence. destruct (P1 l Pl) as [Ll Cl].
      destruct (sn st l) as [d0|] eqn:E0.
      * rewrite (Hmono l d0 E0) in Hs. injection Hs as <-.
        destruct (snc l d0 E0) as (D & Lt & _). split. rewrite Hd; auto. split. lia. split; auto.
      * destruct (Hnew l d Hs E0) as (D & Lt & _). split; auto.
  - constructor; simpl.
    + auto. + auto.
    + intros l Hl. unfold L' in Hl. apply orb_true_iff in Hl as [Hl|Hl]; auto.
      apply andb_true_iff in Hl as [Hl _]. apply Nat.leb_le in Hl. auto.
    + intros l Hl Z. rewrite Hc'; auto.
    + intros l Hl Z. apply Hd. auto.
    + intros a Ha HLa. split. auto. intros b. split; auto.
      intros R. destruct (Hr' a b R) as [R0|[Pa _]]; auto.
      destruct (P1 a Pa) as [La _]. unfold L' in La. rewrite HLa in La. simpl in La.
      apply andb_true_iff in La as [La _]. apply Nat.leb_le in La. lia.
    + auto.
Qed.

Section Step.
Variable Sg : sigma.
Variable C : oracle.
Hypothesis HC : forall f, s_ok (sig Sg f) = true -> spec (sig Sg f) (C f).

Definition post (u : bool) (A' : astate) (st : state) (L : loc -> bool) (col : loc -> nat) (st' : state) : Prop :=
  exists L' col', Inv u A' st' L' col' /\ Ext st L col st' L' col' /\
                  (u = false -> forall l, sn st' l = sn st l).

Lemma step_alias : forall x ys st st' u A A' L col,
  prim C (Alias x ys) st st' -> astep Sg (Alias x ys) A = Ok A' -> Inv u A st L col ->
  post u A' st L col st'.
Proof.
  intros x ys st st' u A A' L col P AS I. unfold astep in AS.
  destruct (inrange (length A) (x :: ys)) eqn:IR; try discriminate.
  destruct (mergevars A ys) as [A1 c] eqn:M. injection AS as <-.
  destruct (Inv_mergevars _ _ _ _ _ _ _ _ M I) as (col1 & I1 & E1 & Len & Hre & Hys & Hnil & _).
  assert (Hx : x < length A1) by (rewrite Len; eapply inrange_in; eauto; now left).
  assert (LB : forall l, L l = true -> l < next (hp st)) by (apply (i_lb _ _ _ _ _ I)).
  destruct (prim_alias_inv _ _ _ _ _ P) as [->|[(l & Rl & ->)|(h' & Hn & Hd & Hr & Hr' & ->)]].
  - exists L, col1. split; [|split]; auto.
    + apply Inv_setvar; auto. intros; discriminate.
    + eapply Ext_trans; eauto. apply (Ext_env st L col1).
  - exists L, col1. split; [|split]; auto.
    + apply Inv_setvar; auto. intros l0 E. inversion E; subst. auto.
    + eapply Ext_trans; eauto. apply (Ext_env st L col1).
  - destruct (Inv_alloc u A1 st L col1 h' c (reachv (hp st) (en st) ys) I1 Hn Hd Hr Hr' Hre) as [I2 E2].
    eexists. eexists. split; [|split].
    + apply (Inv_setvar u A1 {| hp := h'; en := en st; sn := sn st |}); eauto.
      intros l0 E. inversion E; subst. rewrite Nat.eqb_refl. split; auto. apply orb_true_r.
    + eapply Ext_trans. exact LB. exact E1. eapply Ext_trans. exact LB. exact E2.
      apply (Ext_env {| hp := h'; en := en st; sn := sn st |}).
    + auto.
Qed.

Lemma step_write : forall x site st st' u A A' L col,
  prim C (Write x site) st st' -> astep Sg (Write x site) A = Ok A' -> Inv u A st L col ->
  post u A' st L col st'.
Proof.
  intros x site st st' u A A' L col P AS I. unfold astep in AS.
  destruct (inrange (length A) [x]) eqn:IR; try discriminate.
  destruct (Nat.eqb_spec (cls A x) 0) as [|NZ]; try discriminate. injection AS as <-.
  destruct (prim_write_inv _ _ _ _ _ P) as (h' & Hn & Hd & Hr & ->).
  destruct (Inv_mutate u A st L col h' I Hn) as [I2 E2].
  - intros a Ha. apply Hd in Ha. destruct (reachv_col _ _ _ _ _ _ _ I Ha) as (y & [<-|[]] & HL & Ec & _).
    split; auto. congruence.
  - intros a b R. left. now apply Hr.
  - intros a b R. now apply Hr.
  - exists L, col. split; [|split]; auto.
Qed.

Lemma step_store : forall x ys site st st' u A A' L col,
  prim C (Store x ys site) st st' -> astep Sg (Store x ys site) A = Ok A' -> Inv u A st L col ->
  post u A' st L col st'.
Proof.
  intros x ys site st st' u A A' L col P AS I. unfold astep in AS.
  destruct (inrange (length A) (x :: ys)) eqn:IR; try discriminate.
  destruct (Nat.eqb_spec (cls A x) 0) as [|NZ]; try discriminate.
  destruct (mergevars A (x :: ys)) as [A1 c] eqn:M. simpl fst in AS. injection AS as <-.
  assert (LB : forall l, L l = true -> l < next (hp st)) by (apply (i_lb _ _ _ _ _ I)).
  destruct (prim_store_inv _ _ _ _ _ _ P) as (h' & Hn & Hd & Hr & Hr' & ->).
  (* phase 1: the data change, under the colouring before the merge *)
  set (hm := {| data := data h'; refs := refs (hp st); next := next (hp st) |}).
  destruct (Inv_mutate u A st L col hm I eq_refl) as [Im Em].
  { intros a Ha. simpl in Ha. apply Hd in Ha.
    destruct (reachv_col _ _ _ _ _ _ _ I Ha) as (y & [<-|[]] & HL & Ec & _). split; auto. congruence. }
  { intros a b R. left. exact R. }
  { intros a b R. exact R. }
  set (stm := {| hp := hm; en := en st; sn := sn st |}) in *.
  (* phase 2: merge the classes *)
  destruct (Inv_mergevars _ _ _ _ _ _ _ _ M Im) as (col1 & I1 & E1 & Len & Hre & _).
  (* phase 3: the new references *)
  destruct (Inv_mutate u A1 stm L col1 h' I1 Hn) as [I2 E2].
  { intros a Ha. simpl in Ha. congruence. }
  { intros a b R. destruct (Hr a b R) as [R0|[Ra Rb]]; [left; exact R0|right].
    destruct (Hre a (reachv_cons _ _ _ ys _ Ra)) as [La Ca].
    destruct (Hre b (reachv_tail _ _ x _ _ Rb)) as [Lb Cb]. repeat split; auto. congruence. }
  { intros a b R. apply Hr'. exact R. }
  exists L, col1. split; [exact I2|split].
  - eapply Ext_trans. exact LB. exact Em. eapply Ext_trans. exact LB. exact E1. exact E2.
  - auto.
Qed.

Lemma step_setattr : forall x ys st st' u A A' L col,
  prim C (SetAttr x ys) st st' -> astep Sg (SetAttr x ys) A = Ok A' -> Inv u A st L col ->
  post u A' st L col st'.
Proof.
  intros x ys st st' u A A' L col P AS I. unfold astep in AS.
  destruct (inrange (length A) (x :: ys)) eqn:IR; try discriminate.
  destruct (mergevars A (x :: ys)) as [A1 c] eqn:M. simpl fst in AS. injection AS as <-.
  assert (LB : forall l, L l = true -> l < next (hp st)) by (apply (i_lb _ _ _ _ _ I)).
  destruct (prim_setattr_inv _ _ _ _ _ P) as (h' & Hn & Hd & Hr & Hr' & ->).
  destruct (Inv_mergevars _ _ _ _ _ _ _ _ M I) as (col1 & I1 & E1 & Len & Hre & _).
  destruct (Inv_mutate u A1 st L col1 h' I1 Hn) as [I2 E2].
  { intros a Ha. exfalso. apply Ha. apply Hd. }
  { intros a b R. destruct (Hr a b R) as [R0|[Ra Rb]]; [left; exact R0|right].
    destruct (Hre a (reachv_cons _ _ _ ys _ Ra)) as [La Ca].
    destruct (Hre b (reachv_tail _ _ x _ _ Rb)) as [Lb Cb]. repeat split; auto. congruence. }
  { intros a b R. apply Hr'. exact R. }
  exists L, col1. split; [exact I2|split].
  - eapply Ext_trans. exact LB. exact E1. exact E2.
  - auto.
Qed.

Lemma step_calluser : forall x ys st st' u A A' L col,
  prim C (CallUser x ys) st st' -> astep Sg (CallUser x ys) A = Ok A' -> u = true -> Inv u A st L col ->
  post u A' st L col st'.
Proof.
  intros x ys st st' u A A' L col P AS -> I. unfold astep in AS.
  destruct (inrange (length A) (x :: ys)) eqn:IR; try discriminate.
  destruct (mergevars A ys) as [A1 c] eqn:M. injection AS as <-.
  assert (LB : forall l, L l = true -> l < next (hp st)) by (apply (i_lb _ _ _ _ _ I)).
  destruct (Inv_mergevars _ _ _ _ _ _ _ _ M I) as (col1 & I1 & E1 & Len & Hre & _).
  destruct (merge_spec A1 0 c) as (rho & R0 & Rm & Re & _).
  pose proof (Inv_rename rho _ _ _ _ _ R0 I1) as I2. rewrite <- Rm in I2.
  pose proof (Ext_rename rho st L col1 R0) as E2.
  destruct (prim_calluser_inv _ _ _ _ _ P) as (h' & sn' & r & Hn & Hd & Hr & Hr' & Hwf & Hmono & Hys & Hnw & Hnew & Hres & ->).
  destruct (Inv_user (merge A1 0 c) st L (fun l => rho (col1 l)) ys h' sn' I2) as (I3 & E3 & P1); auto.
  { intros l Rl. destruct (Hre l Rl) as [Ll Cl]. split; auto. rewrite Cl. congruence. }
  eexists. eexists. split; [|split].
  - apply (Inv_setvar true (merge A1 0 c) {| hp := h'; en := en st; sn := sn' |}). exact I3.
    + rewrite merge_length, Len. eapply inrange_in; eauto. now left.
    + intros l E. apply P1. auto.
  - eapply Ext_trans. exact LB. exact E1. eapply Ext_trans. exact LB. exact E2.
    eapply Ext_trans. exact LB. exact E3. apply (Ext_env {| hp := h'; en := en st; sn := sn' |}).
  - intros; discriminate.
Qed.

Definition call_astate (sm : summary) (A : astate) (ys : list var) : astate * nat :=
  let (A1, c) := mergevars A ys in if s_user sm then (merge A1 0 c, 0) else (A1, c).

Lemma In_getargs : forall (e : env) ys l, In (Some l) (getargs e ys) -> exists y, In y ys /\ e y = Some l.
Proof. unfold getargs. intros e ys l H. apply in_map_iff in H as (y & E & Hin). eauto. Qed.

Lemma call_heap : forall f ys st u A A2 c2 L col h' sn' ro,
  s_ok (sig Sg f) = true -> (u = false -> s_user (sig Sg f) = false) ->
  C f (getargs (en st) ys) (hp st) (sn st) h' sn' ro ->
  call_astate (sig Sg f) A ys = (A2, c2) ->
  Inv u A st L col ->
  exists L' col', let st' := {| hp := h'; en := en st; sn := sn' |} in
    Inv u A2 st' L' col' /\ Ext st L col st' L' col' /\ length A2 = length A /\
    (u = false -> forall l, sn' l = sn st l) /\
    (forall l, ro = Some (Some l) -> L' l = true /\
        col' l = if s_fresh (sig Sg f) then fresh_id A2 else c2).
Proof.
  intros f ys st u A A2 c2 L col h' sn' ro Hok Hu HCf CA I.
  assert (LB : forall l, L l = true -> l < next (hp st)) by (apply (i_lb _ _ _ _ _ I)).
  unfold call_astate in CA. destruct (mergevars A ys) as [A1 c] eqn:M.
  destruct (Inv_mergevars _ _ _ _ _ _ _ _ M I) as (col1 & I1 & E1 & Len & Hre & _).
  (* the state after the merges: all arguments in class c2, colour col2 *)
  assert (exists col2, Inv u A2 st L col2 /\ Ext st L col st L col2 /\ length A2 = length A /\
             (forall l, reachv (hp st) (en st) ys l -> L l = true /\ col2 l = c2) /\
             (s_user (sig Sg f) = true -> c2 = 0)) as (col2 & I2 & E2 & Len2 & Hre2 & Hc2).
  { destruct (s_user (sig Sg f)) eqn:U.
    - injection CA as <- <-.
      destruct (merge_spec A1 0 c) as (rho & R0 & Rm & Re & _).
      exists (fun l => rho (col1 l)). split; [|split; [|split; [|split]]].
      + rewrite Rm. now apply Inv_rename.
      + eapply Ext_trans. exact LB. exact E1. now apply Ext_rename.
      + now rewrite merge_length.
      + intros l Rl. destruct (Hre l Rl) as [Ll Cl]. split; auto. rewrite Cl. congruence.
      + auto.
    - injection CA as <- <-. exists col1. split; [|split; [|split; [|split]]]; auto. intros; discriminate. }
  clear I1 E1 Hre M CA col1 Len.
  set (S := fun l => L l && Nat.eqb (col2 l) c2).
  assert (SL : forall l, S l = true -> L l = true /\ col2 l = c2).
  { intros l H. unfold S in H. apply andb_true_iff in H as [H1 H2]. apply Nat.eqb_eq in H2. auto. }
  assert (LS : forall l, L l = true -> col2 l = c2 -> S l = true).
  { intros l H1 H2. unfold S. rewrite H1. simpl. now apply Nat.eqb_eq. }
  destruct I2 as [wf lb clo ecol envc snc].
  destruct (HC f Hok _ _ _ _ _ _ HCf S) as (N & Nc & Hwf & Hn & HN & HNc & Hd & Hfr & Hclo & HncB & HncF & Hmono & Hnew & Hnu & Hres & Hnf); auto.
  { intros l H. apply SL in H as [H _]. auto. }
  { intros a b Ha R. apply SL in Ha as [La Ca]. apply LS; eauto. rewrite <- Ca. symmetry. eauto. }
  { intros l Hin. apply In_getargs in Hin as (y & Hy & He).
    destruct (Hre2 l) as [Ll Cl]. exists y, l. split; auto. split; auto. apply rt_refl. now apply LS. }
  { intros l d Hs. destruct (snc l d Hs) as (D & Lt & _). auto. }
  { intros U l d Hs. destruct (snc l d Hs) as (_ & _ & Z & InL).
    assert (u = true) as -> by (destruct u; auto; specialize (Hu eq_refl); congruence).
    apply LS; auto. rewrite (Hc2 U). auto. }
  set (fid := fresh_id A2).
  set (L' := fun l => L l || N l).
  set (col' := fun l => if Nc l then (if s_fresh (sig Sg f) then fid else c2) else if N l then c2 else col2 l).
  assert (NL : forall l, N l = true -> L l = false).
  { intros l H. destruct (L l) eqn:E; auto. apply lb in E. apply HN in H. lia. }
  assert (LN : forall l, L l = true -> N l = false /\ Nc l = false).
  { intros l H. destruct (N l) eqn:E. apply NL in E. congruence. split; auto.
    destruct (Nc l) eqn:EE; auto. apply HNc in EE. congruence. }
  assert (Hc' : forall l, L l = true -> col' l = col2 l).
  { intros l H. unfold col'. destruct (LN l H) as [-> ->]. auto. }
  assert (HL' : forall l, L l = true -> L' l = true) by (intros l H; unfold L'; now rewrite H).
  assert (SN' : forall l, (S l || N l) = true -> L' l = true).
  { intros l H. apply orb_true_iff in H as [H|H]. apply HL'. now apply SL. unfold L'. rewrite H. apply orb_true_r. }
  assert (SNc : forall l, (S l || N l) = true -> Nc l = false -> col' l = c2).
  { intros l H Z. unfold col'. rewrite Z. destruct (N l) eqn:E; auto.
    rewrite orb_false_r in H. now apply SL. }
  exists L', col'. simpl. split; [|split; [|split; [|split]]].
  - constructor; simpl.
    + auto.
    + intros l H. unfold L' in H. apply orb_true_iff in H as [H|H]. apply lb in H. lia. apply HN in H. lia.
    + intros a b Ha R. destruct (S a || N a) eqn:ESN.
      * apply SN'. eapply Hclo; eauto.
      * apply orb_false_iff in ESN as [ES EN]. unfold L' in Ha. rewrite EN, orb_false_r in Ha.
        apply HL'. apply (clo a b Ha). apply (Hfr a b); auto.
    + intros a b Ha R. destruct (S a || N a) eqn:ESN.
      * pose proof (Hclo a b ESN R) as ESNb.
        destruct (Nc a) eqn:Ea.
        -- pose proof (HncF a b R Ea) as Eb. unfold col'. now rewrite Ea, Eb.
        -- destruct (Nc b) eqn:Eb. rewrite (HncB a b ESN R Eb) in Ea. discriminate.
           rewrite !SNc; auto.
      * apply orb_false_iff in ESN as [ES EN]. unfold L' in Ha. rewrite EN, orb_false_r in Ha.
        assert (R0 : refs (hp st) a b) by (apply (Hfr a b); auto).
        rewrite !Hc'; eauto.
    + intros x l He. destruct (envc x l He) as (H1 & H2 & H3). split; auto. split; auto. rewrite Hc'; auto.
    + intros l d Hs. destruct (sn st l) as [d0|] eqn:E0.
      * rewrite (Hmono l d0 E0) in Hs. injection Hs as <-.
        destruct (snc l d0 E0) as (D & Lt & Z & InL). split. rewrite Hd; auto. split. lia. split.
        -- intros Hl. unfold L' in Hl. apply orb_true_iff in Hl as [Hl|Hl].
           ++ rewrite Hc'; auto.
           ++ apply HN in Hl. lia.
        -- intros U. apply HL'. auto.
      * destruct (Hnew l d Hs E0) as (ESN & ENc & D).
        assert (U : s_user (sig Sg f) = true).
        { destruct (s_user (sig Sg f)) eqn:U; auto. rewrite (Hnu eq_refl l) in Hs. congruence. }
        split; auto. split.
        -- apply orb_true_iff in ESN as [H|H]. apply SL in H as [H _]. apply lb in H. lia. apply HN in H. lia.
        -- split. intros _. rewrite SNc; auto. intros _. auto.
  - eapply Ext_trans. exact LB. exact E2. constructor; simpl.
    + auto. + auto.
    + intros l H. unfold L' in H. apply orb_true_iff in H as [H|H]; auto. right. now apply HN.
    + intros l H Z. rewrite Hc'; auto.
    + intros l H Z. apply Hd. auto.
    + intros a Ha HLa. split. auto. intros b. apply (Hfr a b); auto. unfold S. now rewrite HLa.
    + auto.
  - auto.
  - intros U l. apply Hnu. auto.
  - intros l E. destruct (Hres l E) as [ESN Fr]. split. now apply SN'.
    destruct (s_fresh (sig Sg f)) eqn:F.
    + unfold col'. rewrite (Fr eq_refl). auto.
    + apply SNc; auto.
Qed.

End Step.
