(* C20 — soundness of the may-alias checker of C20_ir.v. *)
From Coq Require Import Arith List Bool Relations Lia.
From P Require Import C20_ir.
Import ListNotations.

(* ================================================================== abstract domain lemmas *)
Lemma cls_map : forall (rho : nat -> nat) A x, rho 0 = 0 -> cls (map rho A) x = rho (cls A x).
Proof.
  intros rho A x H0. unfold cls. revert x. induction A; intros [|x]; simpl; auto.
Qed.

Lemma rename_0 : forall c d, d <> 0 -> rename c d 0 = 0.
Proof. intros. unfold rename. destruct (Nat.eqb_spec 0 d); congruence. Qed.

(* merge is a renaming that fixes 0 and identifies c and d *)
Lemma merge_spec : forall A c d, exists rho,
  rho 0 = 0 /\ merge A c d = map rho A /\ rho c = rho d /\ rho c = mrep c d /\
  (forall k, rho k = 0 -> k = 0 \/ (rho c = 0 /\ (k = c \/ k = d))).
Proof.
  intros A c d. unfold merge, mrep.
  destruct (Nat.eqb_spec c d) as [->|Hcd].
  - exists (fun k => k). repeat split; auto. now rewrite map_id.
  - destruct (Nat.eqb_spec c 0) as [->|Hc].
    + exists (rename 0 d). unfold rename. repeat split; auto.
      * destruct (Nat.eqb_spec 0 d); auto.
      * destruct (Nat.eqb_spec 0 d); try congruence. now rewrite Nat.eqb_refl.
      * destruct (Nat.eqb_spec 0 d); congruence.
      * intros k. destruct (Nat.eqb_spec k d); auto. intros _. right. split; auto.
        destruct (Nat.eqb_spec 0 d); congruence.
    + destruct (Nat.eqb_spec d 0) as [->|Hd].
      * exists (rename 0 c). unfold rename. repeat split; auto.
        -- destruct (Nat.eqb_spec 0 c); auto.
        -- rewrite Nat.eqb_refl. destruct (Nat.eqb_spec 0 c); congruence.
        -- now rewrite Nat.eqb_refl.
        -- intros k. destruct (Nat.eqb_spec k c); auto. intros _. right. rewrite Nat.eqb_refl. auto.
      * exists (rename c d). unfold rename. repeat split; auto.
        -- destruct (Nat.eqb_spec 0 d); congruence.
        -- rewrite Nat.eqb_refl. destruct (Nat.eqb_spec c d); congruence.
        -- destruct (Nat.eqb_spec c d); congruence.
        -- intros k. destruct (Nat.eqb_spec k d); auto. intros; congruence.
Qed.

Lemma map_map_comp : forall (f g : nat -> nat) A, map g (map f A) = map (fun k => g (f k)) A.
Proof. intros. now rewrite map_map. Qed.

(* mergeall: a renaming fixing 0, after which c and all ys are in the returned class; a class becomes 0
   only if it is merged with class 0 *)
Lemma mergeall_spec : forall ys A c, exists rho,
  rho 0 = 0 /\ fst (mergeall A c ys) = map rho A /\ rho c = snd (mergeall A c ys) /\
  (forall y, In y ys -> rho (cls A y) = snd (mergeall A c ys)) /\
  (forall k, rho k = 0 -> k = 0 \/ snd (mergeall A c ys) = 0).
Proof.
  induction ys as [|y t IH]; intros A c; simpl.
  - exists (fun k => k). repeat split; auto. now rewrite map_id. intros y [].
  - destruct (merge_spec A c (cls A y)) as (r1 & H10 & H1m & H1e & H1r & H1z).
    destruct (IH (merge A c (cls A y)) (mrep c (cls A y))) as (r2 & H20 & H2m & H2c & H2y & H2z).
    exists (fun k => r2 (r1 k)). repeat split.
    + now rewrite H10.
    + rewrite H2m, H1m. now rewrite map_map.
    + rewrite <- H2c. now rewrite H1r.
    + intros y' [->|Hin].
      * rewrite <- H2c. now rewrite <- H1e, H1r.
      * rewrite <- (H2y y' Hin). rewrite H1m. now rewrite cls_map.
    + intros k Hk. destruct (H2z _ Hk) as [Hz|Hz]; auto.
      destruct (H1z _ Hz) as [|[Hc _]]; auto.
      right. rewrite <- H2c. rewrite <- H1r, Hc. auto.
Qed.

Lemma mergevars_spec : forall ys A A1 c, mergevars A ys = (A1, c) -> exists rho,
  rho 0 = 0 /\ A1 = map rho A /\ (forall y, In y ys -> rho (cls A y) = c) /\
  (ys = [] -> c = fresh_id A /\ A1 = A) /\
  (forall k, rho k = 0 -> k = 0 \/ c = 0).
Proof.
  intros [|y t] A A1 c; simpl; intros H.
  - inversion H; subst. exists (fun k => k). repeat split; auto. now rewrite map_id. intros y [].
  - destruct (mergeall_spec t A (cls A y)) as (rho & H0 & Hm & Hc & Hy & Hz).
    rewrite H in *. simpl in *. exists rho. repeat split; auto.
    + intros y' [->|Hin]; auto.
    + discriminate. + discriminate.
Qed.

Lemma setnth_length : forall A x c, length (setnth A x c) = length A.
Proof. induction A; intros [|x] c; simpl; auto. Qed.

Lemma cls_setnth_same : forall A x c, x < length A -> cls (setnth A x c) x = c.
Proof. unfold cls. induction A; intros [|x] c H; simpl in *; try lia; auto. apply IHA. lia. Qed.

Lemma cls_setnth_other : forall A x y c, x <> y -> cls (setnth A x c) y = cls A y.
Proof. unfold cls. induction A; intros [|x] [|y] c H; simpl in *; auto; try congruence. Qed.

Lemma fresh_id_gt : forall A x, x < length A -> cls A x < fresh_id A.
Proof.
  unfold cls, fresh_id. induction A; intros [|x] H; simpl in *; try lia.
  specialize (IHA x). lia.
Qed.

Lemma fresh_id_pos : forall A, fresh_id A <> 0.
Proof. unfold fresh_id. intros. lia. Qed.

Lemma cls_out : forall A x, length A <= x -> cls A x = 0.
Proof. unfold cls. intros. now apply nth_overflow. Qed.

(* ---------------------------------------------------------------- refinement *)
Definition refines (A B : astate) : Prop :=
  length B = length A /\
  forall x, x < length A -> (cls A x = 0 -> cls B x = 0) /\
     forall y, y < length A -> cls A x = cls A y -> cls B x = cls B y.

Lemma refinesb_sound : forall A B, refinesb A B = true -> refines A B.
Proof.
  unfold refinesb, refines. intros A B H. apply andb_true_iff in H as [Hl H].
  apply Nat.eqb_eq in Hl. split; auto.
  rewrite forallb_forall in H. intros x Hx.
  assert (Hin : In x (seq 0 (length A))) by (apply in_seq; lia).
  specialize (H x Hin). apply andb_true_iff in H as [Hz H]. split.
  - intros E. rewrite E in Hz. simpl in Hz. now apply Nat.eqb_eq.
  - intros y Hy E. rewrite forallb_forall in H.
    assert (Hiny : In y (seq 0 (length A))) by (apply in_seq; lia).
    specialize (H y Hiny). rewrite E, Nat.eqb_refl in H. simpl in H. now apply Nat.eqb_eq.
Qed.

Lemma refines_refl : forall A, refines A A.
Proof. unfold refines. intros. split; auto. Qed.

Lemma refines_trans : forall A B C, refines A B -> refines B C -> refines A C.
Proof.
  unfold refines. intros A B C [L1 H1] [L2 H2]. split. congruence.
  intros x Hx. destruct (H1 x Hx) as [Z1 E1]. assert (Hx' : x < length B) by lia.
  destruct (H2 x Hx') as [Z2 E2]. split; auto.
  intros y Hy E. apply E2. lia. now apply E1.
Qed.

Lemma refines_map : forall rho A, rho 0 = 0 -> refines A (map rho A).
Proof.
  unfold refines. intros rho A H0. split. now rewrite map_length.
  intros x Hx. rewrite !cls_map by auto. split. intros ->. auto.
  intros y Hy E. rewrite !cls_map by auto. now rewrite E.
Qed.

Lemma merge_refines : forall A c d, refines A (merge A c d).
Proof.
  intros. destruct (merge_spec A c d) as (rho & H0 & Hm & _). rewrite Hm. now apply refines_map.
Qed.

Lemma merge_length : forall A c d, length (merge A c d) = length A.
Proof. intros. destruct (merge_spec A c d) as (rho & H0 & Hm & _). rewrite Hm. apply map_length. Qed.

Lemma merge_cls : forall A c d x y, cls A x = c -> cls A y = d -> cls (merge A c d) x = cls (merge A c d) y.
Proof.
  intros A c d x y Hx Hy. destruct (merge_spec A c d) as (rho & H0 & Hm & He & _). rewrite Hm, !cls_map by auto. congruence.
Qed.

Lemma merge_zero : forall A c x, cls A x = c -> cls (merge A c 0) x = 0.
Proof.
  intros A c x Hx. destruct (merge_spec A c 0) as (rho & H0 & Hm & He & _). rewrite Hm, cls_map by auto. congruence.
Qed.

(* join *)
Lemma join_step_length : forall B J x, length (join_step B J x) = length J.
Proof. intros. unfold join_step. destruct (Nat.eqb (cls B x) 0); rewrite !merge_length; auto. Qed.

Lemma join_step_refines : forall B J x, refines J (join_step B J x).
Proof.
  intros. unfold join_step. destruct (Nat.eqb (cls B x) 0).
  - eapply refines_trans; apply merge_refines.
  - apply merge_refines.
Qed.

Lemma fold_join_refines : forall B l J, refines J (fold_left (join_step B) l J).
Proof.
  induction l; intros J; simpl. apply refines_refl.
  eapply refines_trans. apply join_step_refines. apply IHl.
Qed.

Lemma join_refines_l : forall A B, refines A (join A B).
Proof. intros. apply fold_join_refines. Qed.

Lemma firstwith_spec : forall B c l i, In c l ->
  exists j, firstwith B c i l = i + j /\ nth j l 0 = c /\ j < length l.
Proof.
  induction l as [|b t IH]; intros i H; simpl in *. destruct H.
  destruct (Nat.eqb_spec b c).
  - exists 0. split. lia. split; auto. lia.
  - destruct H as [->|H]; try congruence. destruct (IH (S i) H) as (j & E & N & Lt).
    exists (S j). split. lia. split; auto. lia.
Qed.

Lemma firstwith_det : forall B c l i, firstwith B c i l = firstwith B c i l. Proof. reflexivity. Qed.

Lemma rep_spec : forall B x, x < length B -> rep B x < length B /\ cls B (rep B x) = cls B x.
Proof.
  intros B x Hx. unfold rep.
  assert (In (cls B x) B) by (unfold cls; now apply nth_In).
  destruct (firstwith_spec B (cls B x) B 0 H) as (j & E & N & Lt).
  rewrite E. simpl. split; auto.
Qed.

Lemma rep_eq : forall B x y, cls B x = cls B y -> rep B x = rep B y.
Proof. intros. unfold rep. now rewrite H. Qed.

(* after processing x, J x = J (rep x) (and = 0 if B x = 0); later steps preserve such equalities *)
Lemma join_step_done : forall B J x,
  cls (join_step B J x) x = cls (join_step B J x) (rep B x) /\
  (cls B x = 0 -> cls (join_step B J x) x = 0).
Proof.
  intros. unfold join_step. destruct (Nat.eqb_spec (cls B x) 0) as [E|E].
  - split.
    + apply merge_cls; auto.
    + intros _. set (J1 := merge J (cls J x) 0).
      assert (Z : cls J1 x = 0) by (apply merge_zero; auto).
      destruct (merge_refines J1 (cls J1 x) (cls J1 (rep B x))) as [Hl Hr].
      destruct (Nat.lt_ge_cases x (length J1)) as [Hx|Hx].
      * now apply (Hr x Hx).
      * apply cls_out. rewrite merge_length. lia.
  - split. apply merge_cls; auto. intros; congruence.
Qed.

Lemma refines_keep_eq : forall J J' x y, refines J J' -> x < length J -> y < length J ->
  cls J x = cls J y -> cls J' x = cls J' y.
Proof. intros J J' x y [_ H] Hx Hy E. now apply (H x Hx). Qed.

Lemma refines_keep_zero : forall J J' x, refines J J' -> x < length J -> cls J x = 0 -> cls J' x = 0.
Proof. intros J J' x [_ H] Hx E. now apply (H x Hx). Qed.

Lemma fold_join_length : forall B l J, length (fold_left (join_step B) l J) = length J.
Proof. induction l; intros; simpl; auto. rewrite IHl. apply join_step_length. Qed.

Lemma fold_join_done : forall B l J x, length J = length B -> In x l -> x < length B ->
  let R := fold_left (join_step B) l J in
  cls R x = cls R (rep B x) /\ (cls B x = 0 -> cls R x = 0).
Proof.
  induction l as [|a t IH]; intros J x HL Hin Hx; simpl in *. destruct Hin.
  destruct Hin as [->|Hin].
  - destruct (join_step_done B J x) as [E Z].
    pose proof (fold_join_refines B t (join_step B J x)) as R.
    assert (Lx : x < length (join_step B J x)) by (rewrite join_step_length; lia).
    assert (Lr : rep B x < length (join_step B J x)).
    { rewrite join_step_length. rewrite HL. now apply rep_spec. }
    split.
    + eapply refines_keep_eq; eauto.
    + intros Hz. eapply refines_keep_zero; eauto.
  - apply IH; auto. now rewrite join_step_length.
Qed.

Lemma join_refines_r : forall A B, length A = length B -> refines B (join A B).
Proof.
  intros A B HL. unfold join, refines. split. now rewrite fold_join_length.
  intros x Hx.
  assert (Hin : forall z, z < length B -> In z (seq 0 (length A))) by (intros; apply in_seq; lia).
  destruct (fold_join_done B (seq 0 (length A)) A x HL (Hin x Hx) Hx) as [Ex Zx]. split; auto.
  intros y Hy E.
  destruct (fold_join_done B (seq 0 (length A)) A y HL (Hin y Hy) Hy) as [Ey Zy].
  simpl in *. rewrite Ex, Ey. now rewrite (rep_eq B x y E).
Qed.

Lemma join_length : forall A B, length (join A B) = length A.
Proof. intros. apply fold_join_length. Qed.
