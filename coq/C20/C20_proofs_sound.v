(* C20 — soundness of the abstract execution [aexec] for whole statements (one function body, calls
   interpreted by any oracle that satisfies the callee specifications). *)
From Coq Require Import Arith List Bool Relations Lia.
From P Require Import C20_ir C20_proofs C20_proofs_inv C20_proofs_step.
Import ListNotations.

Section Sound.
Variable Sg : sigma.
Variable C : oracle.
Hypothesis HC : forall f, s_ok (sig Sg f) = true -> spec (sig Sg f) (C f).

Notation post := (post).

Lemma astep_calllib_eq : forall x f ys site A,
  astep Sg (CallLib x f ys site) A =
  if inrange (length A) (x :: ys) then
    if s_ok (sig Sg f) then
      let (A2, c2) := call_astate (sig Sg f) A ys in
      if s_fresh (sig Sg f) then Ok (setnth A2 x (fresh_id A2)) else Ok (setnth A2 x c2)
    else Bad site 3
  else Bad site 4.
Proof.
  intros. unfold astep, call_astate. destruct (inrange _ _); auto. destruct (s_ok _); auto.
  destruct (mergevars A ys) as [A1 c]. destruct (s_user _); auto.
Qed.

Lemma prim_sound : forall s st st', prim C s st st' -> forall u A A' L col,
  astep Sg s A = Ok A' -> (u = false -> no_user Sg s = true) -> Inv u A st L col ->
  post u A' st L col st'.
Proof.
  intros s st st' P u A A' L col AS NU I. destruct s; try solve [inversion P].
  - inversion P; subst. simpl in AS. injection AS as <-. exists L, col. split; [|split]; auto. apply Ext_refl.
  - eapply step_alias; eauto.
  - eapply step_write; eauto.
  - eapply step_store; eauto.
  - eapply step_setattr; eauto.
  - assert (Hu : u = true) by (destruct u; auto; specialize (NU eq_refl); discriminate).
    eapply step_calluser; eauto.
  - rewrite astep_calllib_eq in AS.
    destruct (inrange (length A) (x :: ys)) eqn:IR; try discriminate.
    destruct (s_ok (sig Sg f)) eqn:OK; try discriminate.
    destruct (call_astate (sig Sg f) A ys) as [A2 c2] eqn:CA.
    destruct (prim_calllib_inv _ _ _ _ _ _ _ P) as (h' & sn' & r & HCf & ->).
    assert (NU' : u = false -> s_user (sig Sg f) = false).
    { intros U. specialize (NU U). simpl in NU. now apply negb_true_iff in NU. }
    destruct (call_heap Sg C HC f ys st u A A2 c2 L col h' sn' (Some r) OK NU' HCf CA I)
      as (L' & col' & I2 & E2 & Len & Hsn & Hres).
    assert (Hx : x < length A2) by (rewrite Len; eapply inrange_in; eauto; now left).
    assert (LB : forall l, L l = true -> l < next (hp st)) by (apply (i_lb _ _ _ _ _ I)).
    set (cx := if s_fresh (sig Sg f) then fresh_id A2 else c2) in *.
    assert (A' = setnth A2 x cx) as -> by (unfold cx; destruct (s_fresh (sig Sg f)); congruence).
    exists L', col'. split; [|split].
    + apply (Inv_setvar u A2 {| hp := h'; en := en st; sn := sn' |}); auto.
      intros l E. apply Hres. congruence.
    + eapply Ext_trans. exact LB. exact E2. apply (Ext_env {| hp := h'; en := en st; sn := sn' |}).
    + auto.
Qed.

Lemma prim_exc_sound : forall s st st', prim_exc C s st st' -> forall u A A' L col,
  astep Sg s A = Ok A' -> (u = false -> no_user Sg s = true) -> Inv u A st L col ->
  exists A2, post u A2 st L col st'.
Proof.
  intros s st st' P u A A' L col AS NU I. inversion P; subst.
  rewrite astep_calllib_eq in AS.
  destruct (inrange (length A) (x :: ys)) eqn:IR; try discriminate.
  destruct (s_ok (sig Sg f)) eqn:OK; try discriminate.
  destruct (call_astate (sig Sg f) A ys) as [A2 c2] eqn:CA.
  assert (NU' : u = false -> s_user (sig Sg f) = false).
  { intros U. specialize (NU U). simpl in NU. now apply negb_true_iff in NU. }
  destruct (call_heap Sg C HC f ys st u A A2 c2 L col h' sn' None OK NU' H CA I)
    as (L' & col' & I2 & E2 & Len & Hsn & Hres).
  exists A2, L', col'. split; [|split]; auto.
Qed.

(* ------------------------------------------------------------------ lengths *)
Lemma mergevars_length : forall A ys A1 c, mergevars A ys = (A1, c) -> length A1 = length A.
Proof.
  intros A ys A1 c M. destruct (mergevars_spec ys A A1 c M) as (rho & _ & -> & _). apply map_length.
Qed.

Lemma astep_length : forall s A A', astep Sg s A = Ok A' -> length A' = length A.
Proof.
  intros s A A' AS. destruct s; try (simpl in AS; injection AS as <-; reflexivity).
  - unfold astep in AS. destruct (inrange _ _); try discriminate.
    destruct (mergevars A ys) as [A1 c] eqn:M. injection AS as <-. rewrite setnth_length.
    eapply mergevars_length; eauto.
  - unfold astep in AS. destruct (inrange _ _); try discriminate.
    destruct (Nat.eqb _ _); try discriminate. now injection AS as <-.
  - unfold astep in AS. destruct (inrange _ _); try discriminate.
    destruct (Nat.eqb _ _); try discriminate.
    destruct (mergevars A (x :: ys)) as [A1 c] eqn:M. simpl fst in AS. injection AS as <-.
    eapply mergevars_length; eauto.
  - unfold astep in AS. destruct (inrange _ _); try discriminate.
    destruct (mergevars A (x :: ys)) as [A1 c] eqn:M. simpl fst in AS. injection AS as <-.
    eapply mergevars_length; eauto.
  - unfold astep in AS. destruct (inrange _ _); try discriminate.
    destruct (mergevars A ys) as [A1 c] eqn:M. injection AS as <-. rewrite setnth_length, merge_length.
    eapply mergevars_length; eauto.
  - rewrite astep_calllib_eq in AS. destruct (inrange _ _); try discriminate.
    destruct (s_ok _); try discriminate. unfold call_astate in AS.
    destruct (mergevars A ys) as [A1 c] eqn:M. apply mergevars_length in M.
    destruct (s_user _); destruct (s_fresh _); injection AS as <-;
      rewrite setnth_length, ?merge_length; auto.
Qed.

Definition olen (n : nat) (a : option astate) : Prop := forall A, a = Some A -> length A = n.
Definition reslen (n : nat) (r : ares) : Prop := olen n (nrm r) /\ olen n (brk r) /\ olen n (ret r).

Lemma ojoin_len : forall n a b, olen n a -> olen n b -> olen n (ojoin a b).
Proof.
  unfold olen. intros n [A|] [B|] Ha Hb X E; simpl in E; try discriminate; injection E as <-; auto.
  rewrite join_length. auto.
Qed.

Lemma loop_iter_eq : forall body k I, loop_iter body k I =
  match body I with
  | Bad i w => Bad i w
  | Ok ra =>
      if oref (nrm ra) I && oref (brk ra) I then Ok {| nrm := Some I; brk := None; ret := ret ra |}
      else match k with
           | O => Bad 0 5
           | S k' => match ojoin (Some I) (ojoin (nrm ra) (brk ra)) with
                     | Some I' => loop_iter body k' I'
                     | None => Bad 0 5
                     end
           end
  end.
Proof. intros. destruct k; reflexivity. Qed.

Lemma ojoin_some : forall I b, exists I', ojoin (Some I) b = Some I'.
Proof. intros I [B|]; simpl; eauto. Qed.

Lemma reslen_loop : forall n I rr, length I = n -> olen n rr -> reslen n {| nrm := Some I; brk := None; ret := rr |}.
Proof.
  intros n I rr HI Hr. split; [|split]; simpl; auto.
  - intros X E. now injection E as <-.
  - intros X E. discriminate.
Qed.

Lemma reslen_one : forall n A', length A' = n -> reslen n {| nrm := Some A'; brk := None; ret := None |}.
Proof. intros. apply reslen_loop; auto. intros X E; discriminate. Qed.

Lemma loop_iter_len : forall body n, (forall I r, length I = n -> body I = Ok r -> reslen n r) ->
  forall k I r, length I = n -> loop_iter body k I = Ok r -> reslen n r.
Proof.
  intros body n Hb. induction k; intros I r HI H; rewrite loop_iter_eq in H.
  - destruct (body I) as [ra|] eqn:B; try discriminate. destruct (Hb I ra HI B) as (H1 & H2 & H3).
    destruct (oref (nrm ra) I && oref (brk ra) I); try discriminate. injection H as <-.
    now apply reslen_loop.
  - destruct (body I) as [ra|] eqn:B; try discriminate. destruct (Hb I ra HI B) as (H1 & H2 & H3).
    destruct (oref (nrm ra) I && oref (brk ra) I).
    + injection H as <-. now apply reslen_loop.
    + destruct (ojoin_some I (ojoin (nrm ra) (brk ra))) as (I' & J). rewrite J in H.
      apply (IHk I' r); auto.
      assert (O : olen n (ojoin (Some I) (ojoin (nrm ra) (brk ra)))).
      { apply ojoin_len. intros X E. now injection E as <-. now apply ojoin_len. }
      apply O. auto.
Qed.

Lemma aexec_len : forall s A r, aexec Sg s A = Ok r -> reslen (length A) r.
Proof.
  induction s as [| | | | | | |s1 IHs1 s2 IHs2|s1 IHs1 s2 IHs2|s IHs| |]; intros A r H; cbn [aexec] in H;
    try (destruct (astep Sg _ A) as [A'|] eqn:AS; try discriminate; injection H as <-;
         apply astep_length in AS; now apply reslen_one).
  - injection H as <-. now apply reslen_one.
  - destruct (aexec Sg s1 A) as [ra|] eqn:E1; try discriminate. destruct (IHs1 A ra E1) as (H1 & H2 & H3).
    destruct (nrm ra) as [A1|] eqn:N1.
    + destruct (aexec Sg s2 A1) as [rb|] eqn:E2; try discriminate. injection H as <-.
      destruct (IHs2 A1 rb E2) as (K1 & K2 & K3). rewrite (H1 A1 eq_refl) in *.
      split; [|split]; simpl; auto; apply ojoin_len; auto.
    + injection H as <-. split; [|split]; auto. now rewrite N1.
  - destruct (aexec Sg s1 A) as [ra|] eqn:E1; try discriminate.
    destruct (aexec Sg s2 A) as [rb|] eqn:E2; try discriminate. injection H as <-.
    destruct (IHs1 A ra E1) as (H1 & H2 & H3). destruct (IHs2 A rb E2) as (K1 & K2 & K3).
    split; [|split]; simpl; apply ojoin_len; auto.
  - eapply loop_iter_len; eauto. intros I r0 HI B. rewrite <- HI. now apply IHs.
  - injection H as <-. split; [|split]; simpl; intros X E; try discriminate. now injection E as <-.
  - injection H as <-. split; [|split]; simpl; intros X E; try discriminate. now injection E as <-.
Qed.

(* ------------------------------------------------------------------ the loop invariant found by iteration *)
Lemma oref_sound : forall a I, oref a I = true -> forall A, a = Some A -> refines A I.
Proof. intros [A0|] I H A E; try discriminate. injection E as <-. now apply refinesb_sound. Qed.

Lemma ojoin_refines_l : forall A b J, ojoin (Some A) b = Some J -> refines A J.
Proof.
  intros A [B|] J E; simpl in E; injection E as <-. apply join_refines_l. apply refines_refl.
Qed.

Lemma loop_iter_fix : forall body k I r, loop_iter body k I = Ok r ->
  exists If ra, refines I If /\ body If = Ok ra /\ oref (nrm ra) If = true /\ oref (brk ra) If = true /\
                r = {| nrm := Some If; brk := None; ret := ret ra |}.
Proof.
  intros body. induction k; intros I r H; rewrite loop_iter_eq in H.
  - destruct (body I) as [ra|] eqn:B; try discriminate.
    destruct (oref (nrm ra) I && oref (brk ra) I) eqn:O; try discriminate. injection H as <-.
    apply andb_true_iff in O as [O1 O2]. exists I, ra. split; [apply refines_refl|]. repeat split; auto.
  - destruct (body I) as [ra|] eqn:B; try discriminate.
    destruct (oref (nrm ra) I && oref (brk ra) I) eqn:O.
    + injection H as <-. apply andb_true_iff in O as [O1 O2]. exists I, ra. split; [apply refines_refl|]. repeat split; auto.
    + destruct (ojoin_some I (ojoin (nrm ra) (brk ra))) as (I' & J). rewrite J in H.
      destruct (IHk I' r H) as (If & rf & R & Bf & O1 & O2 & ->).
      exists If, rf. split; [eapply refines_trans; eauto; eapply ojoin_refines_l; eauto|]. repeat split; auto.
Qed.

Lemma loop_at_fix : forall a If ra, aexec Sg a If = Ok ra -> oref (nrm ra) If = true -> oref (brk ra) If = true ->
  aexec Sg (Loop a) If = Ok {| nrm := Some If; brk := None; ret := ret ra |}.
Proof. intros a If ra B O1 O2. cbn [aexec]. rewrite loop_iter_eq, B, O1, O2. reflexivity. Qed.

(* ------------------------------------------------------------------ composition of posts *)
Lemma post_seq : forall u A st L col A1 st1 A2 st2,
  Inv u A st L col -> post u A1 st L col st1 ->
  (forall L1 col1, Inv u A1 st1 L1 col1 -> post u A2 st1 L1 col1 st2) ->
  post u A2 st L col st2.
Proof.
  intros u A st L col A1 st1 A2 st2 I (L1 & col1 & I1 & E1 & S1) K.
  destruct (K L1 col1 I1) as (L2 & col2 & I2 & E2 & S2).
  exists L2, col2. split; [|split]; auto.
  - eapply Ext_trans; eauto. apply (i_lb _ _ _ _ _ I).
  - intros U l. rewrite S2, S1; auto.
Qed.

Lemma post_refines : forall u A st L col A1 st1 J,
  Inv u A st L col -> post u A1 st L col st1 -> refines A1 J -> post u J st L col st1.
Proof.
  intros u A st L col A1 st1 J I (L1 & col1 & I1 & E1 & S1) R.
  destruct (Inv_refines _ _ _ _ _ _ R I1) as (col2 & I2 & E2).
  exists L1, col2. split; [|split]; auto. eapply Ext_trans; eauto. apply (i_lb _ _ _ _ _ I).
Qed.

Definition opost (u : bool) (oa : option astate) (st : state) (L : loc -> bool) (col : loc -> nat) (st' : state) : Prop :=
  exists A', oa = Some A' /\ post u A' st L col st'.

Lemma opost_join_l : forall u A st L col oa ob st1 n, Inv u A st L col ->
  olen n oa -> olen n ob -> opost u oa st L col st1 -> opost u (ojoin oa ob) st L col st1.
Proof.
  intros u A st L col oa ob st1 n I La Lb (A1 & -> & P). destruct ob as [B|]; simpl.
  - exists (join A1 B). split; auto. eapply post_refines; eauto. apply join_refines_l.
  - exists A1. auto.
Qed.

Lemma opost_join_r : forall u A st L col oa ob st1 n, Inv u A st L col ->
  olen n oa -> olen n ob -> opost u ob st L col st1 -> opost u (ojoin oa ob) st L col st1.
Proof.
  intros u A st L col oa ob st1 n I La Lb (B & -> & P). destruct oa as [A1|]; simpl.
  - exists (join A1 B). split; auto. eapply post_refines; eauto. apply join_refines_r.
    rewrite (La A1 eq_refl), (Lb B eq_refl). auto.
  - exists B. auto.
Qed.

Definition sel (o : outcome) (r : ares) : option astate :=
  match o with ONorm => nrm r | OBrk => brk r | ORet => ret r | OExc => None end.

Definition cpost (u : bool) (o : outcome) (r : ares) (st : state) (L : loc -> bool) (col : loc -> nat) (st' : state) : Prop :=
  match o with
  | OExc => exists A', post u A' st L col st'
  | _ => opost u (sel o r) st L col st'
  end.

Lemma cpost_exc : forall u r st L col st', (exists A', post u A' st L col st') -> cpost u OExc r st L col st'.
Proof. auto. Qed.

Lemma aexec_prim_form : forall s A r, aexec Sg s A = Ok r ->
  match s with Alias _ _ | Write _ _ | Store _ _ _ | SetAttr _ _ | CallUser _ _ | CallLib _ _ _ _ => True | _ => False end ->
  exists A', astep Sg s A = Ok A' /\ r = {| nrm := Some A'; brk := None; ret := None |}.
Proof.
  intros s A r H F. destruct s; try contradiction; cbn [aexec] in H;
    (destruct (astep Sg _ A) as [A'|] eqn:AS; try discriminate; injection H as <-; eauto).
Qed.

Theorem core : forall s st o st', exec C s st o st' -> forall u A r L col,
  aexec Sg s A = Ok r -> (u = false -> no_user Sg s = true) -> Inv u A st L col ->
  cpost u o r st L col st'.
Proof.
  induction 1; intros u A r L col AE NU I.
  - (* raise *) apply cpost_exc. exists A, L, col. split; [|split]; auto. apply Ext_refl.
  - (* prim *)
    destruct s; try solve [inversion H].
    + inversion H; subst. simpl in AE. injection AE as <-. simpl. exists A. split; auto.
      exists L, col. split; [|split]; auto. apply Ext_refl.
    + destruct (aexec_prim_form _ _ _ AE Logic.I) as (A' & AS & ->). simpl. exists A'. split; auto. eapply prim_sound; eauto.
    + destruct (aexec_prim_form _ _ _ AE Logic.I) as (A' & AS & ->). simpl. exists A'. split; auto. eapply prim_sound; eauto.
    + destruct (aexec_prim_form _ _ _ AE Logic.I) as (A' & AS & ->). simpl. exists A'. split; auto. eapply prim_sound; eauto.
    + destruct (aexec_prim_form _ _ _ AE Logic.I) as (A' & AS & ->). simpl. exists A'. split; auto. eapply prim_sound; eauto.
    + destruct (aexec_prim_form _ _ _ AE Logic.I) as (A' & AS & ->). simpl. exists A'. split; auto. eapply prim_sound; eauto.
    + destruct (aexec_prim_form _ _ _ AE Logic.I) as (A' & AS & ->). simpl. exists A'. split; auto. eapply prim_sound; eauto.
  - (* prim_exc *)
    inversion H; subst. destruct (aexec_prim_form _ _ _ AE Logic.I) as (A' & AS & ->).
    apply cpost_exc. eapply prim_exc_sound; eauto.
  - (* seq, first part normal *)
    simpl in AE. destruct (aexec Sg a A) as [ra|] eqn:Ea; try discriminate.
    simpl in NU. assert (NUa : u = false -> no_user Sg a = true) by (intros U; specialize (NU U); now apply andb_true_iff in NU).
    assert (NUb : u = false -> no_user Sg b = true) by (intros U; specialize (NU U); now apply andb_true_iff in NU).
    pose proof (IHexec1 u A ra L col Ea NUa I) as (A1 & N1 & P1). simpl in N1. rewrite N1 in AE.
    destruct (aexec Sg b A1) as [rb|] eqn:Eb; try discriminate. injection AE as <-.
    destruct (aexec_len _ _ _ Ea) as (La1 & La2 & La3). destruct (aexec_len _ _ _ Eb) as (Lb1 & Lb2 & Lb3).
    rewrite (La1 A1 N1) in *.
    assert (K : forall L1 col1, Inv u A1 st1 L1 col1 -> cpost u o rb st1 L1 col1 st2) by (intros; eapply IHexec2; eauto).
    destruct P1 as (L1 & col1 & I1 & E1 & S1). specialize (K L1 col1 I1).
    assert (LB := i_lb _ _ _ _ _ I).
    assert (T : forall A2, post u A2 st1 L1 col1 st2 -> post u A2 st L col st2).
    { intros A2 (L2 & col2 & I2 & E2 & S2). exists L2, col2. split; [|split]; auto.
      eapply Ext_trans; eauto. intros U l. rewrite S2, S1; auto. }
    destruct o; simpl in *.
    + destruct K as (A2 & -> & P2). exists A2. split; auto.
    + destruct K as (A2 & E & P2). eapply opost_join_r; eauto. exists A2. split; eauto.
    + destruct K as (A2 & E & P2). eapply opost_join_r; eauto. exists A2. split; eauto.
    + destruct K as (A2 & P2). exists A2. auto.
  - (* seq, first part exits *)
    simpl in AE. destruct (aexec Sg a A) as [ra|] eqn:Ea; try discriminate.
    simpl in NU. assert (NUa : u = false -> no_user Sg a = true) by (intros U; specialize (NU U); now apply andb_true_iff in NU).
    pose proof (IHexec u A ra L col Ea NUa I) as K.
    destruct (aexec_len _ _ _ Ea) as (La1 & La2 & La3).
    destruct (nrm ra) as [A1|] eqn:N1.
    + destruct (aexec Sg b A1) as [rb|] eqn:Eb; try discriminate. injection AE as <-.
      destruct (aexec_len _ _ _ Eb) as (Lb1 & Lb2 & Lb3). rewrite (La1 A1 eq_refl) in *.
      destruct o; simpl in *; try congruence; auto.
      * eapply opost_join_l; eauto.
      * eapply opost_join_l; eauto.
    + injection AE as <-. destruct o; simpl in *; try congruence; auto.
  - (* branch left *)
    simpl in AE. destruct (aexec Sg a A) as [ra|] eqn:Ea; try discriminate.
    destruct (aexec Sg b A) as [rb|] eqn:Eb; try discriminate. injection AE as <-.
    simpl in NU. assert (NUa : u = false -> no_user Sg a = true) by (intros U; specialize (NU U); now apply andb_true_iff in NU).
    pose proof (IHexec u A ra L col Ea NUa I) as K.
    destruct (aexec_len _ _ _ Ea) as (La1 & La2 & La3). destruct (aexec_len _ _ _ Eb) as (Lb1 & Lb2 & Lb3).
    destruct o; simpl in *; auto; eapply opost_join_l; eauto.
  - (* branch right *)
    simpl in AE. destruct (aexec Sg a A) as [ra|] eqn:Ea; try discriminate.
    destruct (aexec Sg b A) as [rb|] eqn:Eb; try discriminate. injection AE as <-.
    simpl in NU. assert (NUb : u = false -> no_user Sg b = true) by (intros U; specialize (NU U); now apply andb_true_iff in NU).
    pose proof (IHexec u A rb L col Eb NUb I) as K.
    destruct (aexec_len _ _ _ Ea) as (La1 & La2 & La3). destruct (aexec_len _ _ _ Eb) as (Lb1 & Lb2 & Lb3).
    destruct o; simpl in *; auto; eapply opost_join_r; eauto.
  - (* loop, zero iterations *)
    cbn [aexec] in AE. destruct (loop_iter_fix _ _ _ _ AE) as (If & ra & R & B & O1 & O2 & ->).
    simpl. exists If. split; auto. eapply post_refines; eauto.
    exists L, col. split; [|split]; auto. apply Ext_refl.
  - (* loop, one more iteration *)
    cbn [aexec] in AE. destruct (loop_iter_fix _ _ _ _ AE) as (If & ra & R & B & O1 & O2 & ->).
    simpl in NU.
    destruct (Inv_refines _ _ _ _ _ _ R I) as (colf & If_inv & Ef).
    pose proof (IHexec1 u If ra L colf B NU If_inv) as K1.
    assert (P1 : post u If st L colf st1).
    { destruct H as [->| ->]; simpl in K1; destruct K1 as (A1 & N1 & P1).
      - apply (post_refines u If st L colf A1 st1 If If_inv P1). apply (oref_sound _ _ O1 _ N1).
      - apply (post_refines u If st L colf A1 st1 If If_inv P1). apply (oref_sound _ _ O2 _ N1). }
    destruct P1 as (L1 & col1 & I1 & E1 & S1).
    pose proof (IHexec2 u If _ L1 col1 (loop_at_fix a If ra B O1 O2) NU I1) as K2.
    assert (LB := i_lb _ _ _ _ _ I).
    assert (T : forall A2, post u A2 st1 L1 col1 st2 -> post u A2 st L col st2).
    { intros A2 (L2 & col2 & I2 & E2 & S2). exists L2, col2. split; [|split]; auto.
      eapply Ext_trans. exact LB. exact Ef. eapply Ext_trans; eauto. intros U l. rewrite S2, S1; auto. }
    destruct o; simpl in *.
    + destruct K2 as (A2 & E & P2). exists A2. split; auto.
    + destruct K2 as (A2 & E & P2). discriminate.
    + destruct K2 as (A2 & E & P2). exists A2. split; auto.
    + destruct K2 as (A2 & P2). exists A2. auto.
  - (* loop body returns / raises *)
    cbn [aexec] in AE. destruct (loop_iter_fix _ _ _ _ AE) as (If & ra & R & B & O1 & O2 & ->).
    simpl in NU.
    destruct (Inv_refines _ _ _ _ _ _ R I) as (colf & If_inv & Ef).
    pose proof (IHexec u If ra L colf B NU If_inv) as K1.
    assert (LB := i_lb _ _ _ _ _ I).
    assert (T : forall A2, post u A2 st L colf st1 -> post u A2 st L col st1).
    { intros A2 (L2 & col2 & I2 & E2 & S2). exists L2, col2. split; [|split]; auto.
      eapply Ext_trans; eauto. }
    destruct H as [->| ->]; simpl in *.
    + destruct K1 as (A2 & E & P2). exists A2. split; auto.
    + destruct K1 as (A2 & P2). exists A2. auto.
  - (* break *)
    simpl in AE. injection AE as <-. simpl. exists A. split; auto.
    exists L, col. split; [|split]; auto. apply Ext_refl.
  - (* return *)
    simpl in AE. injection AE as <-. simpl. exists A. split; auto.
    exists L, col. split; [|split]; auto. apply Ext_refl.
Qed.

End Sound.
