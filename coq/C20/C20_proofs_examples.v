(* C20 — small instances: the hypotheses of the soundness theorem are satisfiable, the checker
   separates copy-then-write from alias-then-write, and the semantics can express the violation. *)
From Coq Require Import Arith List Bool Relations Lia.
From P Require Import C20_ir C20_proofs C20_proofs_inv C20_proofs_step C20_proofs_sound C20_proofs_main.
Import ListNotations.

(* def good(x): r = x.copy(); r -= 1; return r *)
Definition good : fundef := {| f_nparams := 1; f_nvars := 3;
  f_body := Seq (Alias 2 []) (Seq (Write 2 7) (Seq (Alias 0 [2]) Return)) |}.
(* def bad(x): r = x; r -= 1; return r *)
Definition bad : fundef := {| f_nparams := 1; f_nvars := 3;
  f_body := Seq (Alias 2 [1]) (Seq (Write 2 8) (Seq (Alias 0 [2]) Return)) |}.
(* def cb(fx, x): r = fx(x); r -= 1; return r      (the shape of ode._rearrange_to_explicit_ode's use) *)
Definition cbw : fundef := {| f_nparams := 2; f_nvars := 4;
  f_body := Seq (CallUser 3 [1; 2]) (Seq (Write 3 9) (Seq (Alias 0 [3]) Return)) |}.

Definition demo : program := [good; bad; cbw].
Definition demo_sigma : sigma :=
  [ {| s_ok := true; s_user := false; s_fresh := true |}; bad_summary; bad_summary ].

Example demo_checks : check_prog demo_sigma demo = true /\
  no_protected_write demo_sigma demo 0 = true /\
  verdict demo_sigma 1 bad = Bad 8 1 /\ verdict demo_sigma 2 cbw = Bad 9 1.
Proof. repeat split; vm_compute; reflexivity. Qed.

(* a concrete heap: one array at location 0 holding 5 *)
Definition h0 : heap := {| data := fun _ => 5; refs := fun _ _ => False; next := 1 |}.
Definition s0 : snap := fun l => if Nat.eqb l 0 then Some 5 else None.

Lemma h0_wf : heap_wf h0. Proof. intros a b []. Qed.

Lemma reach_h0 : forall l, reachl h0 [Some 0] l -> l = 0.
Proof.
  intros l (l0 & [E|[]] & R). injection E as <-. induction R; auto. destruct H. congruence.
Qed.

Lemma s0_entry : entry_snap h0 [Some 0] s0.
Proof.
  split.
  - intros l R. apply reach_h0 in R. subst. reflexivity.
  - intros l d H. unfold s0 in H. destruct (Nat.eqb_spec l 0); try discriminate. subst. injection H as <-.
    split; auto. exists 0. split. now left. apply rt_refl.
Qed.

(* `good` really runs: it allocates location 1, overwrites it with 4 and returns it *)
Definition h1 : heap := {| data := fun l => if Nat.eqb l 1 then 4 else 5; refs := fun _ _ => False; next := 2 |}.
Definition h1a : heap := {| data := fun _ => 5; refs := fun _ _ => False; next := 2 |}.

Example good_runs : callsem demo 1 0 [Some 0] h0 s0 h1 s0 (Some (Some 1)).
Proof.
  simpl. exists good, ORet.
  eexists {| hp := h1; en := upd (upd (bind_params 1 [Some 0]) 2 (Some 1)) 0 (Some 1); sn := s0 |}.
  split; [reflexivity|]. split; [reflexivity|]. split; [|repeat split].
  unfold good; simpl.
  eapply e_seq_n.
  { apply e_prim. apply (p_alias_new _ 2 [] {| hp := h0; en := bind_params 1 [Some 0]; sn := s0 |} h1a); simpl; auto; try tauto. }
  eapply e_seq_n.
  { apply e_prim. apply (p_write _ 2 7 {| hp := h1a; en := upd (bind_params 1 [Some 0]) 2 (Some 1); sn := s0 |} h1); simpl; auto.
    - intros a Ha. destruct (Nat.eqb_spec a 1); try congruence. subst.
      exists 2, 1. split. now left. split. reflexivity. apply rt_refl.
    - tauto. }
  eapply e_seq_n.
  { apply e_prim.
    apply (p_alias_old _ 0 [2] {| hp := h1; en := upd (bind_params 1 [Some 0]) 2 (Some 1); sn := s0 |} 1).
    exists 2, 1. split. now left. split. reflexivity. apply rt_refl. }
  apply e_ret.
Qed.

(* the theorem applies to it: the caller's array is unchanged *)
Example good_sound : data h1 0 = data h0 0.
Proof.
  destruct (analysis_sound_lemma demo_sigma demo 0 (proj1 (proj2 demo_checks)) 1 [Some 0] h0 h1 s0 s0 (Some (Some 1)) h0_wf) as [H _].
  - intros l0 [E|[]]. injection E as <-. simpl. lia.
  - exact s0_entry.
  - exact good_runs.
  - apply H. exists 0. split. now left. apply rt_refl.
Qed.

(* `bad` has an execution that changes the caller's array: the semantics expresses the violation that the
   checker reports *)
Definition h2 : heap := {| data := fun l => if Nat.eqb l 0 then 4 else 5; refs := fun _ _ => False; next := 1 |}.

Example bad_violates : exists h' s' r, callsem demo 1 1 [Some 0] h0 s0 h' s' r /\ data h' 0 <> data h0 0.
Proof.
  exists h2, s0, (Some (Some 0)). split; [|simpl; lia].
  simpl. exists bad, ORet.
  eexists {| hp := h2; en := upd (upd (bind_params 1 [Some 0]) 2 (Some 0)) 0 (Some 0); sn := s0 |}.
  split; [reflexivity|]. split; [reflexivity|]. split; [|repeat split].
  unfold bad; simpl.
  eapply e_seq_n.
  { apply e_prim. apply (p_alias_old _ 2 [1] {| hp := h0; en := bind_params 1 [Some 0]; sn := s0 |} 0).
    exists 1, 0. split. now left. split. reflexivity. apply rt_refl. }
  eapply e_seq_n.
  { apply e_prim. apply (p_write _ 2 8 {| hp := h0; en := upd (bind_params 1 [Some 0]) 2 (Some 0); sn := s0 |} h2); simpl; auto.
    - intros a Ha. exists 2, 0. split. now left. split. reflexivity.
      destruct a. apply rt_refl. exfalso. apply Ha. reflexivity.
    - tauto. }
  eapply e_seq_n.
  { apply e_prim.
    apply (p_alias_old _ 0 [2] {| hp := h2; en := upd (bind_params 1 [Some 0]) 2 (Some 0); sn := s0 |} 0).
    exists 2, 0. split. now left. split. reflexivity. apply rt_refl. }
  apply e_ret.
Qed.
