(* C20 — effect IR, abstract heap semantics and the may-alias checker (no proofs in this file).

   Objects are locations; every object has a [data] value (the bytes of an array / the contents of a
   list or dict) and outgoing references [refs] (a view to its base, a container to its elements, an
   instance to its attributes, a closure to its captured values).  Variables point to objects (or to
   nothing: scalars, None).  [sn] is the protection snapshot: [sn l = Some d] means "object l is
   protected (reachable from an argument of the public call, or handed to / returned by a user
   callback) and had data d when it became protected".  *)
From Coq Require Import Arith List Bool Relations.
Import ListNotations.

Definition loc := nat.
Definition var := nat.      (* variable 0 is the return slot *)
Definition fname := nat.
Definition RET : var := 0.

Inductive stmt :=
| Skip
| Alias (x : var) (ys : list var)      (* x := None | an object reachable from ys | a new object referring into reach ys *)
| Write (x : var) (site : nat)         (* in-place mutation of data of objects reachable from x *)
| Store (x : var) (ys : list var) (site : nat)  (* container mutation: Write x + new references reach x -> reach ys *)
| SetAttr (x : var) (ys : list var)    (* new references reach x -> reach ys, no data change *)
| CallUser (x : var) (ys : list var)   (* user callback / opaque external higher-order code *)
| CallLib (x : var) (f : fname) (ys : list var) (site : nat)
| Seq (a b : stmt)
| Branch (a b : stmt)
| Loop (a : stmt)
| Brk                                  (* break / continue of the innermost loop *)
| Return.                              (* return the value of variable RET *)

Record fundef := { f_nparams : nat; f_nvars : nat; f_body : stmt }.
Definition program := list fundef.
Definition lookup (P : program) (f : fname) : option fundef := nth_error P f.

(* ------------------------------------------------------------------ concrete states *)
Record heap := { data : loc -> nat; refs : loc -> loc -> Prop; next : nat }.
Definition env := var -> option loc.
Definition snap := loc -> option nat.
Record state := { hp : heap; en : env; sn : snap }.

Definition reach (h : heap) : loc -> loc -> Prop := clos_refl_trans loc (refs h).
Definition reachv (h : heap) (e : env) (ys : list var) (l : loc) : Prop :=
  exists y l0, In y ys /\ e y = Some l0 /\ reach h l0 l.
Definition reachl (h : heap) (vs : list (option loc)) (l : loc) : Prop :=
  exists l0, In (Some l0) vs /\ reach h l0 l.

Definition upd (e : env) (x : var) (v : option loc) : env := fun y => if Nat.eqb y x then v else e y.

(* heap well-formedness: references only between allocated objects *)
Definition heap_wf (h : heap) : Prop := forall a b, refs h a b -> a < next h /\ b < next h.

(* h' extends h by allocation only: old objects keep data and outgoing references *)
Definition alloc_only (h h' : heap) : Prop :=
  next h <= next h' /\
  (forall a, a < next h -> data h' a = data h a) /\
  (forall a b, a < next h -> (refs h' a b <-> refs h a b)).

Inductive outcome := ONorm | OBrk | ORet | OExc.

(* what a call does, seen from the caller: argument values, heap and snapshot before / after, result
   (None = the call raised) *)
Definition callrel := list (option loc) -> heap -> snap -> heap -> snap -> option (option loc) -> Prop.
Definition oracle := fname -> callrel.

Section Exec.
Variable C : oracle.

Definition getargs (e : env) (ys : list var) : list (option loc) := map e ys.

Inductive prim : stmt -> state -> state -> Prop :=
| p_skip : forall st, prim Skip st st
| p_alias_none : forall x ys st,
    prim (Alias x ys) st {| hp := hp st; en := upd (en st) x None; sn := sn st |}
| p_alias_old : forall x ys st l, reachv (hp st) (en st) ys l ->
    prim (Alias x ys) st {| hp := hp st; en := upd (en st) x (Some l); sn := sn st |}
| p_alias_new : forall x ys st h',
    next h' = S (next (hp st)) ->
    (forall a, a < next (hp st) -> data h' a = data (hp st) a) ->
    (forall a b, refs h' a b -> refs (hp st) a b \/ (a = next (hp st) /\ reachv (hp st) (en st) ys b)) ->
    (forall a b, refs (hp st) a b -> refs h' a b) ->
    prim (Alias x ys) st {| hp := h'; en := upd (en st) x (Some (next (hp st))); sn := sn st |}
| p_write : forall x site st h',
    next h' = next (hp st) ->
    (forall a, data h' a <> data (hp st) a -> reachv (hp st) (en st) [x] a) ->
    (forall a b, refs h' a b <-> refs (hp st) a b) ->
    prim (Write x site) st {| hp := h'; en := en st; sn := sn st |}
| p_store : forall x ys site st h',
    next h' = next (hp st) ->
    (forall a, data h' a <> data (hp st) a -> reachv (hp st) (en st) [x] a) ->
    (forall a b, refs h' a b -> refs (hp st) a b \/
                 (reachv (hp st) (en st) [x] a /\ reachv (hp st) (en st) ys b)) ->
    (forall a b, refs (hp st) a b -> refs h' a b) ->
    prim (Store x ys site) st {| hp := h'; en := en st; sn := sn st |}
| p_setattr : forall x ys st h',
    next h' = next (hp st) ->
    (forall a, data h' a = data (hp st) a) ->
    (forall a b, refs h' a b -> refs (hp st) a b \/
                 (reachv (hp st) (en st) [x] a /\ reachv (hp st) (en st) ys b)) ->
    (forall a b, refs (hp st) a b -> refs h' a b) ->
    prim (SetAttr x ys) st {| hp := h'; en := en st; sn := sn st |}
| p_calluser : forall x ys st h' sn' r,
    (* user code: learns everything reachable from the arguments (which becomes protected with its
       current data), may allocate new objects (protected as well), may add references between
       protected objects, never changes the data of an existing object; returns None or a protected
       object *)
    next (hp st) <= next h' ->
    (forall a, a < next (hp st) -> data h' a = data (hp st) a) ->
    (forall a b, refs (hp st) a b -> refs h' a b) ->
    (forall a b, refs h' a b -> refs (hp st) a b \/ (sn' a <> None /\ sn' b <> None)) ->
    heap_wf h' ->
    (forall l d, sn st l = Some d -> sn' l = Some d) ->
    (forall l, reachv (hp st) (en st) ys l -> sn' l <> None) ->
    (forall l, next (hp st) <= l -> l < next h' -> sn' l <> None) ->
    (forall l d, sn' l = Some d -> sn st l = None ->
        data h' l = d /\ l < next h' /\ (l < next (hp st) -> reachv (hp st) (en st) ys l)) ->
    (forall l, r = Some l -> sn' l <> None) ->
    prim (CallUser x ys) st {| hp := h'; en := upd (en st) x r; sn := sn' |}
| p_calllib : forall x f ys site st h' sn' r,
    C f (getargs (en st) ys) (hp st) (sn st) h' sn' (Some r) ->
    prim (CallLib x f ys site) st {| hp := h'; en := upd (en st) x r; sn := sn' |}.

(* a call that raises: effects on heap and snapshot, no result *)
Inductive prim_exc : stmt -> state -> state -> Prop :=
| pe_calllib : forall x f ys site st h' sn',
    C f (getargs (en st) ys) (hp st) (sn st) h' sn' None ->
    prim_exc (CallLib x f ys site) st {| hp := h'; en := en st; sn := sn' |}.

Inductive exec : stmt -> state -> outcome -> state -> Prop :=
| e_raise : forall s st, exec s st OExc st           (* an exception may be raised before any statement *)
| e_prim : forall s st st', prim s st st' -> exec s st ONorm st'
| e_prim_exc : forall s st st', prim_exc s st st' -> exec s st OExc st'
| e_seq_n : forall a b st st1 o st2, exec a st ONorm st1 -> exec b st1 o st2 -> exec (Seq a b) st o st2
| e_seq_x : forall a b st o st1, o <> ONorm -> exec a st o st1 -> exec (Seq a b) st o st1
| e_br_l : forall a b st o st1, exec a st o st1 -> exec (Branch a b) st o st1
| e_br_r : forall a b st o st1, exec b st o st1 -> exec (Branch a b) st o st1
| e_loop_0 : forall a st, exec (Loop a) st ONorm st
| e_loop_s : forall a st o1 st1 o st2, (o1 = ONorm \/ o1 = OBrk) ->
    exec a st o1 st1 -> exec (Loop a) st1 o st2 -> exec (Loop a) st o st2
| e_loop_x : forall a st o st1, (o = ORet \/ o = OExc) -> exec a st o st1 -> exec (Loop a) st o st1
| e_brk : forall st, exec Brk st OBrk st
| e_ret : forall st, exec Return st ORet st.
End Exec.

(* ------------------------------------------------------------------ the real call semantics *)
Definition bind_params (n : nat) (vs : list (option loc)) : env :=
  fun v => match v with O => None | S k => if Nat.ltb k n then nth k vs None else None end.

(* calls of depth at most n: the callee's body is executed on the shared heap *)
Fixpoint callsem (P : program) (n : nat) : oracle :=
  match n with
  | O => fun _ _ _ _ _ _ _ => False
  | S m => fun f vs h s h' s' r =>
      exists fd o st', lookup P f = Some fd /\ length vs = f_nparams fd /\
        exec (callsem P m) (f_body fd) {| hp := h; en := bind_params (f_nparams fd) vs; sn := s |} o st' /\
        hp st' = h' /\ sn st' = s' /\
        match o with
        | ORet => r = Some (en st' RET)
        | ONorm | OBrk => r = Some None
        | OExc => r = None
        end
  end.

(* ------------------------------------------------------------------ abstract states *)
(* an abstract state maps every variable (index < length) to a class id; class 0 is "may share with a
   protected object"; two variables in different classes never share a reachable object *)
Definition astate := list nat.
Definition cls (A : astate) (x : var) : nat := nth x A 0.
Definition rename (c d : nat) : nat -> nat := fun k => if Nat.eqb k d then c else k.
(* merge classes c and d (class 0 absorbs) *)
Definition merge (A : astate) (c d : nat) : astate :=
  if Nat.eqb c d then A else
  if Nat.eqb c 0 then map (rename 0 d) A else
  if Nat.eqb d 0 then map (rename 0 c) A else map (rename c d) A.
Definition mrep (c d : nat) : nat := if Nat.eqb c d then c else if Nat.eqb c 0 then 0 else if Nat.eqb d 0 then 0 else c.
Definition fresh_id (A : astate) : nat := S (fold_right Nat.max 0 A).
Fixpoint setnth (A : astate) (x : var) (c : nat) : astate :=
  match A, x with
  | [], _ => []
  | _ :: t, O => c :: t
  | a :: t, S k => a :: setnth t k c
  end.
(* merge the classes of all ys; returns the new state and the class of the merged group *)
Fixpoint mergeall (A : astate) (c : nat) (ys : list var) : astate * nat :=
  match ys with
  | [] => (A, c)
  | y :: t => let d := cls A y in mergeall (merge A c d) (mrep c d) t
  end.
Definition mergevars (A : astate) (ys : list var) : astate * nat :=
  match ys with
  | [] => (A, fresh_id A)
  | y :: t => mergeall A (cls A y) t
  end.

Definition refinesb (A B : astate) : bool :=
  let n := length A in
  Nat.eqb (length B) n &&
  forallb (fun x => (negb (Nat.eqb (cls A x) 0) || Nat.eqb (cls B x) 0) &&
     forallb (fun y => negb (Nat.eqb (cls A x) (cls A y)) || Nat.eqb (cls B x) (cls B y)) (seq 0 n)) (seq 0 n).

(* first variable with the same class *)
Fixpoint firstwith (B : astate) (c : nat) (i : nat) (l : list nat) : nat :=
  match l with
  | [] => i
  | b :: t => if Nat.eqb b c then i else firstwith B c (S i) t
  end.
Definition rep (B : astate) (x : var) : var := firstwith B (cls B x) 0 B.
(* coarsest-needed common coarsening of A and B, built from A by merges *)
Definition join_step (B : astate) (J : astate) (x : var) : astate :=
  let J1 := if Nat.eqb (cls B x) 0 then merge J (cls J x) 0 else J in
  merge J1 (cls J1 x) (cls J1 (rep B x)).
Definition join (A B : astate) : astate := fold_left (join_step B) (seq 0 (length A)) A.
Definition ojoin (a b : option astate) : option astate :=
  match a, b with
  | None, x => x
  | x, None => x
  | Some A, Some B => Some (join A B)
  end.

(* ------------------------------------------------------------------ summaries and the checker *)
Record summary := { s_ok : bool;      (* the function passes the check: it never writes a protected object *)
                    s_user : bool;    (* may run user code (directly or through callees) *)
                    s_fresh : bool }. (* its result shares nothing with any object that existed before the call *)
Definition sigma := list summary.
Definition bad_summary := {| s_ok := false; s_user := true; s_fresh := false |}.
Definition sig (Sg : sigma) (f : fname) : summary := nth f Sg bad_summary.

Record ares := { nrm : option astate; brk : option astate; ret : option astate }.
Inductive chk (T : Type) := Ok (r : T) | Bad (site : nat) (why : nat).
Arguments Ok {T}. Arguments Bad {T}.
(* why: 1 write to protected, 2 store into protected, 3 call of a function that fails the check,
        4 ill-formed (variable out of range), 5 loop did not stabilise *)

Definition inrange (n : nat) (xs : list var) : bool := forallb (fun x => Nat.ltb x n) xs.

Definition astep (Sg : sigma) (s : stmt) (A : astate) : chk astate :=
  let n := length A in
  match s with
  | Alias x ys => if inrange n (x :: ys) then let (A1, c) := mergevars A ys in Ok (setnth A1 x c) else Bad 0 4
  | Write x site => if inrange n [x] then if Nat.eqb (cls A x) 0 then Bad site 1 else Ok A else Bad site 4
  | Store x ys site => if inrange n (x :: ys) then
        if Nat.eqb (cls A x) 0 then Bad site 2 else Ok (fst (mergevars A (x :: ys))) else Bad site 4
  | SetAttr x ys => if inrange n (x :: ys) then Ok (fst (mergevars A (x :: ys))) else Bad 0 4
  | CallUser x ys => if inrange n (x :: ys) then
        let (A1, c) := mergevars A ys in Ok (setnth (merge A1 0 c) x 0) else Bad 0 4
  | CallLib x f ys site => if inrange n (x :: ys) then
        let sm := sig Sg f in
        if s_ok sm then
          let (A1, c) := mergevars A ys in
          let (A2, c2) := if s_user sm then (merge A1 0 c, 0) else (A1, c) in
          if s_fresh sm then Ok (setnth A2 x (fresh_id A2)) else Ok (setnth A2 x c2)
        else Bad site 3 else Bad site 4
  | _ => Ok A
  end.

Definition oref (a : option astate) (I : astate) : bool :=
  match a with None => true | Some A => refinesb A I end.

Fixpoint loop_iter (body : astate -> chk ares) (k : nat) (I : astate) : chk ares :=
  match body I with
  | Bad i w => Bad i w
  | Ok ra =>
      if oref (nrm ra) I && oref (brk ra) I then Ok {| nrm := Some I; brk := None; ret := ret ra |}
      else match k with
           | O => Bad 0 5
           | S k' => match ojoin (Some I) (ojoin (nrm ra) (brk ra)) with
                     | Some I' => loop_iter body k' I'
                     | None => Bad 0 5
                     end
           end
  end.

Fixpoint aexec (Sg : sigma) (s : stmt) (A : astate) {struct s} : chk ares :=
  match s with
  | Seq a b =>
      match aexec Sg a A with
      | Bad i w => Bad i w
      | Ok ra => match nrm ra with
                 | None => Ok ra
                 | Some A1 => match aexec Sg b A1 with
                              | Bad i w => Bad i w
                              | Ok rb => Ok {| nrm := nrm rb; brk := ojoin (brk ra) (brk rb); ret := ojoin (ret ra) (ret rb) |}
                              end
                 end
      end
  | Branch a b =>
      match aexec Sg a A, aexec Sg b A with
      | Bad i w, _ => Bad i w
      | _, Bad i w => Bad i w
      | Ok ra, Ok rb => Ok {| nrm := ojoin (nrm ra) (nrm rb); brk := ojoin (brk ra) (brk rb); ret := ojoin (ret ra) (ret rb) |}
      end
  | Loop a => loop_iter (aexec Sg a) (S (length A)) A
  | Brk => Ok {| nrm := None; brk := Some A; ret := None |}
  | Return => Ok {| nrm := None; brk := None; ret := Some A |}
  | Skip => Ok {| nrm := Some A; brk := None; ret := None |}
  | _ => match astep Sg s A with
         | Bad i w => Bad i w
         | Ok A' => Ok {| nrm := Some A'; brk := None; ret := None |}
         end
  end.

(* syntactic: the body never runs user code *)
Fixpoint no_user (Sg : sigma) (s : stmt) : bool :=
  match s with
  | CallUser _ _ => false
  | CallLib _ f _ _ => negb (s_user (sig Sg f))
  | Seq a b | Branch a b => no_user Sg a && no_user Sg b
  | Loop a => no_user Sg a
  | _ => true
  end.

(* the parameters start in class 0 (protected); every other variable is unbound at entry and starts in
   a class of its own *)
Definition init_astate (fd : fundef) : astate :=
  repeat 0 (S (f_nparams fd)) ++ seq 1 (f_nvars fd - S (f_nparams fd)).

Definition ret_fresh (r : option astate) : bool :=
  match r with None => true | Some A => negb (Nat.eqb (cls A RET) 0) end.

(* check one function against its own summary, using the summaries of its callees *)
Definition check_fun (Sg : sigma) (f : fname) (fd : fundef) : chk unit :=
  let sm := sig Sg f in
  if negb (s_ok sm) then Ok tt else
  if negb (Nat.ltb (f_nparams fd) (f_nvars fd)) then Bad 0 4 else
  match aexec Sg (f_body fd) (init_astate fd) with
  | Bad i w => Bad i w
  | Ok r =>
      if (negb (s_fresh sm) || ret_fresh (ret r)) && (s_user sm || no_user Sg (f_body fd))
      then Ok tt else Bad 0 6
  end.

Definition is_ok {T} (c : chk T) : bool := match c with Ok _ => true | Bad _ _ => false end.

Fixpoint check_from (Sg : sigma) (i : nat) (P : program) : bool :=
  match P with
  | [] => true
  | fd :: t => is_ok (check_fun Sg i fd) && check_from Sg (S i) t
  end.
Definition check_prog (Sg : sigma) (P : program) : bool := check_from Sg 0 P.

(* the verdict for one function taken in isolation (its own summary forced to "ok"): used to show
   where a function that is not ok fails *)
Definition verdict (Sg : sigma) (f : fname) (fd : fundef) : chk ares :=
  if negb (Nat.ltb (f_nparams fd) (f_nvars fd)) then Bad 0 4 else aexec Sg (f_body fd) (init_astate fd).

Definition no_protected_write (Sg : sigma) (P : program) (f : fname) : bool :=
  check_prog Sg P && s_ok (sig Sg f).
