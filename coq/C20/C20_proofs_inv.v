(* C20 — the colouring invariant that links abstract and concrete states, and its basic properties. *)
From Coq Require Import Arith List Bool Relations Lia.
From P Require Import C20_ir C20_proofs.
Import ListNotations.

(* [L] is a set of allocated objects, closed under references, that contains everything the running
   function can reach; [col] colours the objects of [L] with class ids such that references stay inside
   one colour, a variable's object has the colour of the variable's class, and protected objects have
   colour 0.  [u = true] additionally demands that all protected objects are in [L] (needed when user
   code may hand any protected object back). *)
Record Inv (u : bool) (A : astate) (st : state) (L : loc -> bool) (col : loc -> nat) : Prop := {
  i_wf : heap_wf (hp st);
  i_lb : forall l, L l = true -> l < next (hp st);
  i_clo : forall a b, L a = true -> refs (hp st) a b -> L b = true;
  i_ecol : forall a b, L a = true -> refs (hp st) a b -> col a = col b;
  i_env : forall x l, en st x = Some l -> L l = true /\ col l = cls A x /\ x < length A;
  i_sn : forall l d, sn st l = Some d ->
           data (hp st) l = d /\ l < next (hp st) /\ (L l = true -> col l = 0) /\ (u = true -> L l = true)
}.

Record Ext (st : state) (L : loc -> bool) (col : loc -> nat)
           (st' : state) (L' : loc -> bool) (col' : loc -> nat) : Prop := {
  x_next : next (hp st) <= next (hp st');
  x_sub : forall l, L l = true -> L' l = true;
  x_new : forall l, L' l = true -> L l = true \/ next (hp st) <= l;
  x_zero : forall l, L l = true -> col l = 0 -> col' l = 0;
  x_data0 : forall l, L l = true -> col l = 0 -> data (hp st') l = data (hp st) l;
  x_frame : forall a, a < next (hp st) -> L a = false ->
              data (hp st') a = data (hp st) a /\ forall b, refs (hp st') a b <-> refs (hp st) a b;
  x_sn : forall l d, sn st l = Some d -> sn st' l = Some d
}.

Lemma Ext_refl : forall st L col, Ext st L col st L col.
Proof. intros. constructor; auto. intros; split; auto. tauto. Qed.

Lemma Ext_trans : forall s1 L1 c1 s2 L2 c2 s3 L3 c3,
  (forall l, L1 l = true -> l < next (hp s1)) ->
  Ext s1 L1 c1 s2 L2 c2 -> Ext s2 L2 c2 s3 L3 c3 -> Ext s1 L1 c1 s3 L3 c3.
Proof.
  intros s1 L1 c1 s2 L2 c2 s3 L3 c3 Hlb [n1 sb1 nw1 z1 d1 f1 sn1] [n2 sb2 nw2 z2 d2 f2 sn2].
  constructor; auto.
  - lia.
  - intros l H. destruct (nw2 l H) as [H2|H2]. auto. right. lia.
  - intros l H Z. rewrite d2; auto.
  - intros a Ha HL.
    assert (HL2 : L2 a = false).
    { destruct (L2 a) eqn:E; auto. destruct (nw1 a E); [congruence | lia]. }
    destruct (f1 a Ha HL) as [D1 R1]. destruct (f2 a ltac:(lia) HL2) as [D2 R2].
    split. congruence. intros b. rewrite R2. apply R1.
Qed.

(* ------------------------------------------------------------------ reachability stays in a colour *)
Lemma reach_col : forall u A st L col l0 l, Inv u A st L col ->
  L l0 = true -> reach (hp st) l0 l -> L l = true /\ col l = col l0.
Proof.
  intros u A st L col l0 l I H0 R. revert H0. induction R; intros H0.
  - split. eapply i_clo; eauto. symmetry. eapply i_ecol; eauto.
  - auto.
  - destruct (IHR1 H0) as [Hy Ey]. destruct (IHR2 Hy) as [Hz Ez]. split; auto. congruence.
Qed.

Lemma reachv_col : forall u A st L col ys l, Inv u A st L col ->
  reachv (hp st) (en st) ys l -> exists y, In y ys /\ L l = true /\ col l = cls A y /\ y < length A.
Proof.
  intros u A st L col ys l I (y & l0 & Hin & He & R).
  destruct (i_env _ _ _ _ _ I _ _ He) as (H0 & Ec & Hy).
  destruct (reach_col _ _ _ _ _ _ _ I H0 R) as [Hl El].
  exists y. repeat split; auto. congruence.
Qed.

(* ------------------------------------------------------------------ recolouring *)
Lemma Inv_rename : forall rho u A st L col, rho 0 = 0 -> Inv u A st L col ->
  Inv u (map rho A) st L (fun l => rho (col l)).
Proof.
  intros rho u A st L col H0 [wf lb clo ecol envc snc]. constructor.
  - auto. - auto. - auto.
  - intros a b Ha R. f_equal. eauto.
  - intros x l He. destruct (envc x l He) as (H1 & H2 & H3). repeat split; auto.
    + rewrite cls_map by auto. congruence.
    + now rewrite map_length.
  - intros l d Hs. destruct (snc l d Hs) as (H1 & H2 & H3 & H4). repeat split; auto.
    intros HL. rewrite (H3 HL). auto.
Qed.

Lemma Ext_rename : forall rho st L col, rho 0 = 0 -> Ext st L col st L (fun l => rho (col l)).
Proof.
  intros. constructor; auto.
  - intros l _ Z. now rewrite Z.
  - intros; split; auto. tauto.
Qed.

(* the class-to-class map induced by a refinement *)
Definition rho_of (A B : astate) (c : nat) : nat :=
  match find (fun x => Nat.eqb (cls A x) c) (seq 0 (length A)) with
  | Some x => cls B x
  | None => c
  end.

Lemma rho_of_var : forall A B x, refines A B -> x < length A -> rho_of A B (cls A x) = cls B x.
Proof.
  intros A B x [HL HR] Hx. unfold rho_of.
  destruct (find _ _) as [x'|] eqn:F.
  - apply find_some in F as [Hin E]. apply Nat.eqb_eq in E. apply in_seq in Hin.
    destruct (HR x' ltac:(lia)) as [_ H]. apply H; auto.
  - exfalso. eapply find_none with (x := x) in F. rewrite Nat.eqb_refl in F. discriminate.
    apply in_seq. lia.
Qed.

Lemma rho_of_zero : forall A B, refines A B -> rho_of A B 0 = 0.
Proof.
  intros A B [HL HR]. unfold rho_of. destruct (find _ _) as [x'|] eqn:F; auto.
  apply find_some in F as [Hin E]. apply Nat.eqb_eq in E. apply in_seq in Hin.
  destruct (HR x' ltac:(lia)) as [H _]. auto.
Qed.

Lemma Inv_refines : forall u A B st L col, refines A B -> Inv u A st L col ->
  exists col', Inv u B st L col' /\ Ext st L col st L col'.
Proof.
  intros u A B st L col R I. exists (fun l => rho_of A B (col l)).
  pose proof (rho_of_zero A B R) as H0. split.
  - destruct I as [wf lb clo ecol envc snc]. constructor.
    + auto. + auto. + auto.
    + intros a b Ha Rf. f_equal. eauto.
    + intros x l He. destruct (envc x l He) as (H1 & H2 & H3). repeat split; auto.
      * rewrite H2. now apply rho_of_var.
      * destruct R as [HL _]. lia.
    + intros l d Hs. destruct (snc l d Hs) as (H1 & H2 & H3 & H4). repeat split; auto.
      intros HLl. rewrite (H3 HLl). auto.
  - now apply Ext_rename.
Qed.

(* merging the classes of a list of variables *)
Lemma Inv_mergevars : forall u A st L col ys A1 c, mergevars A ys = (A1, c) -> Inv u A st L col ->
  exists col1, Inv u A1 st L col1 /\ Ext st L col st L col1 /\ length A1 = length A /\
    (forall l, reachv (hp st) (en st) ys l -> L l = true /\ col1 l = c) /\
    (forall y, In y ys -> cls A1 y = c) /\
    (ys = [] -> c = fresh_id A /\ A1 = A) /\
    (forall l, col1 l = 0 -> col l = 0 \/ c = 0).
Proof.
  intros u A st L col ys A1 c M I.
  destruct (mergevars_spec ys A A1 c M) as (rho & H0 & Hm & Hy & He & Hz).
  exists (fun l => rho (col l)). subst A1.
  split; [now apply Inv_rename|]. split; [now apply Ext_rename|]. split; [apply map_length|].
  split; [|split; [|split]].
  - intros l H. destruct (reachv_col _ _ _ _ _ _ _ I H) as (y & Hin & HL & Ec & Hlt). split; auto.
    rewrite Ec. auto.
  - intros y Hin. rewrite cls_map by auto. auto.
  - apply He; auto.
  - intros l Hl. apply Hz in Hl. auto.
Qed.

Lemma reachv_same_env : forall h e e' ys l, (forall y, In y ys -> e' y = e y) -> reachv h e' ys l -> reachv h e ys l.
Proof. intros h e e' ys l H (y & l0 & Hin & He & R). exists y, l0. rewrite <- H; auto. Qed.
