(* C20 — from one checked function body to whole programs: every checked function satisfies its
   specification for calls of any depth (induction on the call depth), and the final theorem. *)
From Coq Require Import Arith List Bool Relations Lia.
From P Require Import C20_ir C20_proofs C20_proofs_inv C20_proofs_step C20_proofs_sound.
Import ListNotations.

Lemma cls_init_param : forall fd k, k < f_nparams fd -> cls (init_astate fd) (S k) = 0.
Proof.
  intros fd k H. unfold cls, init_astate. rewrite app_nth1 by (rewrite repeat_length; lia).
  apply nth_repeat.
Qed.

Lemma init_length : forall fd, f_nparams fd < f_nvars fd -> length (init_astate fd) = f_nvars fd.
Proof. intros fd H. unfold init_astate. rewrite app_length, repeat_length, seq_length. lia. Qed.

Lemma check_from_nth : forall Sg P i k fd, check_from Sg i P = true -> nth_error P k = Some fd ->
  is_ok (check_fun Sg (i + k) fd) = true.
Proof.
  intros Sg. induction P as [|fd0 t IH]; intros i k fd H E.
  - destruct k; discriminate.
  - simpl in H. apply andb_true_iff in H as [H1 H2]. destruct k; simpl in E.
    + injection E as <-. now rewrite Nat.add_0_r.
    + replace (i + S k) with (S i + k) by lia. eauto.
Qed.

Definition body_rel (C : oracle) (fd : fundef) : callrel :=
  fun vs h s h' s' r =>
    exists o st', length vs = f_nparams fd /\
      exec C (f_body fd) {| hp := h; en := bind_params (f_nparams fd) vs; sn := s |} o st' /\
      hp st' = h' /\ sn st' = s' /\
      match o with
      | ORet => r = Some (en st' RET)
      | ONorm | OBrk => r = Some None
      | OExc => r = None
      end.

Section Fun.
Variable Sg : sigma.
Variable C : oracle.
Hypothesis HC : forall f, s_ok (sig Sg f) = true -> spec (sig Sg f) (C f).

(* what the final invariant of a callee gives its caller *)
Lemma finish : forall (sm : summary) u A' st0 st' (S : loc -> bool) L' col' (b : bool) (cr : nat),
  u = s_user sm ->
  (forall l, S l = true -> l < next (hp st0)) ->
  Inv u A' st' L' col' -> Ext st0 S (fun _ => 0) st' L' col' ->
  (u = false -> forall l, sn st' l = sn st0 l) ->
  (b = true -> cr <> 0) -> (s_fresh sm = false -> b = false) ->
  let N := fun l => L' l && Nat.leb (next (hp st0)) l in
  let Nc := fun l => b && (L' l && Nat.eqb (col' l) cr) in
      heap_wf (hp st') /\ next (hp st0) <= next (hp st') /\
      (forall l, N l = true -> next (hp st0) <= l /\ l < next (hp st')) /\
      (forall l, Nc l = true -> N l = true) /\
      (forall a, a < next (hp st0) -> data (hp st') a = data (hp st0) a) /\
      (forall a b, a < next (hp st0) -> S a = false -> (refs (hp st') a b <-> refs (hp st0) a b)) /\
      (forall a b, (S a || N a) = true -> refs (hp st') a b -> (S b || N b) = true) /\
      (forall a b, (S a || N a) = true -> refs (hp st') a b -> Nc b = true -> Nc a = true) /\
      (forall a b, refs (hp st') a b -> Nc a = true -> Nc b = true) /\
      (forall l d, sn st0 l = Some d -> sn st' l = Some d) /\
      (forall l d, sn st' l = Some d -> sn st0 l = None -> (S l || N l) = true /\ Nc l = false /\ data (hp st') l = d) /\
      (s_user sm = false -> forall l, sn st' l = sn st0 l) /\
      (s_fresh sm = false -> forall l, Nc l = false) /\
      (forall l, L' l = true -> (S l || N l) = true) /\
      (forall l, b = true -> L' l = true -> col' l = cr -> Nc l = true).
Proof.
  intros sm u A' st0 st' S L' col' b cr Hu SB [wf lb clo ecol envc snc] [xn xs xw xz xd xf xsn] Hsn Hb Hfb N Nc.
  assert (LSN : forall l, L' l = true -> (S l || N l) = true).
  { intros l H. destruct (xw l H) as [H1|H1]. now rewrite H1.
    apply orb_true_iff. right. unfold N. rewrite H. simpl. now apply Nat.leb_le. }
  assert (SNL : forall l, (S l || N l) = true -> L' l = true).
  { intros l H. apply orb_true_iff in H as [H|H]; auto. unfold N in H. now apply andb_true_iff in H as [H _]. }
  assert (NcE : forall l, Nc l = true -> b = true /\ L' l = true /\ col' l = cr).
  { intros l H. unfold Nc in H. apply andb_true_iff in H as [H1 H2]. apply andb_true_iff in H2 as [H2 H3].
    apply Nat.eqb_eq in H3. auto. }
  assert (NcI : forall l, b = true -> L' l = true -> col' l = cr -> Nc l = true).
  { intros l H1 H2 H3. unfold Nc. rewrite H1, H2. simpl. now apply Nat.eqb_eq. }
  split; [auto|]. split; [auto|]. split.
  { intros l H. unfold N in H. apply andb_true_iff in H as [H1 H2]. apply Nat.leb_le in H2. split; auto. }
  split.
  { intros l H. destruct (NcE l H) as (B & Ll & Cl). unfold N. rewrite Ll. simpl. apply Nat.leb_le.
    destruct (xw l Ll) as [H1|H1]; auto. exfalso. apply (Hb B). rewrite <- Cl. apply xz; auto. }
  split.
  { intros a Ha. destruct (S a) eqn:E. apply xd; auto. apply xf; auto. }
  split.
  { intros a b0 Ha E. apply xf; auto. }
  split.
  { intros a b0 Ha R. apply LSN. eapply clo; eauto. }
  split.
  { intros a b0 Ha R Hc. destruct (NcE b0 Hc) as (B & Lb & Cb). apply NcI; auto.
    rewrite (ecol a b0 (SNL a Ha) R). auto. }
  split.
  { intros a b0 R Hc. destruct (NcE a Hc) as (B & La & Ca). apply NcI; auto. eapply clo; eauto.
    rewrite <- (ecol a b0 La R). auto. }
  split; [auto|]. split.
  { intros l d Hs Hn. destruct (snc l d Hs) as (D & Lt & Z & InL).
    assert (U : u = true).
    { destruct u; auto. rewrite (Hsn eq_refl l) in Hs. congruence. }
    specialize (InL U). split. now apply LSN. split; auto.
    destruct (Nc l) eqn:E; auto. destruct (NcE l E) as (B & _ & Cl). exfalso. apply (Hb B). rewrite <- Cl. auto. }
  split.
  { intros U. apply Hsn. congruence. }
  split.
  { intros F l. unfold Nc. now rewrite (Hfb F). }
  split; auto.
Qed.

Theorem fun_spec : forall f fd, s_ok (sig Sg f) = true -> check_fun Sg f fd = Ok tt ->
  spec (sig Sg f) (body_rel C fd).
Proof.
  intros f fd Hok CF. unfold check_fun in CF. rewrite Hok in CF. simpl in CF.
  destruct (f_nparams fd <? f_nvars fd) eqn:NP; try discriminate. simpl in CF. apply Nat.ltb_lt in NP.
  destruct (aexec Sg (f_body fd) (init_astate fd)) as [r|] eqn:AE; try discriminate.
  destruct ((negb (s_fresh (sig Sg f)) || ret_fresh (ret r)) && (s_user (sig Sg f) || no_user Sg (f_body fd))) eqn:FL; try discriminate.
  apply andb_true_iff in FL as [FL1 FL2].
  intros vs h s h' s' ro (o & st' & Hlen & EX & Hh & Hs & RES) S Hwf SB Sclo Sargs Ssn Suser. subst h' s'.
  set (u := s_user (sig Sg f)).
  set (st0 := {| hp := h; en := bind_params (f_nparams fd) vs; sn := s |}) in *.
  assert (I0 : Inv u (init_astate fd) st0 S (fun _ => 0)).
  { constructor; unfold st0; cbn [hp en sn]; auto.
    - intros x l E. unfold bind_params in E. destruct x as [|k]; try discriminate.
      destruct (Nat.ltb_spec k (f_nparams fd)); try discriminate.
      split. apply Sargs. rewrite <- E. apply nth_In. lia.
      split. now rewrite cls_init_param.
      rewrite init_length; lia.
    - intros l d Hs. destruct (Ssn l d Hs) as [D Lt]. split; auto. split; auto. split; auto.
      intros U. eapply Suser; eauto. }
  assert (NU : u = false -> no_user Sg (f_body fd) = true).
  { intros U. unfold u in U. rewrite U in FL2. auto. }
  pose proof (core Sg C HC _ _ _ _ EX u _ r S (fun _ => 0) AE NU I0) as K.
  (* a uniform view of the final state *)
  assert (exists A' L' col', Inv u A' st' L' col' /\ Ext st0 S (fun _ => 0) st' L' col' /\
            (u = false -> forall l, sn st' l = sn st0 l) /\ (o = ORet -> ret r = Some A'))
    as (A' & L' & col' & I1 & E1 & S1 & RA).
  { destruct o; simpl in K.
    - destruct K as (A' & _ & L' & col' & I1 & E1 & S1). exists A', L', col'. split; [exact I1|split; [exact E1|split; [exact S1|intros; discriminate]]].
    - destruct K as (A' & _ & L' & col' & I1 & E1 & S1). exists A', L', col'. split; [exact I1|split; [exact E1|split; [exact S1|intros; discriminate]]].
    - destruct K as (A' & EA & L' & col' & I1 & E1 & S1). exists A', L', col'. split; [exact I1|split; [exact E1|split; [exact S1|intros _; exact EA]]].
    - destruct K as (A' & L' & col' & I1 & E1 & S1). exists A', L', col'. split; [exact I1|split; [exact E1|split; [exact S1|intros; discriminate]]]. }
  set (b := s_fresh (sig Sg f) && match o with ORet => true | _ => false end).
  set (cr := cls A' RET).
  assert (Hb : b = true -> cr <> 0).
  { intros B. unfold b in B. apply andb_true_iff in B as [F O]. destruct o; try discriminate.
    rewrite F in FL1. simpl in FL1. rewrite (RA eq_refl) in FL1. simpl in FL1.
    apply negb_true_iff in FL1. apply Nat.eqb_neq in FL1. exact FL1. }
  assert (Hfb : s_fresh (sig Sg f) = false -> b = false) by (intros F; unfold b; now rewrite F).
  destruct (finish (sig Sg f) u A' st0 st' S L' col' b cr eq_refl SB I1 E1 S1 Hb Hfb)
    as (F1 & F2 & F3 & F4 & F5 & F6 & F7 & F8 & F9 & F10 & F11 & F12 & F13 & F14 & F15).
  eexists. eexists.
  split; [exact F1|]. split; [exact F2|]. split; [exact F3|]. split; [exact F4|]. split; [exact F5|].
  split; [exact F6|]. split; [exact F7|]. split; [exact F8|]. split; [exact F9|]. split; [exact F10|].
  split; [exact F11|]. split; [exact F12|]. split; [|exact F13].
  intros l E. destruct o; try (rewrite RES in E; discriminate).
  rewrite RES in E. injection E as E.
  destruct (i_env _ _ _ _ _ I1 _ _ E) as (Ll & Cl & _). split. now apply F14.
  intros F. apply F15; auto. unfold b. now rewrite F.
Qed.
End Fun.

(* ------------------------------------------------------------------ whole programs *)
Theorem callsem_spec : forall Sg P, check_prog Sg P = true ->
  forall n f, s_ok (sig Sg f) = true -> spec (sig Sg f) (callsem P n f).
Proof.
  intros Sg P CP. induction n; intros f Hok.
  - intros vs h s h' s' r [].
  - intros vs h s h' s' r (fd & o & st' & LK & Hlen & EX & Hh & Hs & RES).
    assert (CF : check_fun Sg f fd = Ok tt).
    { pose proof (check_from_nth Sg P 0 f fd CP LK) as H. simpl in H.
      destruct (check_fun Sg f fd) as [[]|]; auto; discriminate. }
    apply (fun_spec Sg (callsem P n) IHn f fd Hok CF vs h s h' s' r).
    exists o, st'. auto.
Qed.

(* The snapshot of a public call: everything reachable from the arguments is protected with its
   current data. *)
Definition entry_snap (h : heap) (vs : list (option loc)) (s : snap) : Prop :=
  (forall l, reachl h vs l -> s l = Some (data h l)) /\
  (forall l d, s l = Some d -> reachl h vs l /\ d = data h l).

Lemma reachl_lt : forall h vs l, heap_wf h -> (forall l0, In (Some l0) vs -> l0 < next h) ->
  reachl h vs l -> l < next h.
Proof.
  intros h vs l Hwf Hvs (l0 & Hin & R). specialize (Hvs l0 Hin). clear Hin. induction R; auto.
  destruct (Hwf x y H). auto.
Qed.

Theorem analysis_sound_lemma : forall Sg P f, no_protected_write Sg P f = true ->
  forall n vs h h' s s' r,
    heap_wf h -> (forall l0, In (Some l0) vs -> l0 < next h) -> entry_snap h vs s ->
    callsem P n f vs h s h' s' r ->
    (* every object that was reachable from an argument is unchanged ... *)
    (forall l, reachl h vs l -> data h' l = data h l) /\
    (* ... and every protected object (arguments, objects handed to or returned by user callbacks)
       still has the data it had when it became protected *)
    (forall l d, s' l = Some d -> data h' l = d).
Proof.
  intros Sg P f NPW n vs h h' s s' r Hwf Hvs [ES1 ES2] CS.
  unfold no_protected_write in NPW. apply andb_true_iff in NPW as [CP Hok].
  pose proof (callsem_spec Sg P CP n f Hok vs h s h' s' r CS) as SP.
  (* S := all allocated objects *)
  destruct (SP (fun l => Nat.ltb l (next h))) as (N & Nc & F1 & F2 & F3 & F4 & F5 & F6 & F7 & F8 & F9 & F10 & F11 & F12 & F13 & F14); auto.
  - intros l H. now apply Nat.ltb_lt.
  - intros a b H R. apply Nat.ltb_lt. destruct (Hwf a b R). auto.
  - intros l H. apply Nat.ltb_lt. auto.
  - intros l d H. destruct (ES2 l d H) as [R ->]. split; auto. eapply reachl_lt; eauto.
  - intros _ l d H. apply Nat.ltb_lt. destruct (ES2 l d H) as [R _]. eapply reachl_lt; eauto.
  - split.
    + intros l R. apply F5. eapply reachl_lt; eauto.
    + intros l d H. destruct (s l) as [d0|] eqn:E.
      * rewrite (F10 l d0 E) in H. injection H as <-. destruct (ES2 l d0 E) as [R ->].
        apply F5. eapply reachl_lt; eauto.
      * destruct (F11 l d H E) as (_ & _ & D). auto.
Qed.

(* every function of a checked program that is not listed as an exception is ok *)
Lemma not_exception_ok : forall Sg P exc f,
  check_prog Sg P = true ->
  forallb (fun f => s_ok (sig Sg f) || existsb (Nat.eqb f) exc) (seq 0 (length P)) = true ->
  f < length P -> existsb (Nat.eqb f) exc = false -> no_protected_write Sg P f = true.
Proof.
  intros Sg P exc f CP FA Hf HE. unfold no_protected_write. rewrite CP. simpl.
  rewrite forallb_forall in FA. specialize (FA f). rewrite HE, orb_false_r in FA. apply FA.
  apply in_seq. lia.
Qed.
