(* C06 — real-number theorems about the generated leaves and the cell / product / normalisation structure. *)
From Coq Require Import ZArith QArith Reals Qreals Lra Lia List Bool Arith Permutation.
From P Require Import C06_model_ops C06_gen C06_model.
Import ListNotations.
Local Open Scope R_scope.

(* ------------------------------------------------------------------ the generated leaves at R *)
Lemma Rltb_true x y : Rltb x y = true <-> x < y.
Proof. unfold Rltb; destruct (Rlt_dec x y); split; intros; try lra; try discriminate; reflexivity. Qed.
Lemma Rltb_false x y : Rltb x y = false <-> y <= x.
Proof. unfold Rltb; destruct (Rlt_dec x y); split; intros; try lra; try discriminate; reflexivity. Qed.

Lemma sq_nn (x : R) : 0 <= x * x.  Proof. apply Rle_0_sqr. Qed.

Lemma Rabs_le_between x a : Rabs x <= a -> - a <= x <= a.
Proof. unfold Rabs; destruct (Rcase_abs x); lra. Qed.

Definition pstep (x : R) : R := 3 / 2 * x - 1 / 2 * (x * x * x).

Lemma switch_step_R x : switch_step ROps x = pstep x.
Proof. unfold switch_step, pstep; cbn; unfold Q2R; cbn; field. Qed.

Lemma pstep_hi x : -2 <= x -> pstep x <= 1.
Proof.
  intros H. unfold pstep.
  assert (0 <= (1 - x) * (1 - x) * (x + 2)) by (apply Rmult_le_pos; [apply sq_nn | lra]). nra.
Qed.
Lemma pstep_lo x : x <= 2 -> -1 <= pstep x.
Proof.
  intros H. unfold pstep.
  assert (0 <= (1 + x) * (1 + x) * (2 - x)) by (apply Rmult_le_pos; [apply sq_nn | lra]). nra.
Qed.
Lemma pstep_range x : -1 <= x <= 1 -> -1 <= pstep x <= 1.
Proof. intros [H1 H2]; split; [apply pstep_lo | apply pstep_hi]; lra. Qed.
Lemma pstep_lt1 x : -1 <= x < 1 -> pstep x < 1.
Proof.
  intros [H1 H2]. unfold pstep.
  assert (0 < (1 - x) * (1 - x) * (x + 2)) by (apply Rmult_lt_0_compat; [apply Rmult_lt_0_compat; lra | lra]). nra.
Qed.
Lemma pstep_odd x : pstep (- x) = - pstep x.
Proof. unfold pstep; ring. Qed.
Lemma pstep_one : pstep 1 = 1.  Proof. unfold pstep; lra. Qed.
Lemma pstep_mone : pstep (-1) = -1.  Proof. unfold pstep; lra. Qed.

Lemma switch_S x k : switch_func ROps x (S k) = pstep (switch_func ROps x k).
Proof. unfold switch_func; cbn [Nat.iter]; apply switch_step_R. Qed.
Lemma switch_0 x : switch_func ROps x 0 = x.  Proof. reflexivity. Qed.

Lemma switch_range_lemma k x : -1 <= x <= 1 -> -1 <= switch_func ROps x k <= 1.
Proof. intros H; induction k; [exact H | rewrite switch_S; apply pstep_range, IHk]. Qed.
Lemma switch_odd_lemma k x : switch_func ROps (- x) k = - switch_func ROps x k.
Proof. induction k; [reflexivity | rewrite !switch_S, IHk; apply pstep_odd]. Qed.
Lemma switch_lt1 k x : -1 <= x < 1 -> -1 <= switch_func ROps x k < 1.
Proof.
  intros H; induction k; [exact H|]. rewrite switch_S. split; [apply pstep_lo; lra | apply pstep_lt1, IHk].
Qed.
Lemma switch_one k : switch_func ROps 1 k = 1.
Proof. induction k; [reflexivity | rewrite switch_S, IHk; apply pstep_one]. Qed.
Lemma switch_mone k : switch_func ROps (-1) k = -1.
Proof. induction k; [reflexivity | rewrite switch_S, IHk; apply pstep_mone]. Qed.

(* alpha: clipping bounds it by the cut-off, and the matrix is antisymmetric (a_BA = - a_AB), clipping included *)
Lemma calculate_alpha_bound ra rb c : 0 <= c -> - c <= calculate_alpha ROps ra rb c <= c.
Proof.
  intros Hc. unfold calculate_alpha. cbn [nltb ROps nopp].
  set (a0 := ndiv ROps _ _).
  destruct (Rltb c a0) eqn:E1.
  - destruct (Rltb c (- c)) eqn:E2; [apply Rltb_true in E2; lra | lra].
  - apply Rltb_false in E1. destruct (Rltb a0 (- c)) eqn:E2; [lra | apply Rltb_false in E2; lra].
Qed.

Lemma calculate_alpha_antisym ra rb c : 0 <= c ->
  calculate_alpha ROps rb ra c = - calculate_alpha ROps ra rb c.
Proof.
  intros Hc. unfold calculate_alpha. cbn [nltb ROps nopp].
  set (a0 := ndiv ROps (ndiv ROps (nsub ROps ra rb) _) _).
  set (b0 := ndiv ROps (ndiv ROps (nsub ROps rb ra) _) _).
  assert (Hb : b0 = - a0).
  { unfold a0, b0; cbn; unfold Q2R; cbn. unfold Rdiv. rewrite (Rplus_comm rb ra).
    set (s := / (ra + rb)).
    replace ((rb - ra) * s * ((rb - ra) * s * 1) - 1 * / 1) with ((ra - rb) * s * ((ra - rb) * s * 1) - 1 * / 1) by ring.
    ring. }
  rewrite Hb.
  destruct (Rltb c a0) eqn:E1; destruct (Rltb c (- a0)) eqn:E2;
    repeat match goal with
    | H : Rltb _ _ = true |- _ => apply Rltb_true in H
    | H : Rltb _ _ = false |- _ => apply Rltb_false in H
    end.
  - lra.
  - destruct (Rltb c (- c)) eqn:E3; destruct (Rltb (- a0) (- c)) eqn:E4;
      repeat match goal with
      | H : Rltb _ _ = true |- _ => apply Rltb_true in H
      | H : Rltb _ _ = false |- _ => apply Rltb_false in H
      end; lra.
  - destruct (Rltb c (- c)) eqn:E3; destruct (Rltb a0 (- c)) eqn:E4;
      repeat match goal with
      | H : Rltb _ _ = true |- _ => apply Rltb_true in H
      | H : Rltb _ _ = false |- _ => apply Rltb_false in H
      end; lra.
  - destruct (Rltb (- a0) (- c)) eqn:E3; destruct (Rltb a0 (- c)) eqn:E4;
      repeat match goal with
      | H : Rltb _ _ = true |- _ => apply Rltb_true in H
      | H : Rltb _ _ = false |- _ => apply Rltb_false in H
      end; lra.
Qed.

Lemma cutoff_default_range : 0 <= cutoff_default ROps <= 1 / 2.
Proof. unfold cutoff_default; cbn; unfold Q2R; cbn; lra. Qed.

(* nu = mu + a (1 - mu^2) and the cell function s = (1 - f_k(nu)) / 2 *)
Definition nuR (mu a : R) : R := mu + a * (1 - mu * mu).
Lemma nu_gw_R mu a : nu_gw ROps mu a = nuR mu a.
Proof. unfold nu_gw, nuR; cbn; unfold Q2R; cbn; field. Qed.
Lemma cell_gw_R k v : cell_gw ROps k v = 1 / 2 * (1 - switch_func ROps v k).
Proof. unfold cell_gw; cbn; unfold Q2R; cbn; field. Qed.

Lemma nuR_range mu a : -1 / 2 <= a <= 1 / 2 -> -1 <= mu <= 1 -> -1 <= nuR mu a <= 1.
Proof.
  intros Ha Hm. unfold nuR. split.
  - assert (0 <= (1 + mu) * (1 + a * (1 - mu))) by (apply Rmult_le_pos; nra). nra.
  - assert (0 <= (1 - mu) * (1 - a * (1 + mu))) by (apply Rmult_le_pos; nra). nra.
Qed.
Lemma nuR_odd mu a : nuR (- mu) (- a) = - nuR mu a.
Proof. unfold nuR; ring. Qed.
Lemma nuR_nearest mu a : -1 / 2 <= a <= 1 / 2 -> -1 <= mu <= 0 -> -1 <= nuR mu a <= 1 / 2.
Proof.
  intros Ha Hm. split; [apply nuR_range; lra|]. unfold nuR.
  assert (0 <= 1 - mu * mu <= 1) by nra. nra.
Qed.

Definition cellR (k : nat) (a mu : R) : R := cell_gw ROps k (nu_gw ROps mu a).

Lemma cell_range_lemma k a mu : -1 / 2 <= a <= 1 / 2 -> -1 <= mu <= 1 -> 0 <= cellR k a mu <= 1.
Proof.
  intros Ha Hm. unfold cellR. rewrite cell_gw_R, nu_gw_R.
  pose proof (switch_range_lemma k _ (nuR_range mu a Ha Hm)). lra.
Qed.
Lemma cell_antisym_lemma k a mu : cellR k (- a) (- mu) + cellR k a mu = 1.
Proof. unfold cellR. rewrite !cell_gw_R, !nu_gw_R, nuR_odd, switch_odd_lemma. lra. Qed.
Lemma cell_pos_nearest k a mu : -1 / 2 <= a <= 1 / 2 -> -1 <= mu <= 0 -> 0 < cellR k a mu.
Proof.
  intros Ha Hm. unfold cellR. rewrite cell_gw_R, nu_gw_R.
  pose proof (nuR_nearest mu a Ha Hm).
  assert (-1 <= nuR mu a < 1) by lra. pose proof (switch_lt1 k _ H0). lra.
Qed.
Lemma cell_at_mone k a : cellR k a (-1) = 1.
Proof.
  unfold cellR. rewrite cell_gw_R, nu_gw_R. replace (nuR (-1) a) with (-1) by (unfold nuR; ring).
  rewrite switch_mone. lra.
Qed.
Lemma cell_at_one k a : cellR k a 1 = 0.
Proof.
  unfold cellR. rewrite cell_gw_R, nu_gw_R. replace (nuR 1 a) with 1 by (unfold nuR; ring).
  rewrite switch_one. lra.
Qed.

(* the two textual copies of the formula (generate_weights / compute_atom_weight) are the same term *)
Lemma copies_agree T (O : NumOps T) k mu a :
  cell_caw O k (nu_caw O mu a) = cell_gw O k (nu_gw O mu a).
Proof. reflexivity. Qed.

(* ------------------------------------------------------------------ sums and products of lists of reals *)
Lemma sumT_R l : sumT ROps l = fold_right Rplus 0 l.  Proof. reflexivity. Qed.
Lemma prodT_R l : prodT ROps l = fold_right Rmult 1 l.  Proof. reflexivity. Qed.

Lemma prod_range l : (forall x, In x l -> 0 <= x <= 1) -> 0 <= fold_right Rmult 1 l <= 1.
Proof.
  induction l as [|x l IH]; cbn [fold_right]; intros H; [lra|].
  assert (0 <= x <= 1) by (apply H; now left).
  assert (0 <= fold_right Rmult 1 l <= 1) by (apply IH; intros; apply H; now right). nra.
Qed.
Lemma prod_pos l : (forall x, In x l -> 0 < x) -> 0 < fold_right Rmult 1 l.
Proof.
  induction l as [|x l IH]; cbn [fold_right]; intros H; [lra|].
  apply Rmult_lt_0_compat; [apply H; now left | apply IH; intros; apply H; now right].
Qed.
Lemma prod_zero l : In 0 l -> fold_right Rmult 1 l = 0.
Proof.
  induction l as [|x l IH]; cbn [fold_right]; intros H; [destruct H|].
  destruct H as [->|H]; [ring | rewrite IH by exact H; ring].
Qed.
Lemma prod_ones l : (forall x, In x l -> x = 1) -> fold_right Rmult 1 l = 1.
Proof.
  induction l as [|x l IH]; cbn [fold_right]; intros H; [reflexivity|].
  rewrite (H x) by now left. rewrite IH; [ring | intros; apply H; now right].
Qed.
Lemma sum_nonneg l : (forall x, In x l -> 0 <= x) -> 0 <= fold_right Rplus 0 l.
Proof.
  induction l as [|x l IH]; cbn [fold_right]; intros H; [lra|].
  assert (0 <= x) by (apply H; now left). assert (0 <= fold_right Rplus 0 l) by (apply IH; intros; apply H; now right). lra.
Qed.
Lemma sum_ge_member l x : (forall y, In y l -> 0 <= y) -> In x l -> x <= fold_right Rplus 0 l.
Proof.
  induction l as [|y l IH]; cbn [fold_right]; intros H Hin; [destruct Hin|].
  assert (0 <= y) by (apply H; now left).
  assert (0 <= fold_right Rplus 0 l) by (apply sum_nonneg; intros; apply H; now right).
  destruct Hin as [->|Hin]; [lra|]. assert (x <= fold_right Rplus 0 l) by (apply IH; [intros; apply H; now right | exact Hin]). lra.
Qed.
Lemma sum_div l s : fold_right Rplus 0 (map (fun x => x / s) l) = fold_right Rplus 0 l / s.
Proof. induction l as [|x l IH]; cbn [fold_right map]; [unfold Rdiv; ring | rewrite IH; unfold Rdiv; ring]. Qed.
Lemma sum_perm l l' : Permutation l l' -> fold_right Rplus 0 l = fold_right Rplus 0 l'.
Proof. induction 1; cbn [fold_right]; lra. Qed.
Lemma prod_perm l l' : Permutation l l' -> fold_right Rmult 1 l = fold_right Rmult 1 l'.
Proof. induction 1; cbn [fold_right]; [reflexivity | now rewrite IHPermutation | ring | congruence]. Qed.

Lemma nth_map_seq {X} (f : nat -> X) n A d : (A < n)%nat -> nth A (map f (seq 0 n)) d = f A.
Proof.
  intros H. rewrite (nth_indep _ d (f 0%nat)) by (rewrite map_length, seq_length; exact H).
  rewrite (map_nth f (seq 0 n) 0%nat A), seq_nth by exact H. reflexivity.
Qed.
Lemma sum_single (f : nat -> R) n A : (A < n)%nat -> (forall B, (B < n)%nat -> B <> A -> f B = 0) ->
  fold_right Rplus 0 (map f (seq 0 n)) = f A.
Proof.
  intros HA H0.
  assert (G : forall len st, (forall B, In B (seq st len) -> B <> A -> f B = 0) ->
              fold_right Rplus 0 (map f (seq st len)) = if (st <=? A)%nat && (A <? st + len)%nat then f A else 0).
  { induction len as [|len IH]; intros st Hz; cbn [seq map fold_right].
    - destruct (Nat.leb_spec st A), (Nat.ltb_spec A (st + 0)); cbn; try reflexivity; lia.
    - rewrite IH by (intros; apply Hz; [cbn; now right | assumption]).
      destruct (Nat.eq_dec st A) as [->|Hne].
      + replace (S A <=? A)%nat with false by (symmetry; apply Nat.leb_gt; lia). cbn [andb].
        rewrite Nat.leb_refl. replace (A <? A + S len)%nat with true by (symmetry; apply Nat.ltb_lt; lia). cbn; lra.
      + rewrite (Hz st); [| cbn; now left | exact Hne].
        destruct (Nat.leb_spec (S st) A), (Nat.leb_spec st A), (Nat.ltb_spec A (S st + len)), (Nat.ltb_spec A (st + S len));
          cbn [andb]; try lra; lia. }
  rewrite G by (intros B HB; apply H0; apply in_seq in HB; lia).
  replace (0 <=? A)%nat with true by (symmetry; apply Nat.leb_le; lia).
  replace (A <? 0 + n)%nat with true by (symmetry; apply Nat.ltb_lt; lia). reflexivity.
Qed.

(* ------------------------------------------------------------------ Becke weights at R *)
Section WeightsR.
Variable k : nat.
Variable M : nat.
Variable rad : nat -> R.
Variable Rm : nat -> nat -> R.

Definition aR (A B : nat) : R := alpha_of ROps rad A B.
Definition muR (d : nat -> R) (A B : nat) : R := mu_of ROps Rm d A B.
Definition sR (d : nat -> R) (A B : nat) : R := s_gw ROps k rad Rm d A B.
Definition PR (d : nat -> R) (A : nat) : R := fold_right Rmult 1 (map (sR d A) (seq 0 M)).
Definition wR (d : nat -> R) (A : nat) : R := becke_weight ROps k M rad Rm d A.

Lemma aR_bound A B : -1 / 2 <= aR A B <= 1 / 2.
Proof.
  unfold aR, alpha_of. pose proof cutoff_default_range as Hc.
  pose proof (calculate_alpha_bound (rad A) (rad B) (cutoff_default ROps) (proj1 Hc)). lra.
Qed.
Lemma aR_antisym A B : aR B A = - aR A B.
Proof. unfold aR, alpha_of. apply calculate_alpha_antisym, cutoff_default_range. Qed.

Lemma sR_off d A B : A <> B -> sR d A B = cellR k (aR A B) (muR d A B).
Proof. intros H. unfold sR, s_gw. apply Nat.eqb_neq in H. rewrite H. reflexivity. Qed.
Lemma sR_diag d A : sR d A A = 1.
Proof. unfold sR, s_gw. rewrite Nat.eqb_refl. reflexivity. Qed.

(* well-formed distance data of one point: distinct atoms, triangle inequality *)
Definition wf_point (d : nat -> R) : Prop :=
  forall A B, (A < M)%nat -> (B < M)%nat -> A <> B -> 0 < Rm A B /\ Rabs (d A - d B) <= Rm A B.
Definition sym_dist : Prop := forall A B, (A < M)%nat -> (B < M)%nat -> Rm A B = Rm B A.

Lemma muR_range d A B : wf_point d -> (A < M)%nat -> (B < M)%nat -> A <> B -> -1 <= muR d A B <= 1.
Proof.
  intros W HA HB Hne. destruct (W A B HA HB Hne) as [Hp Ht]. unfold muR, mu_of; cbn.
  apply Rabs_le_between in Ht. split.
  - apply Rmult_le_reg_r with (Rm A B); [exact Hp|]. unfold Rdiv. rewrite Rmult_assoc, Rinv_l by lra. lra.
  - apply Rmult_le_reg_r with (Rm A B); [exact Hp|]. unfold Rdiv. rewrite Rmult_assoc, Rinv_l by lra. lra.
Qed.
Lemma muR_antisym d A B : Rm A B = Rm B A -> muR d B A = - muR d A B.
Proof. intros H. unfold muR, mu_of; cbn. rewrite H. unfold Rdiv; ring. Qed.

Lemma sR_range d A B : wf_point d -> (A < M)%nat -> (B < M)%nat -> 0 <= sR d A B <= 1.
Proof.
  intros W HA HB. destruct (Nat.eq_dec A B) as [->|Hne]; [rewrite sR_diag; lra|].
  rewrite sR_off by exact Hne. apply cell_range_lemma; [apply aR_bound | apply muR_range; assumption].
Qed.
Lemma sR_antisym d A B : sym_dist -> (A < M)%nat -> (B < M)%nat -> A <> B -> sR d A B + sR d B A = 1.
Proof.
  intros S HA HB Hne. rewrite !sR_off by congruence. rewrite (aR_antisym A B), (muR_antisym d A B) by (apply S; assumption).
  rewrite Rplus_comm. apply cell_antisym_lemma.
Qed.

Lemma PR_range d A : wf_point d -> (A < M)%nat -> 0 <= PR d A <= 1.
Proof.
  intros W HA. apply prod_range. intros x Hx. apply in_map_iff in Hx as [B [<- HB]]. apply in_seq in HB.
  apply sR_range; [assumption | assumption | lia].
Qed.

(* an atom that is nearest to the point has a strictly positive cell product *)
Lemma PR_nearest_pos d A : wf_point d -> (A < M)%nat -> (forall B, (B < M)%nat -> d A <= d B) -> 0 < PR d A.
Proof.
  intros W HA Hn. apply prod_pos. intros x Hx. apply in_map_iff in Hx as [B [<- HB]]. apply in_seq in HB.
  destruct (Nat.eq_dec A B) as [->|Hne]; [rewrite sR_diag; lra|].
  rewrite sR_off by exact Hne. apply cell_pos_nearest; [apply aR_bound|].
  assert (HB' : (B < M)%nat) by lia. pose proof (muR_range d A B W HA HB' Hne) as Hr. split; [lra|].
  destruct (W A B HA HB' Hne) as [Hp _]. unfold muR, mu_of; cbn.
  specialize (Hn B HB'). unfold Rdiv. assert (0 < / Rm A B) by (apply Rinv_0_lt_compat; exact Hp). nra.
Qed.

Lemma exists_nearest (d : nat -> R) : (0 < M)%nat -> exists A, (A < M)%nat /\ forall B, (B < M)%nat -> d A <= d B.
Proof.
  induction M as [|n IH]; intros H; [lia|].
  destruct n as [|n].
  - exists 0%nat. split; [lia|]. intros B HB. assert (B = 0%nat) by lia. subst; lra.
  - destruct IH as [A [HA Hmin]]; [lia|].
    destruct (Rle_dec (d A) (d (S n))) as [Hle|Hgt].
    + exists A. split; [lia|]. intros B HB. destruct (Nat.eq_dec B (S n)) as [->|Hne]; [exact Hle | apply Hmin; lia].
    + exists (S n). split; [lia|]. intros B HB. destruct (Nat.eq_dec B (S n)) as [->|Hne]; [lra|].
      specialize (Hmin B ltac:(lia)). lra.
Qed.

Definition denomR (d : nat -> R) : R := fold_right Rplus 0 (map (PR d) (seq 0 M)).

Lemma denominator_pos_lemma d : (0 < M)%nat -> wf_point d -> 0 < denomR d.
Proof.
  intros HM W. destruct (exists_nearest d HM) as [A [HA Hn]].
  pose proof (PR_nearest_pos d A W HA Hn) as Hp.
  assert (PR d A <= denomR d).
  { apply sum_ge_member; [| apply in_map, in_seq; lia].
    intros y Hy. apply in_map_iff in Hy as [B [<- HB]]. apply in_seq in HB. apply PR_range; [exact W | lia]. }
  lra.
Qed.

Lemma wR_unfold d A : (A < M)%nat -> wR d A = PR d A / denomR d.
Proof.
  intros HA. unfold wR, becke_weight, wrow, prods_gw. cbn [ndiv ROps nzero]. rewrite sumT_R.
  rewrite nth_map_seq by exact HA. reflexivity.
Qed.

Lemma weight_range_lemma d A : (0 < M)%nat -> wf_point d -> (A < M)%nat -> 0 <= wR d A <= 1.
Proof.
  intros HM W HA. rewrite wR_unfold by exact HA. pose proof (denominator_pos_lemma d HM W) as Hd.
  pose proof (PR_range d A W HA) as [Hp _].
  assert (PR d A <= denomR d).
  { apply sum_ge_member; [| apply in_map, in_seq; lia].
    intros y Hy. apply in_map_iff in Hy as [B [<- HB]]. apply in_seq in HB. apply PR_range; [exact W | lia]. }
  split.
  - apply Rmult_le_reg_r with (denomR d); [exact Hd|]. unfold Rdiv. rewrite Rmult_assoc, Rinv_l by lra. lra.
  - apply Rmult_le_reg_r with (denomR d); [exact Hd|]. unfold Rdiv. rewrite Rmult_assoc, Rinv_l by lra. lra.
Qed.

Lemma sum_to_one_lemma d : (0 < M)%nat -> wf_point d -> fold_right Rplus 0 (map (wR d) (seq 0 M)) = 1.
Proof.
  intros HM W. pose proof (denominator_pos_lemma d HM W) as Hd.
  rewrite (map_ext_in (wR d) (fun A => PR d A / denomR d)) by (intros A HA; apply in_seq in HA; apply wR_unfold; lia).
  rewrite <- (map_map (PR d) (fun x => x / denomR d)), sum_div. fold (denomR d). field. lra.
Qed.

(* two atoms: the weight is the cell function itself *)
Lemma two_atoms_lemma d : M = 2%nat -> wf_point d -> sym_dist -> wR d 0 = sR d 0 1.
Proof.
  intros HM W S. rewrite wR_unfold by lia. unfold denomR, PR. rewrite HM. cbn [seq map fold_right].
  rewrite !sR_diag. pose proof (sR_antisym d 0 1 S ltac:(lia) ltac:(lia) ltac:(lia)) as H.
  replace (1 * (sR d 0 1 * 1) + (sR d 1 0 * (1 * 1) + 0)) with 1 by lra. unfold Rdiv. rewrite Rinv_1. ring.
Qed.

(* the point is the nucleus of atom A0 *)
Definition at_nucleus (d : nat -> R) (A0 : nat) : Prop :=
  d A0 = 0 /\ forall B, (B < M)%nat -> B <> A0 -> 0 < Rm A0 B /\ d B = Rm A0 B /\ Rm B A0 = Rm A0 B.

Lemma PR_nucleus_own d A0 : at_nucleus d A0 -> PR d A0 = 1.
Proof.
  intros [H0 HB]. apply prod_ones. intros x Hx. apply in_map_iff in Hx as [B [<- Hin]]. apply in_seq in Hin.
  destruct (Nat.eq_dec A0 B) as [->|Hne]; [apply sR_diag|]. rewrite sR_off by exact Hne.
  destruct (HB B ltac:(lia) ltac:(congruence)) as (Hp & Hd & _).
  replace (muR d A0 B) with (-1); [apply cell_at_mone|].
  unfold muR, mu_of; cbn. rewrite H0, Hd. field. lra.
Qed.
Lemma PR_nucleus_other d A0 B : (A0 < M)%nat -> (B < M)%nat -> B <> A0 -> at_nucleus d A0 -> PR d B = 0.
Proof.
  intros HA HB Hne [H0 Hall]. apply prod_zero. apply in_map_iff. exists A0. split; [|apply in_seq; lia].
  rewrite sR_off by exact Hne. destruct (Hall B HB Hne) as (Hp & Hd & Hs).
  replace (muR d B A0) with 1; [apply cell_at_one|].
  unfold muR, mu_of; cbn. rewrite H0, Hd, Hs. field. lra.
Qed.
Lemma nucleus_values_lemma d A0 : (A0 < M)%nat -> at_nucleus d A0 ->
  wR d A0 = 1 /\ forall B, (B < M)%nat -> B <> A0 -> wR d B = 0.
Proof.
  intros HA Hn.
  assert (Hden : denomR d = 1).
  { unfold denomR. rewrite (sum_single (PR d) M A0 HA); [apply PR_nucleus_own; exact Hn|].
    intros B HB Hne. apply PR_nucleus_other with A0; assumption. }
  split.
  - rewrite wR_unfold, Hden, PR_nucleus_own by assumption. field.
  - intros B HB Hne. rewrite wR_unfold, Hden, (PR_nucleus_other d A0 B) by assumption. field.
Qed.
End WeightsR.

(* ------------------------------------------------------------------ the weights depend on the data at indices < M only *)
Lemma weight_ext k M rad rad' Rm Rm' d d' A :
  (forall B, (B < M)%nat -> rad B = rad' B) ->
  (forall B C, (B < M)%nat -> (C < M)%nat -> Rm B C = Rm' B C) ->
  (forall B, (B < M)%nat -> d B = d' B) -> (A < M)%nat ->
  wR k M rad Rm d A = wR k M rad' Rm' d' A.
Proof.
  intros Hr HR Hd HA.
  assert (HP : forall B, (B < M)%nat -> PR k M rad Rm d B = PR k M rad' Rm' d' B).
  { intros B HB. unfold PR. f_equal. apply map_ext_in. intros C HC. apply in_seq in HC.
    unfold sR, s_gw. destruct (Nat.eqb B C); [reflexivity|].
    unfold alpha_of, mu_of. rewrite (Hr B), (Hr C), (HR B C), (Hd B), (Hd C) by lia. reflexivity. }
  rewrite !wR_unfold by exact HA. unfold denomR. rewrite (HP A HA). f_equal.
  f_equal. apply map_ext_in. intros B HB. apply in_seq in HB. apply HP; lia.
Qed.

(* ------------------------------------------------------------------ relabeling of atoms *)
Lemma perm_of_bijection (sg : nat -> nat) M :
  (forall A, (A < M)%nat -> (sg A < M)%nat) ->
  (forall A B, (A < M)%nat -> (B < M)%nat -> sg A = sg B -> A = B) ->
  Permutation (map sg (seq 0 M)) (seq 0 M).
Proof.
  intros Hr Hi. apply NoDup_Permutation_bis.
  - assert (G : forall l, NoDup l -> (forall x, In x l -> (x < M)%nat) -> NoDup (map sg l)).
    { induction l as [|x l IH]; intros Hnd Hl; cbn [map]; [constructor|].
      inversion Hnd; subst. constructor; [|apply IH; [assumption | intros; apply Hl; now right]].
      intros Hin. apply in_map_iff in Hin as [y [Hy Hyin]].
      assert (y = x) by (apply Hi; [apply Hl; now right | apply Hl; now left | exact Hy]). subst. contradiction. }
    apply G; [apply seq_NoDup | intros x Hx; apply in_seq in Hx; lia].
  - rewrite map_length. lia.
  - intros x Hx. apply in_map_iff in Hx as [y [<- Hy]]. apply in_seq in Hy. apply in_seq. specialize (Hr y). lia.
Qed.

Lemma relabel_lemma k M rad Rm d (sg : nat -> nat) A :
  (forall A, (A < M)%nat -> (sg A < M)%nat) ->
  (forall A B, (A < M)%nat -> (B < M)%nat -> sg A = sg B -> A = B) -> (A < M)%nat ->
  wR k M (fun B => rad (sg B)) (fun B C => Rm (sg B) (sg C)) (fun B => d (sg B)) A = wR k M rad Rm d (sg A).
Proof.
  intros Hr Hi HA. pose proof (perm_of_bijection sg M Hr Hi) as HP.
  assert (HPR : forall B, (B < M)%nat ->
            PR k M (fun B => rad (sg B)) (fun B C => Rm (sg B) (sg C)) (fun B => d (sg B)) B = PR k M rad Rm d (sg B)).
  { intros B HB. unfold PR.
    rewrite <- (prod_perm _ _ (Permutation_map (sR k rad Rm d (sg B)) HP)). rewrite map_map.
    f_equal. apply map_ext_in. intros C HC. apply in_seq in HC. unfold sR, s_gw.
    destruct (Nat.eqb_spec B C) as [->|Hne]; [rewrite Nat.eqb_refl; reflexivity|].
    destruct (Nat.eqb_spec (sg B) (sg C)) as [He|_]; [exfalso; apply Hne, Hi; [lia | lia | exact He]|].
    reflexivity. }
  rewrite !wR_unfold by (try apply Hr; exact HA). rewrite (HPR A HA). f_equal. unfold denomR.
  rewrite <- (sum_perm _ _ (Permutation_map (PR k M rad Rm d) HP)). rewrite map_map.
  f_equal. apply map_ext_in. intros B HB. apply in_seq in HB. apply HPR; lia.
Qed.

(* ------------------------------------------------------------------ Hirshfeld shares *)
Lemma hirshfeld_sum_lemma M (rho : nat -> R -> R) (d : nat -> R) :
  fold_right Rplus 0 (map (fun B => rho B (d B)) (seq 0 M)) <> 0 ->
  fold_right Rplus 0 (map (hirshfeld_weight ROps M rho d) (seq 0 M)) = 1.
Proof.
  intros H. unfold hirshfeld_weight. cbn [ndiv nadd nzero ROps].
  set (S := fold_right Rplus 0 (map (fun B => rho B (d B)) (seq 0 M))) in *.
  rewrite <- (map_map (fun B => rho B (d B)) (fun x => x / S)), sum_div. fold S. field. exact H.
Qed.

(* ------------------------------------------------------------------ statements in the form used by C06_props.v *)
Lemma alpha_bound_lemma ra rb : -1 / 2 <= calculate_alpha ROps ra rb (cutoff_default ROps) <= 1 / 2.
Proof. exact (aR_bound (fun A => match A with O => ra | _ => rb end) 0 1). Qed.
Lemma alpha_antisym_lemma ra rb :
  calculate_alpha ROps rb ra (cutoff_default ROps) = - calculate_alpha ROps ra rb (cutoff_default ROps).
Proof. exact (calculate_alpha_antisym ra rb _ (proj1 cutoff_default_range)). Qed.
Lemma nu_range_lemma mu a : -1 / 2 <= a <= 1 / 2 -> -1 <= mu <= 1 -> -1 <= nu_gw ROps mu a <= 1.
Proof. intros Ha Hm. rewrite nu_gw_R. exact (nuR_range mu a Ha Hm). Qed.
Lemma weight_range_lemma' k M rad Rm d A : (0 < M)%nat -> wf_point M Rm d -> (A < M)%nat ->
  0 <= becke_weight ROps k M rad Rm d A <= 1.
Proof. intros. apply weight_range_lemma; assumption. Qed.
