(* C06 property theorems (statements only; proofs are in C06_proofs_*.v). *)
From Coq Require Import ZArith QArith Reals Qreals List Bool Arith.
From Bignums Require Import BigQ.
From P Require Import C06_model_ops C06_gen C06_model C06_proofs_real C06_proofs_list C06_proofs_geom.
Import ListNotations.
Local Open Scope R_scope.

(* the iterated switching polynomial (generated from _switch_func) maps [-1,1] into itself and is odd, every order *)
Theorem switch_range : forall k x, -1 <= x <= 1 -> -1 <= switch_func ROps x k <= 1.
Proof. exact switch_range_lemma. Qed.
Print Assumptions switch_range.

Theorem switch_odd : forall k x, switch_func ROps (- x) k = - switch_func ROps x k.
Proof. exact switch_odd_lemma. Qed.
Print Assumptions switch_odd.

(* alpha (generated from _calculate_alpha, clipping included) stays within [-1/2, 1/2] for ANY radii and is
   antisymmetric: a_BA = - a_AB *)
Theorem alpha_bound : forall ra rb, -1 / 2 <= calculate_alpha ROps ra rb (cutoff_default ROps) <= 1 / 2.
Proof. exact alpha_bound_lemma. Qed.
Print Assumptions alpha_bound.

Theorem alpha_antisym : forall ra rb,
  calculate_alpha ROps rb ra (cutoff_default ROps) = - calculate_alpha ROps ra rb (cutoff_default ROps).
Proof. exact alpha_antisym_lemma. Qed.
Print Assumptions alpha_antisym.

(* nu stays in [-1,1] and the cell function in [0,1] *)
Theorem nu_range : forall mu a, -1 / 2 <= a <= 1 / 2 -> -1 <= mu <= 1 -> -1 <= nu_gw ROps mu a <= 1.
Proof. exact nu_range_lemma. Qed.
Print Assumptions nu_range.

Theorem cell_range : forall k a mu, -1 / 2 <= a <= 1 / 2 -> -1 <= mu <= 1 ->
  0 <= cell_gw ROps k (nu_gw ROps mu a) <= 1.
Proof. exact cell_range_lemma. Qed.
Print Assumptions cell_range.

(* s_AB + s_BA = 1 on any symmetric distance matrix *)
Theorem cell_antisym : forall k M rad Rm d A B, sym_dist M Rm -> (A < M)%nat -> (B < M)%nat -> A <> B ->
  s_gw ROps k rad Rm d A B + s_gw ROps k rad Rm d B A = 1.
Proof. exact sR_antisym. Qed.
Print Assumptions cell_antisym.

(* the normalisation denominator is strictly positive (the nearest atom has a positive cell product) *)
Theorem denominator_pos : forall k M rad Rm d, (0 < M)%nat -> wf_point M Rm d ->
  0 < sumT ROps (prods_gw ROps k M rad Rm d).
Proof. exact denominator_pos_lemma. Qed.
Print Assumptions denominator_pos.

Theorem weight_range : forall k M rad Rm d A, (0 < M)%nat -> wf_point M Rm d -> (A < M)%nat ->
  0 <= becke_weight ROps k M rad Rm d A <= 1.
Proof. exact weight_range_lemma'. Qed.
Print Assumptions weight_range.

Theorem sum_to_one : forall k M rad Rm d, (0 < M)%nat -> wf_point M Rm d ->
  fold_right Rplus 0 (map (becke_weight ROps k M rad Rm d) (seq 0 M)) = 1.
Proof. exact sum_to_one_lemma. Qed.
Print Assumptions sum_to_one.

Theorem nucleus_values : forall k M rad Rm d A0, (A0 < M)%nat -> at_nucleus M Rm d A0 ->
  becke_weight ROps k M rad Rm d A0 = 1 /\
  forall B, (B < M)%nat -> B <> A0 -> becke_weight ROps k M rad Rm d B = 0.
Proof. exact nucleus_values_lemma. Qed.
Print Assumptions nucleus_values.

(* the weights are a function of the radii and distances at the atom indices only *)
Theorem distance_only : forall k M rad rad' Rm Rm' d d' A,
  (forall B, (B < M)%nat -> rad B = rad' B) ->
  (forall B C, (B < M)%nat -> (C < M)%nat -> Rm B C = Rm' B C) ->
  (forall B, (B < M)%nat -> d B = d' B) -> (A < M)%nat ->
  becke_weight ROps k M rad Rm d A = becke_weight ROps k M rad' Rm' d' A.
Proof. exact weight_ext. Qed.
Print Assumptions distance_only.

(* consistent relabeling of the atoms permutes the weights *)
Theorem relabel_equivariant : forall k M rad Rm d (sg : nat -> nat) A,
  (forall A, (A < M)%nat -> (sg A < M)%nat) ->
  (forall A B, (A < M)%nat -> (B < M)%nat -> sg A = sg B -> A = B) -> (A < M)%nat ->
  becke_weight ROps k M (fun B => rad (sg B)) (fun B C => Rm (sg B) (sg C)) (fun B => d (sg B)) A =
  becke_weight ROps k M rad Rm d (sg A).
Proof. exact relabel_lemma. Qed.
Print Assumptions relabel_equivariant.

(* Euclidean geometries: distinct positions give well-formed distance data (triangle inequality discharged) *)
Theorem euclid_wf : forall atoms p, NoDup atoms -> wf_point (length atoms) (geom_R atoms) (geom_d atoms p).
Proof. exact euclid_wf_lemma. Qed.
Print Assumptions euclid_wf.

Theorem becke_partition_euclid : forall k rad atoms p, NoDup atoms -> atoms <> [] ->
  (forall A, (A < length atoms)%nat -> 0 <= becke_geom k rad atoms p A <= 1) /\
  fold_right Rplus 0 (map (becke_geom k rad atoms p) (seq 0 (length atoms))) = 1 /\
  (forall A, (A < length atoms)%nat ->
     becke_geom k rad atoms (nth A atoms origin) A = 1 /\
     forall B, (B < length atoms)%nat -> B <> A -> becke_geom k rad atoms (nth A atoms origin) B = 0).
Proof. exact becke_partition_euclid_lemma. Qed.
Print Assumptions becke_partition_euclid.

Theorem rigid_motion_invariant : forall k rad atoms p A (f : pt -> pt), isometry f -> (A < length atoms)%nat ->
  becke_geom k rad (map f atoms) (f p) A = becke_geom k rad atoms p A.
Proof. exact rigid_motion_lemma. Qed.
Print Assumptions rigid_motion_invariant.

Theorem affine_isometry : forall q11 q12 q13 q21 q22 q23 q31 q32 q33 t1 t2 t3,
  q11 * q11 + q21 * q21 + q31 * q31 = 1 -> q12 * q12 + q22 * q22 + q32 * q32 = 1 -> q13 * q13 + q23 * q23 + q33 * q33 = 1 ->
  q11 * q12 + q21 * q22 + q31 * q32 = 0 -> q11 * q13 + q21 * q23 + q31 * q33 = 0 -> q12 * q13 + q22 * q23 + q32 * q33 = 0 ->
  isometry (affine q11 q12 q13 q21 q22 q23 q31 q32 q33 t1 t2 t3).
Proof. exact affine_isometry_lemma. Qed.
Print Assumptions affine_isometry.

(* the three routes are the same function: segment-wise routes for EVERY select and segment table, per-atom route
   for every atom *)
Theorem routes_agree : forall k M rad Rm pts sel idx,
  compute_weights ROps k M rad Rm pts sel idx = generate_weights ROps k M rad Rm pts sel idx.
Proof. exact routes_agree_lemma. Qed.
Print Assumptions routes_agree.

Theorem routes_agree_atom : forall k M rad Rm pts A,
  generate_weights ROps k M rad Rm pts [A] [] = Some (compute_atom_weight ROps k M rad Rm pts A) /\
  compute_atom_weight ROps k M rad Rm pts A = map (fun d => becke_weight ROps k M rad Rm d A) pts.
Proof. exact routes_agree_atom_lemma. Qed.
Print Assumptions routes_agree_atom.

(* chunked evaluation = unchunked evaluation for EVERY chunk size >= 1 and EVERY index table of length M+1
   (monotone or not), any number of points *)
Theorem chunked_eq_unchunked : forall k M rad Rm cs pts idx, (1 <= cs)%nat -> (1 <= M)%nat -> length idx = S M ->
  call_with ROps k M rad Rm cs pts idx = generate_weights ROps k M rad Rm pts (seq 0 M) idx.
Proof. exact chunked_eq_unchunked_lemma. Qed.
Print Assumptions chunked_eq_unchunked.

(* __call__ (generated chunk-size formula): every point of segment A receives the Becke weight of atom A *)
Theorem call_segment_owner : forall k M rad Rm pts idx A j,
  (1 <= M)%nat -> length idx = S M -> monotone idx -> (A < M)%nat -> (j < length pts)%nat ->
  (nth A idx 0 <= j < nth (S A) idx 0)%nat ->
  exists l, call ROps k M rad Rm pts idx = Some l /\ length l = length pts /\
            nth j l 0 = becke_weight ROps k M rad Rm (nth j pts d0) A.
Proof. exact segment_owner_lemma. Qed.
Print Assumptions call_segment_owner.

(* Hirshfeld: shares of the pro-atom densities sum to one wherever the pro-molecule density is non-zero, and
   __call__ returns the share of the atom owning the point *)
Theorem hirshfeld_sum_to_one : forall M (rho : nat -> R -> R) (d : nat -> R),
  fold_right Rplus 0 (map (fun B => rho B (d B)) (seq 0 M)) <> 0 ->
  fold_right Rplus 0 (map (hirshfeld_weight ROps M rho d) (seq 0 M)) = 1.
Proof. exact hirshfeld_sum_lemma. Qed.
Print Assumptions hirshfeld_sum_to_one.

Theorem hirshfeld_call_share : forall M rho pts idx A j,
  length idx = S M -> monotone idx -> (A < M)%nat -> (j < length pts)%nat ->
  (nth A idx 0 <= j < nth (S A) idx 0)%nat ->
  nth j (hirshfeld_call ROps M rho pts idx) 0 = hirshfeld_weight ROps M rho (nth j pts d0) A.
Proof. exact hirshfeld_call_share_lemma. Qed.
Print Assumptions hirshfeld_call_share.
