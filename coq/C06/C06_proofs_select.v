(* C06 — executed refutation (bigQ) of route equality for an explicit non-identity `select`. *)
From Coq Require Import ZArith QArith List Bool Arith.
From Bignums Require Import BigQ.
From P Require Import C06_model_ops C06_gen C06_model.
Import ListNotations.

(* ---- explicit `select` that is not 0..M-1: generate_weights pairs select[i] with segment i, compute_weights pairs
        atom i with segment i for i in select; executed at bigQ on H2 (order 1), points = the two nuclei ---- *)
Local Open Scope nat_scope.
Definition refute_rad : nat -> bigQ := fun _ => 1%bigQ.
Definition refute_Rm : nat -> nat -> bigQ := fun A B => if Nat.eqb A B then 0%bigQ else 2%bigQ.
Definition refute_pts : list (nat -> bigQ) :=
  [fun A => match A with 0 => 0%bigQ | _ => 2%bigQ end; fun A => match A with 0 => 2%bigQ | _ => 0%bigQ end].
Definition list_eqQ (a b : list bigQ) : bool :=
  (length a =? length b) && forallb (fun p => BigQ.eqb (fst p) (snd p)) (combine a b).
Lemma routes_select_refuted_lemma :
  exists a b, generate_weights QOps 1 2 refute_rad refute_Rm refute_pts [1; 0] [0; 1; 2] = Some a /\
              compute_weights QOps 1 2 refute_rad refute_Rm refute_pts [1; 0] [0; 1; 2] = Some b /\
              list_eqQ a [0%bigQ; 0%bigQ] = true /\ list_eqQ b [1%bigQ; 1%bigQ] = true.
Proof. eexists; eexists. repeat split; vm_compute; reflexivity. Qed.

