(* C06 — Euclidean layer: the distance data of real geometries satisfies the hypotheses of the weight theorems
   (triangle inequality, positive separation of distinct atoms), and the weights are invariant under isometries. *)
From Coq Require Import ZArith QArith Reals Qreals Lra Lia List Bool Arith.
From P Require Import C06_model_ops C06_gen C06_model C06_proofs_real.
Import ListNotations.
Local Open Scope R_scope.

Definition pt : Type := (R * R * R)%type.
Definition px (p : pt) := fst (fst p).
Definition py (p : pt) := snd (fst p).
Definition pz (p : pt) := snd p.
Definition origin : pt := (0, 0, 0).
Definition nrm2 (x y z : R) : R := x * x + y * y + z * z.
Definition dist (p q : pt) : R := sqrt (nrm2 (px p - px q) (py p - py q) (pz p - pz q)).

Lemma nrm2_nn x y z : 0 <= nrm2 x y z.
Proof. unfold nrm2. pose proof (sq_nn x); pose proof (sq_nn y); pose proof (sq_nn z). lra. Qed.
Lemma dist_nn p q : 0 <= dist p q.  Proof. apply sqrt_pos. Qed.
Lemma dist_sym p q : dist p q = dist q p.
Proof. unfold dist. f_equal. unfold nrm2. ring. Qed.
Lemma dist_refl p : dist p p = 0.
Proof. unfold dist. replace (nrm2 _ _ _) with 0 by (unfold nrm2; ring). apply sqrt_0. Qed.
Lemma dist_pos p q : p <> q -> 0 < dist p q.
Proof.
  intros H. unfold dist. apply sqrt_lt_R0.
  destruct p as [[a b] c], q as [[a' b'] c']. unfold px, py, pz, nrm2; cbn [fst snd].
  destruct (Req_dec a a') as [->|Ha]; [destruct (Req_dec b b') as [->|Hb]; [destruct (Req_dec c c') as [->|Hc]|]|].
  - exfalso; apply H; reflexivity.
  - pose proof (sq_nn (a' - a')); pose proof (sq_nn (b' - b')).
    assert (0 < (c - c') * (c - c')) by (apply Rsqr_pos_lt; lra). lra.
  - pose proof (sq_nn (a' - a')); pose proof (sq_nn (c - c')).
    assert (0 < (b - b') * (b - b')) by (apply Rsqr_pos_lt; lra). lra.
  - pose proof (sq_nn (b - b')); pose proof (sq_nn (c - c')).
    assert (0 < (a - a') * (a - a')) by (apply Rsqr_pos_lt; lra). lra.
Qed.

(* Cauchy-Schwarz and the triangle inequality in R^3 *)
Lemma cauchy_schwarz u1 u2 u3 v1 v2 v3 :
  u1 * v1 + u2 * v2 + u3 * v3 <= sqrt (nrm2 u1 u2 u3) * sqrt (nrm2 v1 v2 v3).
Proof.
  rewrite <- sqrt_mult by apply nrm2_nn.
  destruct (Rle_dec (u1 * v1 + u2 * v2 + u3 * v3) 0) as [Hn|Hp].
  - pose proof (sqrt_pos (nrm2 u1 u2 u3 * nrm2 v1 v2 v3)). lra.
  - rewrite <- (sqrt_square (u1 * v1 + u2 * v2 + u3 * v3)) by lra.
    apply sqrt_le_1_alt. unfold nrm2.
    pose proof (sq_nn (u1 * v2 - u2 * v1)); pose proof (sq_nn (u1 * v3 - u3 * v1)); pose proof (sq_nn (u2 * v3 - u3 * v2)).
    nra.
Qed.

Lemma nrm_triangle u1 u2 u3 v1 v2 v3 :
  sqrt (nrm2 (u1 + v1) (u2 + v2) (u3 + v3)) <= sqrt (nrm2 u1 u2 u3) + sqrt (nrm2 v1 v2 v3).
Proof.
  pose proof (sqrt_pos (nrm2 u1 u2 u3)) as Hu. pose proof (sqrt_pos (nrm2 v1 v2 v3)) as Hv.
  rewrite <- (sqrt_square (sqrt (nrm2 u1 u2 u3) + sqrt (nrm2 v1 v2 v3))) by lra.
  apply sqrt_le_1_alt.
  pose proof (cauchy_schwarz u1 u2 u3 v1 v2 v3) as CS.
  pose proof (sqrt_sqrt _ (nrm2_nn u1 u2 u3)) as Su. pose proof (sqrt_sqrt _ (nrm2_nn v1 v2 v3)) as Sv.
  unfold nrm2 in *. nra.
Qed.

Lemma dist_triangle p q r : dist p r <= dist p q + dist q r.
Proof.
  unfold dist.
  replace (px p - px r) with ((px p - px q) + (px q - px r)) by ring.
  replace (py p - py r) with ((py p - py q) + (py q - py r)) by ring.
  replace (pz p - pz r) with ((pz p - pz q) + (pz q - pz r)) by ring.
  apply nrm_triangle.
Qed.

(* ---- the distance data of a real geometry ---- *)
Definition geom_d (atoms : list pt) (p : pt) : nat -> R := fun A => dist (nth A atoms origin) p.
Definition geom_R (atoms : list pt) : nat -> nat -> R := fun A B => dist (nth A atoms origin) (nth B atoms origin).

Lemma euclid_wf_lemma atoms p : NoDup atoms -> wf_point (length atoms) (geom_R atoms) (geom_d atoms p).
Proof.
  intros Hnd A B HA HB Hne. unfold geom_R, geom_d. split.
  - apply dist_pos. intros E. apply Hne. apply (proj1 (NoDup_nth atoms origin) Hnd A B HA HB E).
  - set (a := nth A atoms origin). set (b := nth B atoms origin).
    pose proof (dist_triangle a b p). pose proof (dist_triangle b a p). rewrite (dist_sym b a) in *.
    apply Rabs_le. lra.
Qed.
Lemma euclid_sym_lemma atoms : sym_dist (length atoms) (geom_R atoms).
Proof. intros A B _ _. apply dist_sym. Qed.
Lemma euclid_nucleus_lemma atoms A : NoDup atoms -> (A < length atoms)%nat ->
  at_nucleus (length atoms) (geom_R atoms) (geom_d atoms (nth A atoms origin)) A.
Proof.
  intros Hnd HA. split; [apply dist_refl|]. intros B HB Hne. unfold geom_R, geom_d. repeat split.
  - apply dist_pos. intros E. apply Hne. symmetry. apply (proj1 (NoDup_nth atoms origin) Hnd A B HA HB E).
  - apply dist_sym.
  - apply dist_sym.
Qed.

(* the Becke weight of atom A at point p for atoms at the given positions with the given radii *)
Definition becke_geom (k : nat) (rad : nat -> R) (atoms : list pt) (p : pt) (A : nat) : R :=
  becke_weight ROps k (length atoms) rad (geom_R atoms) (geom_d atoms p) A.

(* ---- isometries ---- *)
Definition isometry (f : pt -> pt) : Prop := forall p q, dist (f p) (f q) = dist p q.

Lemma rigid_motion_lemma k rad atoms p A (f : pt -> pt) : isometry f -> (A < length atoms)%nat ->
  becke_geom k rad (map f atoms) (f p) A = becke_geom k rad atoms p A.
Proof.
  intros Hf HA. unfold becke_geom. rewrite map_length.
  apply (weight_ext k (length atoms)); try assumption; try reflexivity.
  - intros B C HB HC. unfold geom_R.
    rewrite (nth_indep (map f atoms) origin (f origin)) by (rewrite map_length; exact HB).
    rewrite (nth_indep (map f atoms) origin (f origin)) by (rewrite map_length; exact HC).
    rewrite !map_nth. apply Hf.
  - intros B HB. unfold geom_d.
    rewrite (nth_indep (map f atoms) origin (f origin)) by (rewrite map_length; exact HB).
    rewrite map_nth. apply Hf.
Qed.

(* rotations / reflections followed by a translation are isometries: x |-> Q x + t with Q^T Q = I *)
Definition affine (q11 q12 q13 q21 q22 q23 q31 q32 q33 t1 t2 t3 : R) (p : pt) : pt :=
  (q11 * px p + q12 * py p + q13 * pz p + t1,
   q21 * px p + q22 * py p + q23 * pz p + t2,
   q31 * px p + q32 * py p + q33 * pz p + t3).

Lemma affine_isometry_lemma q11 q12 q13 q21 q22 q23 q31 q32 q33 t1 t2 t3 :
  q11 * q11 + q21 * q21 + q31 * q31 = 1 -> q12 * q12 + q22 * q22 + q32 * q32 = 1 -> q13 * q13 + q23 * q23 + q33 * q33 = 1 ->
  q11 * q12 + q21 * q22 + q31 * q32 = 0 -> q11 * q13 + q21 * q23 + q31 * q33 = 0 -> q12 * q13 + q22 * q23 + q32 * q33 = 0 ->
  isometry (affine q11 q12 q13 q21 q22 q23 q31 q32 q33 t1 t2 t3).
Proof.
  intros H11 H22 H33 H12 H13 H23 p q. unfold dist. f_equal.
  unfold affine, px, py, pz, nrm2; cbn [fst snd].
  set (x := fst (fst p) - fst (fst q)). set (y := snd (fst p) - snd (fst q)). set (z := snd p - snd q).
  replace (q11 * fst (fst p) + q12 * snd (fst p) + q13 * snd p + t1 - (q11 * fst (fst q) + q12 * snd (fst q) + q13 * snd q + t1))
    with (q11 * x + q12 * y + q13 * z) by (unfold x, y, z; ring).
  replace (q21 * fst (fst p) + q22 * snd (fst p) + q23 * snd p + t2 - (q21 * fst (fst q) + q22 * snd (fst q) + q23 * snd q + t2))
    with (q21 * x + q22 * y + q23 * z) by (unfold x, y, z; ring).
  replace (q31 * fst (fst p) + q32 * snd (fst p) + q33 * snd p + t3 - (q31 * fst (fst q) + q32 * snd (fst q) + q33 * snd q + t3))
    with (q31 * x + q32 * y + q33 * z) by (unfold x, y, z; ring).
  replace ((q11 * x + q12 * y + q13 * z) * (q11 * x + q12 * y + q13 * z) + (q21 * x + q22 * y + q23 * z) * (q21 * x + q22 * y + q23 * z) +
           (q31 * x + q32 * y + q33 * z) * (q31 * x + q32 * y + q33 * z))
    with ((q11 * q11 + q21 * q21 + q31 * q31) * (x * x) + (q12 * q12 + q22 * q22 + q32 * q32) * (y * y) +
          (q13 * q13 + q23 * q23 + q33 * q33) * (z * z) + 2 * (q11 * q12 + q21 * q22 + q31 * q32) * (x * y) +
          2 * (q11 * q13 + q21 * q23 + q31 * q33) * (x * z) + 2 * (q12 * q13 + q22 * q23 + q32 * q33) * (y * z)) by ring.
  rewrite H11, H22, H33, H12, H13, H23. ring.
Qed.

(* the whole partition-of-unity statement for real geometries *)
Lemma becke_partition_euclid_lemma k rad atoms p : NoDup atoms -> atoms <> [] ->
  (forall A, (A < length atoms)%nat -> 0 <= becke_geom k rad atoms p A <= 1) /\
  fold_right Rplus 0 (map (becke_geom k rad atoms p) (seq 0 (length atoms))) = 1 /\
  (forall A, (A < length atoms)%nat ->
     becke_geom k rad atoms (nth A atoms origin) A = 1 /\
     forall B, (B < length atoms)%nat -> B <> A -> becke_geom k rad atoms (nth A atoms origin) B = 0).
Proof.
  intros Hnd Hne. assert (HM : (0 < length atoms)%nat) by (destruct atoms; [congruence | cbn; lia]).
  pose proof (euclid_wf_lemma atoms p Hnd) as W. split; [|split].
  - intros A HA. exact (weight_range_lemma k (length atoms) rad (geom_R atoms) (geom_d atoms p) A HM W HA).
  - exact (sum_to_one_lemma k (length atoms) rad (geom_R atoms) (geom_d atoms p) HM W).
  - intros A HA.
    exact (nucleus_values_lemma k (length atoms) rad (geom_R atoms) (geom_d atoms (nth A atoms origin)) A HA
             (euclid_nucleus_lemma atoms A Hnd HA)).
Qed.
