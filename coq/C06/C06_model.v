(* C06 — executable model of src/grid/becke.py (BeckeWeights) and src/grid/hirshfeld.py (HirshfeldWeights.__call__),
   generic over a record of number operations.  Leaves (switch polynomial and its loop, alpha with clipping, the
   v_pp / s_ab lines, the radius fallback, the chunk-size formula, the Bragg table) are GENERATED into C06_gen.v
   from the Python source on every run; this file holds the hand-written tensor / slicing structure.
   No proofs in this file. *)
From Coq Require Import ZArith QArith List Bool Arith.
From P Require Import C06_model_ops C06_gen.
Import ListNotations.
Local Open Scope nat_scope.

Section Becke.
Context {T : Type} (O : NumOps T).

(* ---- geometry data: M atoms; rad A = covalent radius used for atom A; Rm A B = atomic_dist[A,B];
        a point is represented by its distances to the atoms, d A = n_p[A, p] ---- *)
Variable order : nat.
Variable M : nat.
Variable rad : nat -> T.
Variable Rm : nat -> nat -> T.
Definition pdata := nat -> T.

(* mu_p_n_n[p,A,B] = (n_p[A,p] - n_p[B,p]) / atomic_dist[A,B] *)
Definition mu_of (d : pdata) (A B : nat) : T := ndiv O (nsub O (d A) (d B)) (Rm A B).
(* alpha[A,B] = _calculate_alpha(radii)[A,B] with the default cut-off *)
Definition alpha_of (A B : nat) : T := calculate_alpha O (rad A) (rad B) (cutoff_default O).
(* s_ab[p,A,B] after `s_ab[np.isnan(s_ab)] = 1`: on the domain (distinct atoms) exactly the diagonal is nan (0/0) *)
Definition s_gw (d : pdata) (A B : nat) : T :=
  if Nat.eqb A B then none_ O else cell_gw O order (nu_gw O (mu_of d A B) (alpha_of A B)).
Definition s_caw (d : pdata) (A B : nat) : T :=
  if Nat.eqb A B then none_ O else cell_caw O order (nu_caw O (mu_of d A B) (alpha_of A B)).
Definition prodT (l : list T) : T := fold_right (nmul O) (none_ O) l.
Definition sumT (l : list T) : T := fold_right (nadd O) (nzero O) l.
(* np.prod(s_ab, axis=-1)[p, :]  — one row per point *)
Definition prods_gw (d : pdata) : list T := map (fun A => prodT (map (s_gw d A) (seq 0 M))) (seq 0 M).
Definition prods_caw (d : pdata) : list T := map (fun A => prodT (map (s_caw d A) (seq 0 M))) (seq 0 M).
(* s_ab[p, A] / np.sum(s_ab, axis=-1)[p] *)
Definition wrow (row : list T) (A : nat) : T := ndiv O (nth A row (nzero O)) (sumT row).

(* ---- NumPy slicing on lists (non-negative bounds): l[s:e] clips at the end, is empty when e <= s ---- *)
Definition slice {X} (l : list X) (s e : nat) : list X := firstn (e - s) (skipn s l).
(* acc[s:s+len vals] += vals *)
Fixpoint add_at (acc : list T) (s : nat) (vals : list T) : list T :=
  match acc with
  | [] => []
  | x :: r => match s with
              | S s' => x :: add_at r s' vals
              | 0 => match vals with [] => acc | v :: vs => nadd O x v :: add_at r 0 vs end
              end
  end.
Definition zeros (n : nat) : list T := repeat (nzero O) n.

(* ---- generate_weights(points, atcoords, atnums, select=, pt_ind=) ; None = ValueError ---- *)
Definition generate_weights (pts : list pdata) (select pt_ind : list nat) : option (list T) :=
  if Nat.eqb (length pt_ind) 1 then None else
  let sectors := Nat.max (length pt_ind - 1) 1 in
  if negb (Nat.eqb sectors (length select)) then None else
  let s_ab := map prods_gw pts in
  let weights := zeros (length pts) in
  if Nat.eqb sectors 1 then
    Some (add_at weights 0 (map (fun row => wrow row (nth 0 select 0)) s_ab))
  else
    Some (fold_left (fun weights i =>
            let s := nth i pt_ind 0 in let e := nth (S i) pt_ind 0 in
            add_at weights s (map (fun row => wrow row (nth i select 0)) (slice s_ab s e)))
          (seq 0 sectors) weights).

(* ---- compute_atom_weight(points, atcoords, atnums, select) ---- *)
Definition compute_atom_weight (pts : list pdata) (A : nat) : list T :=
  add_at (zeros (length pts)) 0 (map (fun row => wrow row A) (map prods_caw pts)).

(* ---- compute_weights(points, atcoords, atnums, select=, pt_ind=) ---- *)
Definition compute_weights (pts : list pdata) (select pt_ind : list nat) : option (list T) :=
  if Nat.eqb (length pt_ind) 1 then None else
  let sectors := Nat.max (length pt_ind - 1) 1 in
  if negb (Nat.eqb sectors (length select)) then None else
  let weights := zeros (length pts) in
  if Nat.eqb sectors 1 then
    Some (add_at weights 0 (compute_atom_weight pts (nth 0 select 0)))
  else
    (* for k, i in enumerate(select): weights[pt_ind[k]:pt_ind[k+1]] += compute_atom_weight(points[...], ..., i) *)
    Some (fold_left (fun weights ki =>
            let s := nth (fst ki) pt_ind 0 in let e := nth (S (fst ki)) pt_ind 0 in
            add_at weights s (compute_atom_weight (slice pts s e) (snd ki)))
          (combine (seq 0 (length select)) select) weights).

(* ---- __call__(points, atcoords, atnums, indices): chunks of chunk_size points, segment table shifted by the
        chunk start and clipped at 0 (truncated subtraction on nat IS (indices - ibegin).clip(min=0)) ---- *)
Fixpoint range_step (fuel b step stop : nat) : list nat :=      (* range(b, stop, step), step >= 1, fuel >= stop - b *)
  match fuel with 0 => [] | S f => if Nat.ltb b stop then b :: range_step f (b + step) step stop else [] end.
Fixpoint concat_opt (l : list (option (list T))) : option (list T) :=
  match l with
  | [] => Some []
  | None :: _ => None
  | Some x :: r => match concat_opt r with Some y => Some (x ++ y) | None => None end
  end.
Definition call_with (cs : nat) (pts : list pdata) (indices : list nat) : option (list T) :=
  concat_opt (map (fun ibegin => generate_weights (slice pts ibegin (ibegin + cs)) (seq 0 M)
                                   (map (fun x => x - ibegin) indices))
                  (range_step (length pts) 0 cs (length pts))).
Definition call (pts : list pdata) (indices : list nat) : option (list T) :=
  call_with (chunk_size (length pts) M) pts indices.

(* the mathematical Becke weight of atom A at a point *)
Definition becke_weight (d : pdata) (A : nat) : T := wrow (prods_gw d) A.
End Becke.

(* ---- Hirshfeld: pro-atom densities come from a SciPy cubic spline (black box): rho A r = density of the
        pro-atom of atom A at distance r ---- *)
Section Hirshfeld.
Context {T : Type} (O : NumOps T).
Variable M : nat.
Variable rho : nat -> T -> T.

Fixpoint set_at (acc : list T) (s : nat) (vals : list T) : list T :=        (* acc[s:s+len vals] = vals *)
  match acc with
  | [] => []
  | x :: r => match s with
              | S s' => x :: set_at r s' vals
              | 0 => match vals with [] => acc | v :: vs => v :: set_at r 0 vs end
              end
  end.
Fixpoint vadd (a b : list T) : list T :=
  match a, b with x :: r, y :: s => nadd O x y :: vadd r s | _, _ => [] end.
Fixpoint vdiv (a b : list T) : list T :=
  match a, b with x :: r, y :: s => ndiv O x y :: vdiv r s | _, _ => [] end.

Definition hirshfeld_call (pts : list (nat -> T)) (indices : list nat) : list T :=
  let z := repeat (nzero O) (length pts) in
  let '(aim, promol) :=
    fold_left (fun '(aim, promol) A =>
                 let proatom := map (fun d => rho A (d A)) pts in
                 let s := nth A indices 0 in let e := nth (S A) indices 0 in
                 (set_at aim s (slice proatom s e), vadd promol proatom))
              (seq 0 M) (z, z) in
  vdiv aim promol.

Definition hirshfeld_weight (d : nat -> T) (A : nat) : T :=
  ndiv O (rho A (d A)) (fold_right (nadd O) (nzero O) (map (fun B => rho B (d B)) (seq 0 M))).
End Hirshfeld.

(* ---- radius actually used for atomic number z (generated expression applied to a radius dictionary) ---- *)
Definition radius_value {T} (O : NumOps T) (tbl : list (Z * pyf)) (z : Z) : option T :=
  match radius_gw tbl z with PVal q => Some (nofQ O q) | _ => None end.
(* dict.update(radii) *)
Fixpoint tbl_update (tbl : list (Z * pyf)) (k : Z) (v : pyf) : list (Z * pyf) :=
  match tbl with
  | [] => [(k, v)]
  | (k', v') :: r => if Z.eqb k k' then (k, v) :: r else (k', v') :: tbl_update r k v
  end.

(* ---------------------------------------------------------------------------------------------------------
   executable plumbing for the correspondence cases (bigQ instances); nothing below is used by the theorems *)
From Bignums Require Import BigQ.
Definition fl (l : list bigQ) : nat -> bigQ := fun i => nth i l 0%bigQ.
Definition ml (m : list (list bigQ)) : nat -> nat -> bigQ := fun a b => nth b (nth a m []) 0%bigQ.
Fixpoint radii_of (O : NumOps bigQ) (tbl : list (Z * pyf)) (zs : list Z) : option (list bigQ) :=
  match zs with
  | [] => Some []
  | z :: r => match radius_value O tbl z, radius_caw tbl z, radii_of O tbl r with
              | Some x, PVal _, Some xs => Some (x :: xs)
              | _, _, _ => None
              end
  end.
Definition absd (a b : bigQ) : bigQ := let d := BigQ.sub a b in if bigQ_ltb d 0 then BigQ.opp d else d.
(* |model - impl| <= 1e-10 |model| + 1e-13 *)
Definition close (m i : bigQ) : bool :=
  negb (bigQ_ltb (BigQ.add (BigQ.mul (1 # 10000000000)%bigQ (absd m 0)) (1 # 10000000000000)%bigQ) (absd m i)).
Fixpoint closel (m i : list bigQ) : bool :=
  match m, i with [] , [] => true | x :: r, y :: s => close x y && closel r s | _, _ => false end.
Definition chk (m : option (list bigQ)) (i : list bigQ) : bool :=
  match m with Some l => closel l i | None => false end.

(* one geometry, all routes: __call__, generate_weights(pt_ind=indices), compute_weights(pt_ind=indices),
   compute_atom_weight / generate_weights(select=A) / compute_weights(select=A) for the listed atoms *)
Definition run_case (O : NumOps bigQ) (k M : nat) (tbl : list (Z * pyf)) (zs : list Z)
  (Rm : list (list bigQ)) (pts : list (list bigQ)) (idx : list nat)
  (e_call e_gen e_comp : list bigQ) (atoms : list nat) (e_atom e_gsel e_csel : list (list bigQ)) : bool :=
  match radii_of O tbl zs with
  | None => false
  | Some rl =>
    let rad := fl rl in let R := ml Rm in let P := map fl pts in
    chk (call O k M rad R P idx) e_call &&
    chk (generate_weights O k M rad R P (seq 0 (Nat.max (length idx - 1) 1)) idx) e_gen &&
    chk (compute_weights O k M rad R P (seq 0 (Nat.max (length idx - 1) 1)) idx) e_comp &&
    forallb (fun ae => closel (compute_atom_weight O k M rad R P (fst ae)) (snd ae)) (combine atoms e_atom) &&
    forallb (fun ae => chk (generate_weights O k M rad R P [fst ae] []) (snd ae)) (combine atoms e_gsel) &&
    forallb (fun ae => chk (compute_weights O k M rad R P [fst ae] []) (snd ae)) (combine atoms e_csel) &&
    (length e_atom =? length atoms) && (length e_gsel =? length atoms) && (length e_csel =? length atoms)
  end.

(* generate_weights and compute_weights with an explicit select and pt_ind *)
Definition run_select (O : NumOps bigQ) (k M : nat) (tbl : list (Z * pyf)) (zs : list Z)
  (Rm : list (list bigQ)) (pts : list (list bigQ)) (select idx : list nat) (e_gen e_comp : list bigQ) : bool :=
  match radii_of O tbl zs with
  | None => false
  | Some rl => chk (generate_weights O k M (fl rl) (ml Rm) (map fl pts) select idx) e_gen &&
               chk (compute_weights O k M (fl rl) (ml Rm) (map fl pts) select idx) e_comp
  end.

(* the rounded instance against the exact instance *)
Definition run_exact_vs_rounded (k M : nat) (tbl : list (Z * pyf)) (zs : list Z)
  (Rm : list (list bigQ)) (pts : list (list bigQ)) (idx : list nat) : bool :=
  match radii_of QOps tbl zs, radii_of QOpsR tbl zs with
  | Some r1, Some r2 =>
      match call QOps k M (fl r1) (ml Rm) (map fl pts) idx, call QOpsR k M (fl r2) (ml Rm) (map fl pts) idx with
      | Some a, Some b => closel a b
      | _, _ => false
      end
  | _, _ => false
  end.

(* Hirshfeld: the spline oracle as a finite table  distance |-> density  per atom *)
Fixpoint tab_look (t : list (bigQ * bigQ)) (x : bigQ) : bigQ :=
  match t with [] => 0%bigQ | (k, v) :: r => if BigQ.eqb k x then v else tab_look r x end.
Definition run_hirshfeld (M : nat) (tab : list (list (bigQ * bigQ))) (pts : list (list bigQ)) (idx : list nat)
  (e_call : list bigQ) : bool :=
  closel (hirshfeld_call QOps M (fun A x => tab_look (nth A tab []) x) (map fl pts) idx) e_call.
