(* C06 — facts about the generated radius table and fallback expression (finite domain Z = 1..86, by computation),
   non-vacuity examples, and the executed refutation of route equality for an explicit non-identity `select`. *)
From Coq Require Import ZArith QArith Reals Qreals Lra Lia List Bool Arith.
From Bignums Require Import BigQ.
From P Require Import C06_model_ops C06_gen C06_model C06_proofs_real C06_proofs_list C06_proofs_geom.
Import ListNotations.

Definition supported : list Z := map Z.of_nat (seq 1 86).
Lemma supported_in z : (1 <= z <= 86)%Z -> In z supported.
Proof.
  intros H. unfold supported. apply in_map_iff. exists (Z.to_nat z). split; [lia|]. apply in_seq. lia.
Qed.

(* both copies of the fallback expression are the same term *)
Lemma radius_copies_lemma tbl z : radius_caw tbl z = radius_gw tbl z.
Proof. reflexivity. Qed.

Definition radius_okb (z : Z) : bool :=
  match radius_gw bragg_table z with PVal q => negb (Qle_bool q 0) | _ => false end.
Lemma radius_ok_all : forallb radius_okb supported = true.
Proof. vm_compute. reflexivity. Qed.

Lemma radii_supported_lemma z : (1 <= z <= 86)%Z ->
  exists q, radius_gw bragg_table z = PVal q /\ (0 < q)%Q /\ radius_value ROps bragg_table z = Some (Q2R q) /\ (0 < Q2R q)%R.
Proof.
  intros H. pose proof (proj1 (forallb_forall _ _) radius_ok_all z (supported_in z H)) as Hb.
  unfold radius_okb in Hb. unfold radius_value. destruct (radius_gw bragg_table z) as [q| |]; try discriminate.
  exists q. assert (Hq : (0 < q)%Q).
  { apply negb_true_iff in Hb. destruct (Qlt_le_dec 0 q) as [Hl|Hl]; [exact Hl|].
    apply Qle_bool_iff in Hl. congruence. }
  repeat split; try assumption. replace 0%R with (Q2R 0) by (unfold Q2R; cbn; lra). apply Qlt_Rlt. exact Hq.
Qed.

(* the fallback picks the nearest lower element (at most two below) that has a tabulated radius *)
Definition fallback_okb (z : Z) : bool :=
  match rlook bragg_table z, radius_gw bragg_table z with
  | PVal q, PVal r => Qeq_bool q r
  | PNaN, PVal r =>
      match rlook bragg_table (z - 1) with
      | PVal q1 => Qeq_bool q1 r
      | PNaN => match rlook bragg_table (z - 2) with PVal q2 => Qeq_bool q2 r | _ => false end
      | PErr => false
      end
  | _, _ => false
  end.
Lemma fallback_ok_all : forallb fallback_okb supported = true.
Proof. vm_compute. reflexivity. Qed.
Lemma fallback_spec_lemma z : (1 <= z <= 86)%Z -> fallback_okb z = true.
Proof. intros H. exact (proj1 (forallb_forall _ _) fallback_ok_all z (supported_in z H)). Qed.

(* ---- non-vacuity examples ---- *)
Local Open Scope R_scope.
Example ex_atoms : list pt := [(0, 0, 0); (1, 0, 0); (0, 2, 0); (0, 0, 3)].
Example ex_atoms_nodup : NoDup ex_atoms.
Proof.
  unfold ex_atoms. repeat constructor; cbn [In]; intros H;
    repeat match goal with H : _ \/ _ |- _ => destruct H as [H|H] | H : False |- _ => destruct H end;
    injection H; intros; lra.
Qed.
Example ex_wf : wf_point 4 (geom_R ex_atoms) (geom_d ex_atoms (1 / 3, 1 / 5, -2)).
Proof. exact (euclid_wf_lemma ex_atoms _ ex_atoms_nodup). Qed.
Example ex_monotone : monotone [0; 2; 2; 5; 7]%nat.
Proof.
  intros i i' H1 H2. cbn [length] in H2.
  destruct i' as [|[|[|[|[|i']]]]]; try lia; destruct i as [|[|[|[|[|i]]]]]; cbn [nth]; lia.
Qed.
Example ex_isometry : isometry (affine 0 1 0 0 0 1 1 0 0 5 (-3) (1 / 2)).
Proof. apply affine_isometry_lemma; lra. Qed.
Example ex_radii : exists q, radius_gw bragg_table 86 = PVal q /\ rlook bragg_table 86 = PNaN /\ rlook bragg_table 85 = PNaN /\ rlook bragg_table 84 = PVal q.
Proof. eexists. repeat split; vm_compute; reflexivity. Qed.

Lemma copies_identical_lemma T (O : NumOps T) k mu a tbl z :
  cell_caw O k (nu_caw O mu a) = cell_gw O k (nu_gw O mu a) /\ radius_caw tbl z = radius_gw tbl z.
Proof. split; [apply copies_agree | apply radius_copies_lemma]. Qed.

(* ---- the main theorems instantiated on the example molecule (hypotheses are satisfiable) ---- *)
Local Open Scope R_scope.
Example ex_partition :
  fold_right Rplus 0 (map (becke_geom 3 (fun A => INR (S A)) ex_atoms (1 / 3, 1 / 5, -2)) (seq 0 4)) = 1 /\
  becke_geom 3 (fun A => INR (S A)) ex_atoms (0, 2, 0) 2 = 1 /\ becke_geom 3 (fun A => INR (S A)) ex_atoms (0, 2, 0) 0 = 0.
Proof.
  assert (Hne : ex_atoms <> []) by discriminate.
  pose proof (becke_partition_euclid_lemma 3 (fun A => INR (S A)) ex_atoms (1 / 3, 1 / 5, -2) ex_atoms_nodup Hne) as (_ & Hs & _).
  pose proof (becke_partition_euclid_lemma 3 (fun A => INR (S A)) ex_atoms (1 / 3, 1 / 5, -2) ex_atoms_nodup Hne) as (_ & _ & Hn).
  split; [exact Hs|]. destruct (Hn 2%nat ltac:(cbn; lia)) as [H1 H2]. split; [exact H1|].
  apply (H2 0%nat); cbn; lia.
Qed.
Example ex_chunks pts : length pts = 7%nat ->
  call_with ROps 3 4 (fun A => INR (S A)) (geom_R ex_atoms) 2 pts [0; 2; 2; 5; 7]%nat =
  generate_weights ROps 3 4 (fun A => INR (S A)) (geom_R ex_atoms) pts (seq 0 4) [0; 2; 2; 5; 7]%nat.
Proof. intros _. apply chunked_eq_unchunked_lemma; cbn; lia. Qed.
Example ex_hirshfeld : fold_right Rplus 0 (map (hirshfeld_weight ROps 3 (fun A r => exp (- INR (S A) * r)) (fun A => INR A)) (seq 0 3)) = 1.
Proof.
  apply hirshfeld_sum_lemma. cbn [seq map fold_right].
  pose proof (exp_pos (- INR 1 * INR 0)); pose proof (exp_pos (- INR 2 * INR 1)); pose proof (exp_pos (- INR 3 * INR 2)). lra.
Qed.
