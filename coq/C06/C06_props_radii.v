(* C06 property theorems that depend on the generated radius table / on the two textual copies (statements only). *)
From Coq Require Import ZArith QArith Reals Qreals List Bool Arith.
From Bignums Require Import BigQ.
From P Require Import C06_model_ops C06_gen C06_model C06_proofs_real C06_proofs_list C06_proofs_geom C06_proofs_radii.
Import ListNotations.
Local Open Scope R_scope.

(* every supported element (Z = 1..86) gets a defined, positive radius from the generated fallback expression
   applied to the generated Bragg table; the fallback is the nearest lower tabulated element (at most 2 below);
   both textual copies of the expression and of the cell formula are the same term *)
Theorem radii_supported : forall z, (1 <= z <= 86)%Z ->
  exists q, radius_gw bragg_table z = PVal q /\ (0 < q)%Q /\ radius_value ROps bragg_table z = Some (Q2R q) /\ 0 < Q2R q.
Proof. exact radii_supported_lemma. Qed.
Print Assumptions radii_supported.

Theorem radius_fallback_spec : forall z, (1 <= z <= 86)%Z -> fallback_okb z = true.
Proof. exact fallback_spec_lemma. Qed.
Print Assumptions radius_fallback_spec.

Theorem copies_identical : forall T (O : NumOps T) k mu a tbl z,
  cell_caw O k (nu_caw O mu a) = cell_gw O k (nu_gw O mu a) /\ radius_caw tbl z = radius_gw tbl z.
Proof. exact copies_identical_lemma. Qed.
Print Assumptions copies_identical.
