(* C06 — number operations record: the Becke/Hirshfeld model is written once, generically over [NumOps T];
   theorems are proved at T := R, the correspondence with the implementation is executed at T := bigQ. *)
From Coq Require Import QArith Reals Qreals.
From Bignums Require Import BigQ.

Record NumOps (T : Type) := mkOps {
  nzero : T; none_ : T;
  nadd : T -> T -> T; nsub : T -> T -> T; nmul : T -> T -> T; ndiv : T -> T -> T;
  nopp : T -> T; nofQ : Q -> T; nltb : T -> T -> bool }.
Arguments nzero {T}. Arguments none_ {T}. Arguments nadd {T}. Arguments nsub {T}. Arguments nmul {T}.
Arguments ndiv {T}. Arguments nopp {T}. Arguments nofQ {T}. Arguments nltb {T}.

(* x ** n for a literal natural exponent *)
Fixpoint npow {T} (O : NumOps T) (x : T) (n : nat) : T :=
  match n with O => none_ O | S m => nmul O x (npow O x m) end.

Definition Rltb (x y : R) : bool := if Rlt_dec x y then true else false.
Definition ROps : NumOps R := mkOps R 0%R 1%R Rplus Rminus Rmult Rdiv Ropp Q2R Rltb.

Definition bigQ_ltb (x y : bigQ) : bool := match BigQ.compare x y with Lt => true | _ => false end.
Definition QOps : NumOps bigQ :=
  mkOps bigQ 0%bigQ 1%bigQ BigQ.add BigQ.sub BigQ.mul BigQ.div BigQ.opp BigQ.of_Q bigQ_ltb.

(* a float that may be nan, or a failed dict lookup (KeyError) *)
Inductive pyf := PVal (q : Q) | PNaN | PErr.

(* semantics of the few NumPy/Python primitives of the radius-fallback expression *)
From Coq Require Import ZArith List.
Fixpoint rlook (tbl : list (Z * pyf)) (z : Z) : pyf :=          (* self._radii[z] ; missing key = KeyError *)
  match tbl with nil => PErr | cons (k, v) r => if Z.eqb z k then v else rlook r z end.
Definition pnan_to_num (e : pyf) : pyf := match e with PNaN => PVal 0 | _ => e end.      (* np.nan_to_num *)
Definition por (a b : pyf) : pyf :=                                 (* a or b : nan is truthy, 0.0 is falsy *)
  match a with PVal q => if Qeq_bool q 0 then b else a | _ => a end.
Definition pif_isnan (c a b : pyf) : pyf :=                         (* a if np.isnan(c) else b *)
  match c with PNaN => a | PVal _ => b | PErr => PErr end.

(* bigQ arithmetic rounded (towards -oo) to a multiple of 2^-p after every operation: the exact rational evaluation
   of the order-k cell functions has numerators of ~4^k * 330 bits per factor, which vm_compute cannot multiply in the
   time budget; the rounded instance is used for the bulk of the correspondence and is itself cross-checked against
   the exact instance [QOps] on small cases. *)
Definition rnd_bits : N := 256%N.
Definition bigQ_rnd (x : bigQ) : bigQ :=
  match x with
  | BigQ.Qz _ => x
  | BigQ.Qq n d => if BigN.eqb d BigN.zero then BigQ.Qz BigZ.zero
                   else BigQ.Qq (BigZ.div (BigZ.shiftl n (BigZ.of_Z (Z.of_N rnd_bits))) (BigZ.Pos d))
                                (BigN.shiftl BigN.one (BigN.of_N rnd_bits))
  end.
Definition QOpsR : NumOps bigQ :=
  mkOps bigQ 0%bigQ 1%bigQ (fun a b => bigQ_rnd (BigQ.add a b)) (fun a b => bigQ_rnd (BigQ.sub a b))
        (fun a b => bigQ_rnd (BigQ.mul a b)) (fun a b => bigQ_rnd (BigQ.div a b)) BigQ.opp
        (fun q => bigQ_rnd (BigQ.of_Q q)) bigQ_ltb.
