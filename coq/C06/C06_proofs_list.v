(* C06 — list-level theorems: the three evaluation routes, the chunking of __call__, segment ownership,
   and HirshfeldWeights.__call__ (all at T := R). *)
From Coq Require Import ZArith QArith Reals Qreals Lra Lia List Bool Arith.
From P Require Import C06_model_ops C06_gen C06_model C06_proofs_real.
Import ListNotations.
Local Open Scope R_scope.

(* ------------------------------------------------------------------ generic list facts *)
Lemma nth_firstn_b {X} (l : list X) n i d : nth i (firstn n l) d = if (i <? n)%nat then nth i l d else d.
Proof.
  revert n i; induction l as [|x l IH]; intros n i.
  - rewrite firstn_nil. destruct (i <? n)%nat; destruct i; reflexivity.
  - destruct n as [|n]; [destruct i; reflexivity|]. destruct i as [|i]; [reflexivity|].
    cbn [firstn nth]. rewrite IH. reflexivity.
Qed.
Lemma nth_skipn_b {X} (l : list X) s i d : nth i (skipn s l) d = nth (s + i) l d.
Proof.
  revert l; induction s as [|s IH]; intros l; [reflexivity|].
  destruct l as [|x l]; [destruct i; reflexivity|]. cbn [skipn plus nth]. apply IH.
Qed.
Lemma skipn_skipn_b {X} (l : list X) a b : skipn a (skipn b l) = skipn (a + b) l.
Proof.
  revert l; induction b as [|b IH]; intros l; [rewrite Nat.add_0_r; reflexivity|].
  rewrite Nat.add_succ_r. destruct l as [|x l]; [rewrite !skipn_nil; reflexivity|]. cbn [skipn]. apply IH.
Qed.
Lemma slice_length {X} (l : list X) s e : length (slice l s e) = Nat.min (e - s) (length l - s).
Proof. unfold slice. rewrite firstn_length, skipn_length. reflexivity. Qed.
Lemma nth_slice {X} (l : list X) s e i d : nth i (slice l s e) d = if (i <? e - s)%nat then nth (s + i) l d else d.
Proof. unfold slice. rewrite nth_firstn_b, nth_skipn_b. reflexivity. Qed.
Lemma slice_map {X Y} (f : X -> Y) l s e : slice (map f l) s e = map f (slice l s e).
Proof. unfold slice. rewrite skipn_map, firstn_map. reflexivity. Qed.
Lemma nth_map_d {X} (f : X -> R) l j d : (j < length l)%nat -> nth j (map f l) 0 = f (nth j l d).
Proof.
  intros H. rewrite (nth_indep _ 0 (f d)) by (rewrite map_length; exact H). apply map_nth.
Qed.

Lemma fold_left_ext_eq {X Y} (f g : X -> Y -> X) : (forall a i, f a i = g a i) ->
  forall l a, fold_left f l a = fold_left g l a.
Proof. intros H l; induction l as [|i l IH]; intros a; [reflexivity | cbn [fold_left]; rewrite H; apply IH]. Qed.

Lemma fold_left_ext_in_seq {X} (f g : X -> nat -> X) st len :
  (forall a i, (st <= i < st + len)%nat -> f a i = g a i) -> forall a, fold_left f (seq st len) a = fold_left g (seq st len) a.
Proof.
  revert st; induction len as [|len IH]; intros st H a; [reflexivity|]. cbn [seq fold_left].
  rewrite H by lia. apply IH. intros; apply H; lia.
Qed.
Lemma fold_left_plus_sum {X} (f : X -> R) l : forall a, fold_left (fun x B => x + f B) l a = a + fold_right Rplus 0 (map f l).
Proof. induction l as [|x l IH]; intros a; cbn [fold_left map fold_right]; [lra | rewrite IH; lra]. Qed.
Lemma fold_right_map_plus {X} (f : X -> R) l : fold_right Rplus 0 (map f l) = fold_right (fun B x => x + f B) 0 l.
Proof. induction l as [|x l IH]; cbn [map fold_right]; [reflexivity | rewrite IH; lra]. Qed.

(* ------------------------------------------------------------------ add_at on real lists *)
Lemma add_at_length acc s vals : length (add_at ROps acc s vals) = length acc.
Proof.
  revert s vals; induction acc as [|x r IH]; intros s vals; [reflexivity|].
  destruct s as [|s]; cbn [add_at length]; [destruct vals; cbn [length]; [reflexivity | rewrite IH; reflexivity] | rewrite IH; reflexivity].
Qed.

Lemma nth_add_at acc s vals j :
  nth j (add_at ROps acc s vals) 0 =
  if (s <=? j)%nat && (j <? s + length vals)%nat && (j <? length acc)%nat
  then nth j acc 0 + nth (j - s) vals 0 else nth j acc 0.
Proof.
  revert s vals j; induction acc as [|x r IH]; intros s vals j.
  - cbn [add_at length]. replace (j <? 0)%nat with false by (symmetry; apply Nat.ltb_ge; lia).
    rewrite andb_false_r. reflexivity.
  - destruct s as [|s].
    + destruct vals as [|v vs].
      * cbn [add_at length]. replace (j <? 0 + 0)%nat with false by (symmetry; apply Nat.ltb_ge; lia).
        rewrite andb_false_r. reflexivity.
      * cbn [add_at]. destruct j as [|j]; [cbn; reflexivity|].
        cbn [nth]. rewrite IH. cbn [length Nat.leb]. rewrite !Nat.sub_0_r. cbn [nth].
        replace (S j <? 0 + S (length vs))%nat with (j <? 0 + length vs)%nat
          by (destruct (Nat.ltb_spec j (0 + length vs)), (Nat.ltb_spec (S j) (0 + S (length vs))); try reflexivity; lia).
        replace (S j <? S (length r))%nat with (j <? length r)%nat
          by (destruct (Nat.ltb_spec j (length r)), (Nat.ltb_spec (S j) (S (length r))); try reflexivity; lia).
        reflexivity.
    + cbn [add_at]. destruct j as [|j]; [cbn; reflexivity|].
      cbn [nth]. rewrite IH. cbn [length].
      replace (S s <=? S j)%nat with (s <=? j)%nat by reflexivity.
      replace (S j <? S s + length vals)%nat with (j <? s + length vals)%nat
        by (destruct (Nat.ltb_spec j (s + length vals)), (Nat.ltb_spec (S j) (S s + length vals)); try reflexivity; lia).
      replace (S j <? S (length r))%nat with (j <? length r)%nat
        by (destruct (Nat.ltb_spec j (length r)), (Nat.ltb_spec (S j) (S (length r))); try reflexivity; lia).
      reflexivity.
Qed.

Definition inseg (s e j : nat) : bool := (s <=? j)%nat && (j <? e)%nat.

Lemma nth_add_at_slice acc v s e j : length v = length acc -> (j < length acc)%nat ->
  nth j (add_at ROps acc s (slice v s e)) 0 = if inseg s e j then nth j acc 0 + nth j v 0 else nth j acc 0.
Proof.
  intros Hl Hj. rewrite nth_add_at, slice_length, nth_slice. unfold inseg.
  destruct (Nat.leb_spec s j); cbn [andb]; [|destruct (j <? e)%nat; reflexivity].
  destruct (Nat.ltb_spec j e).
  - replace (j <? s + Nat.min (e - s) (length v - s))%nat with true by (symmetry; apply Nat.ltb_lt; lia).
    replace (j <? length acc)%nat with true by (symmetry; apply Nat.ltb_lt; lia).
    replace (j - s <? e - s)%nat with true by (symmetry; apply Nat.ltb_lt; lia).
    cbn [andb]. replace (s + (j - s))%nat with j by lia. reflexivity.
  - replace (j <? s + Nat.min (e - s) (length v - s))%nat with false by (symmetry; apply Nat.ltb_ge; lia).
    reflexivity.
Qed.

Lemma add_at_zeros l : add_at ROps (zeros ROps (length l)) 0 l = l.
Proof.
  induction l as [|x l IH]; [reflexivity|]. cbn [length zeros repeat add_at]. fold (zeros ROps (length l)).
  rewrite IH. cbn. f_equal. lra.
Qed.
Lemma zeros_length n : length (zeros ROps n) = n.  Proof. apply repeat_length. Qed.
Lemma nth_zeros n j : nth j (zeros ROps n) 0 = 0.
Proof. unfold zeros. cbn [nzero ROps]. revert j; induction n; intros [|j]; cbn; auto. Qed.

(* the segment-wise accumulation loop, pointwise *)
Lemma fold_segments (V : nat -> list R) (sg eg : nat -> nat) n (is : list nat) :
  (forall i, length (V i) = n) -> forall acc, length acc = n ->
  let r := fold_left (fun acc i => add_at ROps acc (sg i) (slice (V i) (sg i) (eg i))) is acc in
  length r = n /\ forall j, (j < n)%nat ->
    nth j r 0 = fold_left (fun a i => if inseg (sg i) (eg i) j then a + nth j (V i) 0 else a) is (nth j acc 0).
Proof.
  intros HV. induction is as [|i is IH]; intros acc Hacc; cbn [fold_left].
  - split; [exact Hacc | reflexivity].
  - specialize (IH (add_at ROps acc (sg i) (slice (V i) (sg i) (eg i)))). rewrite add_at_length in IH.
    specialize (IH Hacc). cbn zeta in IH. destruct IH as [IH1 IH2]. split; [exact IH1|].
    intros j Hj. rewrite IH2 by exact Hj. rewrite nth_add_at_slice by (rewrite ?HV, ?Hacc; auto). reflexivity.
Qed.

(* ------------------------------------------------------------------ pointwise meaning of generate_weights *)
Section Routes.
Variable k : nat.
Variable M : nat.
Variable rad : nat -> R.
Variable Rm : nat -> nat -> R.
Notation pd := (nat -> R).
Definition d0 : pd := fun _ => 0.
Definition W (d : pd) (A : nat) : R := becke_weight ROps k M rad Rm d A.

Definition pw (sel idx : list nat) (sectors j : nat) (d : pd) : R :=
  if (sectors =? 1)%nat then W d (nth 0%nat sel 0%nat)
  else fold_left (fun a i => if inseg (nth i idx 0%nat) (nth (S i) idx 0%nat) j then a + W d (nth i sel 0%nat) else a)
                 (seq 0 sectors) 0.

Definition args_ok (sel idx : list nat) : bool :=
  negb (length idx =? 1)%nat && (Nat.max (length idx - 1) 1 =? length sel)%nat.

Lemma generate_weights_none pts sel idx : args_ok sel idx = false -> generate_weights ROps k M rad Rm pts sel idx = None.
Proof.
  unfold args_ok, generate_weights. destruct (length idx =? 1)%nat; [reflexivity|]. cbn [negb andb].
  intros ->. reflexivity.
Qed.

Lemma single_sector_eq pts A :
  add_at ROps (zeros ROps (length pts)) 0 (map (fun row => wrow ROps row A) (map (prods_gw ROps k M rad Rm) pts))
  = map (fun d => W d A) pts.
Proof.
  rewrite <- (map_length (prods_gw ROps k M rad Rm) pts) at 1.
  rewrite <- (map_length (fun row => wrow ROps row A) (map _ pts)) at 1.
  rewrite add_at_zeros, map_map. reflexivity.
Qed.

Lemma generate_weights_spec pts sel idx : args_ok sel idx = true ->
  exists l, generate_weights ROps k M rad Rm pts sel idx = Some l /\ length l = length pts /\
    forall j, (j < length pts)%nat -> nth j l 0 = pw sel idx (Nat.max (length idx - 1) 1) j (nth j pts d0).
Proof.
  unfold args_ok, generate_weights, pw. destruct (length idx =? 1)%nat; [discriminate|]. cbn [negb andb].
  intros ->. cbn [negb]. set (sectors := Nat.max (length idx - 1) 1).
  destruct (sectors =? 1)%nat.
  - eexists; split; [reflexivity|]. rewrite single_sector_eq, map_length. split; [reflexivity|]. intros j Hj.
    rewrite (nth_map_d _ pts j d0) by exact Hj. reflexivity.
  - eexists; split; [reflexivity|].
    pose proof (fold_segments (fun i => map (fun row => wrow ROps row (nth i sel 0%nat)) (map (prods_gw ROps k M rad Rm) pts))
                  (fun i => nth i idx 0%nat) (fun i => nth (S i) idx 0%nat) (length pts) (seq 0 sectors)) as F.
    specialize (F ltac:(intros; cbv beta; rewrite !map_length; reflexivity) (zeros ROps (length pts)) (zeros_length _)).
    cbn zeta in F. destruct F as [F1 F2].
    assert (E : forall acc i, add_at ROps acc (nth i idx 0%nat)
                (map (fun row => wrow ROps row (nth i sel 0%nat)) (slice (map (prods_gw ROps k M rad Rm) pts) (nth i idx 0%nat) (nth (S i) idx 0%nat)))
              = add_at ROps acc (nth i idx 0%nat)
                (slice (map (fun row => wrow ROps row (nth i sel 0%nat)) (map (prods_gw ROps k M rad Rm) pts)) (nth i idx 0%nat) (nth (S i) idx 0%nat))).
    { intros. f_equal. symmetry. apply slice_map. }
    rewrite (fold_left_ext_eq _ _ E).
    split; [exact F1|]. intros j Hj. rewrite F2 by exact Hj. rewrite nth_zeros.
    apply fold_left_ext_eq. intros a i. rewrite map_map, (nth_map_d _ pts j d0) by exact Hj. reflexivity.
Qed.

(* ---- the three routes are the same function ---- *)
Lemma prods_copies d : prods_caw ROps k M rad Rm d = prods_gw ROps k M rad Rm d.
Proof. reflexivity. Qed.

Lemma compute_atom_weight_eq pts A : compute_atom_weight ROps k M rad Rm pts A = map (fun d => W d A) pts.
Proof.
  unfold compute_atom_weight. apply single_sector_eq.
Qed.

Lemma routes_atom_lemma pts A :
  generate_weights ROps k M rad Rm pts [A] [] = Some (compute_atom_weight ROps k M rad Rm pts A).
Proof.
  unfold generate_weights. cbn [length Nat.eqb Nat.sub Nat.max negb nth].
  rewrite compute_atom_weight_eq, single_sector_eq. reflexivity.
Qed.

Lemma fold_enumerate {X Y} (f : X -> nat -> Y -> X) (dflt : Y) (l : list Y) : forall st acc,
  fold_left (fun w ki => f w (fst ki) (snd ki)) (combine (seq st (length l)) l) acc =
  fold_left (fun w k => f w k (nth (k - st) l dflt)) (seq st (length l)) acc.
Proof.
  induction l as [|x l IH]; intros st acc; [reflexivity|].
  cbn [length seq combine fold_left fst snd]. rewrite Nat.sub_diag. cbn [nth]. rewrite IH.
  apply fold_left_ext_in_seq. intros a i Hi. replace (i - st)%nat with (S (i - S st)) by lia. reflexivity.
Qed.

(* compute_weights and generate_weights are the same function for EVERY select and segment table *)
Lemma routes_agree_lemma pts sel idx :
  compute_weights ROps k M rad Rm pts sel idx = generate_weights ROps k M rad Rm pts sel idx.
Proof.
  unfold compute_weights, generate_weights. destruct (length idx =? 1)%nat; [reflexivity|].
  set (sectors := Nat.max (length idx - 1) 1).
  destruct (Nat.eqb_spec sectors (length sel)) as [Hs|Hs]; cbn [negb]; [|reflexivity].
  destruct (sectors =? 1)%nat eqn:E1.
  - f_equal. rewrite compute_atom_weight_eq.
    rewrite <- (map_length (fun d => W d (nth 0%nat sel 0%nat)) pts) at 1. rewrite add_at_zeros.
    rewrite single_sector_eq. reflexivity.
  - f_equal.
    rewrite (fold_enumerate (fun weights k0 i => add_at ROps weights (nth k0 idx 0%nat)
               (compute_atom_weight ROps k M rad Rm (slice pts (nth k0 idx 0%nat) (nth (S k0) idx 0%nat)) i)) 0%nat sel 0%nat).
    rewrite <- Hs. apply fold_left_ext_eq. intros a i. rewrite Nat.sub_0_r.
    rewrite compute_atom_weight_eq, slice_map, map_map. reflexivity.
Qed.

(* ---- chunked evaluation = unchunked evaluation ---- *)
Lemma nth_map_sub idx c i : nth i (map (fun x => (x - c)%nat) idx) 0%nat = (nth i idx 0%nat - c)%nat.
Proof. rewrite <- (map_nth (fun x => (x - c)%nat) idx 0%nat i). reflexivity. Qed.

Lemma pw_shift sel idx sectors c j d :
  pw sel (map (fun x => (x - c)%nat) idx) sectors j d = pw sel idx sectors (c + j) d.
Proof.
  unfold pw. destruct (sectors =? 1)%nat; [reflexivity|].
  apply fold_left_ext_eq. intros a i. rewrite !nth_map_sub. unfold inseg.
  destruct (Nat.leb_spec (nth i idx 0%nat - c) j), (Nat.leb_spec (nth i idx 0%nat) (c + j)); try lia;
  destruct (Nat.ltb_spec j (nth (S i) idx 0%nat - c)), (Nat.ltb_spec (c + j) (nth (S i) idx 0%nat)); try lia; reflexivity.
Qed.

Lemma args_ok_map sel idx f : args_ok sel (map f idx) = args_ok sel idx.
Proof. unfold args_ok. rewrite map_length. reflexivity. Qed.

Lemma generate_weights_split pts sel idx c l :
  generate_weights ROps k M rad Rm pts sel idx = Some l ->
  exists l1 l2, generate_weights ROps k M rad Rm (firstn c pts) sel idx = Some l1 /\
                generate_weights ROps k M rad Rm (skipn c pts) sel (map (fun x => (x - c)%nat) idx) = Some l2 /\
                l = l1 ++ l2.
Proof.
  intros H. destruct (args_ok sel idx) eqn:Ok; [|rewrite generate_weights_none in H by exact Ok; discriminate].
  destruct (generate_weights_spec pts sel idx Ok) as (l' & E & Hl & Hn). rewrite E in H. injection H as <-.
  destruct (generate_weights_spec (firstn c pts) sel idx Ok) as (l1 & E1 & Hl1 & Hn1).
  assert (Ok2 : args_ok sel (map (fun x => (x - c)%nat) idx) = true) by (rewrite args_ok_map; exact Ok).
  destruct (generate_weights_spec (skipn c pts) sel _ Ok2) as (l2 & E2 & Hl2 & Hn2).
  exists l1, l2. split; [exact E1|]. split; [exact E2|].
  rewrite map_length in Hn2.
  apply (nth_ext _ _ 0 0).
  - rewrite app_length, Hl, Hl1, Hl2, firstn_length, skipn_length. lia.
  - intros j Hj. rewrite Hl in Hj. rewrite (Hn j Hj).
    rewrite firstn_length in Hl1. rewrite skipn_length in Hl2.
    destruct (Nat.lt_ge_cases j c) as [Hjc|Hjc].
    + rewrite app_nth1 by (rewrite Hl1; lia). rewrite Hn1 by (rewrite firstn_length; lia).
      rewrite nth_firstn_b. replace (j <? c)%nat with true by (symmetry; apply Nat.ltb_lt; exact Hjc). reflexivity.
    + assert (Hc : length l1 = c) by (rewrite Hl1; lia).
      rewrite app_nth2 by lia. rewrite Hc. rewrite Hn2 by (rewrite skipn_length; lia).
      rewrite pw_shift, nth_skipn_b. replace (c + (j - c))%nat with j by lia. reflexivity.
Qed.

Lemma generate_weights_nil sel idx : args_ok sel idx = true -> generate_weights ROps k M rad Rm [] sel idx = Some [].
Proof.
  intros Ok. destruct (generate_weights_spec [] sel idx Ok) as (l & E & Hl & _). rewrite E.
  destruct l; [reflexivity | discriminate].
Qed.

Lemma chunks_from sel idx cs pts : (1 <= cs)%nat -> args_ok sel idx = true ->
  forall fuel b l, (length pts - b <= fuel)%nat ->
  generate_weights ROps k M rad Rm (skipn b pts) sel (map (fun x => (x - b)%nat) idx) = Some l ->
  concat_opt (map (fun ibegin => generate_weights ROps k M rad Rm (slice pts ibegin (ibegin + cs)) sel
                                   (map (fun x => (x - ibegin)%nat) idx))
                  (range_step fuel b cs (length pts))) = Some l.
Proof.
  intros Hcs Ok fuel; induction fuel as [|fuel IH]; intros b l Hf H.
  - cbn [range_step map concat_opt]. rewrite skipn_all2 in H by lia.
    rewrite generate_weights_nil in H by (rewrite args_ok_map; exact Ok). exact H.
  - cbn [range_step]. destruct (Nat.ltb_spec b (length pts)) as [Hb|Hb].
    + cbn [map concat_opt].
      destruct (generate_weights_split _ _ _ cs _ H) as (l1 & l2 & E1 & E2 & ->).
      replace (slice pts b (b + cs)) with (firstn cs (skipn b pts)) by (unfold slice; f_equal; lia).
      rewrite E1. rewrite skipn_skipn_b, map_map in E2.
      rewrite (map_ext (fun x => (x - b - cs)%nat) (fun x => (x - (cs + b))%nat)) in E2 by (intros; lia).
      rewrite (Nat.add_comm b cs). rewrite (IH (cs + b)%nat l2); [reflexivity | lia | exact E2].
    + cbn [map concat_opt]. rewrite skipn_all2 in H by lia.
      rewrite generate_weights_nil in H by (rewrite args_ok_map; exact Ok). exact H.
Qed.

Lemma args_ok_default idx : (1 <= M)%nat -> length idx = S M -> args_ok (seq 0 M) idx = true.
Proof.
  intros HM Hl. unfold args_ok. rewrite Hl, seq_length.
  replace (S M =? 1)%nat with false by (symmetry; apply Nat.eqb_neq; lia).
  replace (Nat.max (S M - 1) 1) with M by lia. rewrite Nat.eqb_refl. reflexivity.
Qed.

Lemma chunked_eq_unchunked_lemma cs pts idx : (1 <= cs)%nat -> (1 <= M)%nat -> length idx = S M ->
  call_with ROps k M rad Rm cs pts idx = generate_weights ROps k M rad Rm pts (seq 0 M) idx.
Proof.
  intros Hcs HM Hl. unfold call_with. pose proof (args_ok_default idx HM Hl) as Ok.
  destruct (generate_weights_spec pts (seq 0 M) idx Ok) as (l & E & _). rewrite E.
  apply chunks_from; [exact Hcs | exact Ok | lia |].
  cbn [skipn]. rewrite (map_ext (fun x => (x - 0)%nat) (fun x => x)) by (intros; lia). rewrite map_id. exact E.
Qed.
End Routes.

(* ------------------------------------------------------------------ segment ownership *)
Definition monotone (idx : list nat) : Prop :=
  forall i i', (i <= i')%nat -> (i' < length idx)%nat -> (nth i idx 0 <= nth i' idx 0)%nat.

Lemma owner_unique idx M A j i : monotone idx -> length idx = S M -> (A < M)%nat -> (i < M)%nat ->
  inseg (nth A idx 0%nat) (nth (S A) idx 0%nat) j = true ->
  (inseg (nth i idx 0%nat) (nth (S i) idx 0%nat) j = true <-> i = A).
Proof.
  intros Hm Hl HA Hi HjA. unfold inseg in *. apply andb_prop in HjA as [H1 H2].
  apply Nat.leb_le in H1. apply Nat.ltb_lt in H2. split.
  - intros H. apply andb_prop in H as [H3 H4]. apply Nat.leb_le in H3. apply Nat.ltb_lt in H4.
    destruct (Nat.lt_trichotomy i A) as [Hlt|[->|Hgt]]; [|reflexivity|].
    + pose proof (Hm (S i) A ltac:(lia) ltac:(lia)). lia.
    + pose proof (Hm (S A) i ltac:(lia) ltac:(lia)). lia.
  - intros ->. apply andb_true_intro. split; [apply Nat.leb_le | apply Nat.ltb_lt]; assumption.
Qed.

Lemma fold_owner_add (c : nat -> bool) (g : nat -> R) A len : forall st a0,
  (forall i, (st <= i < st + len)%nat -> (c i = true <-> i = A)) ->
  fold_left (fun a i => if c i then a + g i else a) (seq st len) a0 =
  if (st <=? A)%nat && (A <? st + len)%nat then a0 + g A else a0.
Proof.
  induction len as [|len IH]; intros st a0 H; cbn [seq fold_left].
  - destruct (Nat.leb_spec st A), (Nat.ltb_spec A (st + 0)); cbn [andb]; try reflexivity; lia.
  - rewrite IH by (intros i Hi; apply H; lia).
    destruct (c st) eqn:Ec.
    + assert (st = A) by (apply H; [lia | exact Ec]). subst st.
      replace (S A <=? A)%nat with false by (symmetry; apply Nat.leb_gt; lia). cbn [andb].
      rewrite Nat.leb_refl. replace (A <? A + S len)%nat with true by (symmetry; apply Nat.ltb_lt; lia). reflexivity.
    + assert (st <> A) by (intros ->; assert (c A = true) by (apply H; [lia | reflexivity]); congruence).
      destruct (Nat.leb_spec (S st) A), (Nat.leb_spec st A), (Nat.ltb_spec A (S st + len)), (Nat.ltb_spec A (st + S len));
        cbn [andb]; try reflexivity; lia.
Qed.
Lemma fold_owner_set (c : nat -> bool) (g : nat -> R) A len : forall st a0,
  (forall i, (st <= i < st + len)%nat -> (c i = true <-> i = A)) ->
  fold_left (fun a i => if c i then g i else a) (seq st len) a0 =
  if (st <=? A)%nat && (A <? st + len)%nat then g A else a0.
Proof.
  induction len as [|len IH]; intros st a0 H; cbn [seq fold_left].
  - destruct (Nat.leb_spec st A), (Nat.ltb_spec A (st + 0)); cbn [andb]; try reflexivity; lia.
  - rewrite IH by (intros i Hi; apply H; lia).
    destruct (c st) eqn:Ec.
    + assert (st = A) by (apply H; [lia | exact Ec]). subst st.
      replace (S A <=? A)%nat with false by (symmetry; apply Nat.leb_gt; lia). cbn [andb].
      rewrite Nat.leb_refl. replace (A <? A + S len)%nat with true by (symmetry; apply Nat.ltb_lt; lia). reflexivity.
    + assert (st <> A) by (intros ->; assert (c A = true) by (apply H; [lia | reflexivity]); congruence).
      destruct (Nat.leb_spec (S st) A), (Nat.leb_spec st A), (Nat.ltb_spec A (S st + len)), (Nat.ltb_spec A (st + S len));
        cbn [andb]; try reflexivity; lia.
Qed.

Lemma chunk_size_pos n M : (1 <= chunk_size n M)%nat.
Proof. unfold chunk_size. lia. Qed.

Lemma segment_owner_lemma k M rad Rm pts idx A j :
  (1 <= M)%nat -> length idx = S M -> monotone idx -> (A < M)%nat -> (j < length pts)%nat ->
  (nth A idx 0 <= j < nth (S A) idx 0)%nat ->
  exists l, call ROps k M rad Rm pts idx = Some l /\ length l = length pts /\
            nth j l 0 = becke_weight ROps k M rad Rm (nth j pts d0) A.
Proof.
  intros HM Hl Hmono HA Hj Hseg. unfold call.
  rewrite chunked_eq_unchunked_lemma by (try apply chunk_size_pos; assumption).
  destruct (generate_weights_spec k M rad Rm pts (seq 0 M) idx (args_ok_default M idx HM Hl)) as (l & E & Hlen & Hn).
  exists l. split; [exact E|]. split; [exact Hlen|]. rewrite (Hn j Hj). unfold pw.
  rewrite Hl. replace (Nat.max (S M - 1) 1) with M by lia.
  destruct (Nat.eqb_spec M 1) as [->|HM1].
  - assert (A = 0%nat) by lia. subst A. reflexivity.
  - assert (HjA : inseg (nth A idx 0%nat) (nth (S A) idx 0%nat) j = true).
    { unfold inseg. apply andb_true_intro. split; [apply Nat.leb_le | apply Nat.ltb_lt]; lia. }
    rewrite (fold_left_ext_in_seq _ (fun a i => if inseg (nth i idx 0%nat) (nth (S i) idx 0%nat) j
                                                then a + W k M rad Rm (nth j pts d0) i else a)).
    2:{ intros a i Hi. rewrite seq_nth by lia. reflexivity. }
    rewrite (fold_owner_add (fun i => inseg (nth i idx 0%nat) (nth (S i) idx 0%nat) j) (fun i => W k M rad Rm (nth j pts d0) i) A).
    + replace (0 <=? A)%nat with true by reflexivity.
      replace (A <? 0 + M)%nat with true by (symmetry; apply Nat.ltb_lt; lia). cbn [andb]. unfold W. lra.
    + intros i Hi. apply owner_unique with M; try assumption. lia.
Qed.

(* ------------------------------------------------------------------ HirshfeldWeights.__call__ *)
Lemma set_at_length (acc : list R) s vals : length (set_at acc s vals) = length acc.
Proof.
  revert s vals; induction acc as [|x r IH]; intros s vals; [reflexivity|].
  destruct s as [|s]; cbn [set_at length]; [destruct vals; cbn [length]; [reflexivity | rewrite IH; reflexivity] | rewrite IH; reflexivity].
Qed.
Lemma nth_set_at (acc : list R) s vals j :
  nth j (set_at acc s vals) 0 =
  if (s <=? j)%nat && (j <? s + length vals)%nat && (j <? length acc)%nat then nth (j - s) vals 0 else nth j acc 0.
Proof.
  revert s vals j; induction acc as [|x r IH]; intros s vals j.
  - cbn [set_at length]. replace (j <? 0)%nat with false by (symmetry; apply Nat.ltb_ge; lia).
    rewrite andb_false_r. reflexivity.
  - destruct s as [|s].
    + destruct vals as [|v vs].
      * cbn [set_at length]. replace (j <? 0 + 0)%nat with false by (symmetry; apply Nat.ltb_ge; lia).
        rewrite andb_false_r. reflexivity.
      * cbn [set_at]. destruct j as [|j]; [cbn; reflexivity|].
        cbn [nth]. rewrite IH. cbn [length Nat.leb]. rewrite !Nat.sub_0_r. cbn [nth].
        replace (S j <? 0 + S (length vs))%nat with (j <? 0 + length vs)%nat
          by (destruct (Nat.ltb_spec j (0 + length vs)), (Nat.ltb_spec (S j) (0 + S (length vs))); try reflexivity; lia).
        replace (S j <? S (length r))%nat with (j <? length r)%nat
          by (destruct (Nat.ltb_spec j (length r)), (Nat.ltb_spec (S j) (S (length r))); try reflexivity; lia).
        reflexivity.
    + cbn [set_at]. destruct j as [|j]; [cbn; reflexivity|].
      cbn [nth]. rewrite IH. cbn [length].
      replace (S s <=? S j)%nat with (s <=? j)%nat by reflexivity.
      replace (S j <? S s + length vals)%nat with (j <? s + length vals)%nat
        by (destruct (Nat.ltb_spec j (s + length vals)), (Nat.ltb_spec (S j) (S s + length vals)); try reflexivity; lia).
      replace (S j <? S (length r))%nat with (j <? length r)%nat
        by (destruct (Nat.ltb_spec j (length r)), (Nat.ltb_spec (S j) (S (length r))); try reflexivity; lia).
      reflexivity.
Qed.
Lemma nth_set_at_slice (acc v : list R) s e j : length v = length acc -> (j < length acc)%nat ->
  nth j (set_at acc s (slice v s e)) 0 = if inseg s e j then nth j v 0 else nth j acc 0.
Proof.
  intros Hl Hj. rewrite nth_set_at, slice_length, nth_slice. unfold inseg.
  destruct (Nat.leb_spec s j); cbn [andb]; [|destruct (j <? e)%nat; reflexivity].
  destruct (Nat.ltb_spec j e).
  - replace (j <? s + Nat.min (e - s) (length v - s))%nat with true by (symmetry; apply Nat.ltb_lt; lia).
    replace (j <? length acc)%nat with true by (symmetry; apply Nat.ltb_lt; lia).
    replace (j - s <? e - s)%nat with true by (symmetry; apply Nat.ltb_lt; lia).
    cbn [andb]. replace (s + (j - s))%nat with j by lia. reflexivity.
  - replace (j <? s + Nat.min (e - s) (length v - s))%nat with false by (symmetry; apply Nat.ltb_ge; lia).
    reflexivity.
Qed.
Lemma vadd_spec (a b : list R) : length a = length b ->
  length (vadd ROps a b) = length a /\ forall j, nth j (vadd ROps a b) 0 = nth j a 0 + nth j b 0.
Proof.
  revert b; induction a as [|x a IH]; intros [|y b] H; try discriminate; cbn [vadd length].
  - split; [reflexivity | intros [|j]; cbn; lra].
  - injection H as H. destruct (IH b H) as [I1 I2]. split; [rewrite I1; reflexivity|].
    intros [|j]; cbn [nth]; [reflexivity | apply I2].
Qed.
Lemma vdiv_spec (a b : list R) : length a = length b ->
  forall j, (j < length a)%nat -> nth j (vdiv ROps a b) 0 = nth j a 0 / nth j b 0.
Proof.
  revert b; induction a as [|x a IH]; intros [|y b] H j Hj; try discriminate; cbn [length] in *; [lia|].
  injection H as H. destruct j as [|j]; cbn [vdiv nth]; [reflexivity | apply IH; [exact H | lia]].
Qed.

Section HirshfeldCall.
Variable M : nat.
Variable rho : nat -> R -> R.

Lemma hirshfeld_call_share_lemma pts idx A j :
  length idx = S M -> monotone idx -> (A < M)%nat -> (j < length pts)%nat ->
  (nth A idx 0 <= j < nth (S A) idx 0)%nat ->
  nth j (hirshfeld_call ROps M rho pts idx) 0 = hirshfeld_weight ROps M rho (nth j pts d0) A.
Proof.
  intros Hl Hmono HA Hj Hseg. unfold hirshfeld_call.
  set (pro := fun A => map (fun d : nat -> R => rho A (d A)) pts).
  set (n := length pts). set (z := repeat (nzero ROps) n).
  assert (Hz : length z = n) by apply repeat_length.
  assert (Hpro : forall B, length (pro B) = n) by (intros; unfold pro; apply map_length).
  assert (G : forall l a p, length a = n -> length p = n ->
    let r := fold_left (fun '(aim, promol) B =>
               let proatom := map (fun d : nat -> R => rho B (d B)) pts in
               let s := nth B idx 0%nat in let e := nth (S B) idx 0%nat in
               (set_at aim s (slice proatom s e), vadd ROps promol proatom)) l (a, p) in
    length (fst r) = n /\ length (snd r) = n /\
    nth j (fst r) 0 = fold_left (fun x B => if inseg (nth B idx 0%nat) (nth (S B) idx 0%nat) j then nth j (pro B) 0 else x) l (nth j a 0) /\
    nth j (snd r) 0 = fold_left (fun x B => x + nth j (pro B) 0) l (nth j p 0)).
  { induction l as [|B l IH]; intros a p Ha Hp; cbn [fold_left].
    - cbn. auto.
    - fold (pro B). destruct (vadd_spec p (pro B) ltac:(rewrite Hp, Hpro; reflexivity)) as [V1 V2].
      specialize (IH (set_at a (nth B idx 0%nat) (slice (pro B) (nth B idx 0%nat) (nth (S B) idx 0%nat))) (vadd ROps p (pro B))).
      rewrite set_at_length in IH. specialize (IH Ha ltac:(rewrite V1; exact Hp)). cbn zeta in IH.
      destruct IH as (I1 & I2 & I3 & I4). repeat split; [exact I1 | exact I2 | |].
      + rewrite I3. rewrite nth_set_at_slice by (rewrite ?Hpro, ?Ha; auto). reflexivity.
      + rewrite I4, V2. reflexivity. }
  specialize (G (seq 0 M) z z Hz Hz). cbn zeta in G.
  destruct (fold_left _ (seq 0 M) (z, z)) as [aim promol]. cbn [fst snd] in G. destruct G as (G1 & G2 & G3 & G4).
  rewrite vdiv_spec by (rewrite ?G1, ?G2; auto). rewrite G3, G4.
  assert (Hz0 : nth j z 0 = 0) by (unfold z; cbn [nzero ROps]; clear; revert j; induction n; intros [|j]; cbn; auto).
  rewrite Hz0. unfold hirshfeld_weight. cbn [ndiv nadd nzero ROps].
  assert (Hp : forall B, nth j (pro B) 0 = rho B (nth j pts d0 B)).
  { intros B. unfold pro. rewrite (nth_map_d _ pts j d0) by exact Hj. reflexivity. }
  f_equal.
  - assert (HjA : inseg (nth A idx 0%nat) (nth (S A) idx 0%nat) j = true).
    { unfold inseg. apply andb_true_intro. split; [apply Nat.leb_le | apply Nat.ltb_lt]; lia. }
    rewrite (fold_owner_set (fun B => inseg (nth B idx 0%nat) (nth (S B) idx 0%nat) j) (fun B => nth j (pro B) 0) A).
    + replace (0 <=? A)%nat with true by reflexivity.
      replace (A <? 0 + M)%nat with true by (symmetry; apply Nat.ltb_lt; lia). cbn [andb]. apply Hp.
    + intros i Hi. apply owner_unique with M; try assumption. lia.
  - rewrite (fold_left_ext_eq _ (fun x B => x + rho B (nth j pts d0 B))) by (intros; rewrite Hp; reflexivity).
    rewrite fold_left_plus_sum. lra.
Qed.
End HirshfeldCall.

Lemma routes_agree_atom_lemma k M rad Rm pts A :
  generate_weights ROps k M rad Rm pts [A] [] = Some (compute_atom_weight ROps k M rad Rm pts A) /\
  compute_atom_weight ROps k M rad Rm pts A = map (fun d => becke_weight ROps k M rad Rm d A) pts.
Proof. split; [apply routes_atom_lemma | apply compute_atom_weight_eq]. Qed.
