(* C08: the loop of generate_real_spherical_harmonics (generated body g_step + skeleton) returns, for every l_max,
   exactly the list of Y_lm of the definition (C08_model_spec.v) in Horton-2 order. *)
From Coq Require Import Reals ZArith List Bool Arith Lia Lra.
From P Require Import C08_model_base C08_gen C08_model_spec C08_model.
Import ListNotations.
Open Scope R_scope.

Lemma IZRn n : IZR (Z.of_nat n) = INR n.
Proof. symmetry. apply INR_IZR_INZ. Qed.

(* ---------------- facts about the definition ---------------- *)
Lemma Plm_lt l m s c : (l < m)%nat -> Plm l m s c = 0.
Proof.
  intros H. destruct l as [|l]; unfold Plm; cbn [Ppair fst].
  - destruct m; [lia|reflexivity].
  - destruct (Nat.ltb_spec (S l) m); [reflexivity|lia].
Qed.

Lemma Plm_diag m s c : Plm m m s c = Pdiag m s.
Proof.
  destruct m as [|m]; unfold Plm; cbn [Ppair fst]; [reflexivity|].
  destruct (Nat.ltb_spec (S m) (S m)); [lia|]. rewrite Nat.eqb_refl. reflexivity.
Qed.

Lemma snd_Ppair_S l m s c : snd (Ppair (S l) m s c) = Plm l m s c.
Proof. reflexivity. Qed.

Lemma Plm_rec l m s c : (m < S l)%nat ->
  Plm (S l) m s c = ((2 * INR (S l) - 1) * c * Plm l m s c - (INR (S l) + INR m - 1) * snd (Ppair l m s c)) / (INR (S l) - INR m).
Proof.
  intros H. unfold Plm at 1. cbn [Ppair fst].
  destruct (Nat.ltb_spec (S l) m); [lia|]. destruct (Nat.eqb_spec (S l) m); [lia|]. reflexivity.
Qed.

Definition Yraw (l : nat) (m : Z) (th s c : R) : R := Nlm l (Z.abs_nat m) * Plm l (Z.abs_nat m) s c * az m th.

Lemma Yspec_raw l m th ph : Yspec l m th ph = Yraw l m th (sin ph) (cos ph).
Proof. reflexivity. Qed.

(* ---------------- buffer primitives ---------------- *)
Lemma rd_upd_same b i k v : rd (upd b i k v) i k = v.
Proof. unfold rd, upd. rewrite Z.eqb_refl. destruct (Z.eqb k 0); reflexivity. Qed.
Lemma rd_upd_col b i v : rd (upd b i 1 v) i 0 = rd b i 0.
Proof. unfold rd, upd. rewrite Z.eqb_refl. reflexivity. Qed.
Lemma rd_upd_col' b i v : rd (upd b i 0 v) i 1 = rd b i 1.
Proof. unfold rd, upd. rewrite Z.eqb_refl. reflexivity. Qed.
Lemma upd_other b i k v z : z <> i -> upd b i k v z = b z.
Proof. intros H. unfold upd. destruct (Z.eqb_spec z i); [contradiction|reflexivity]. Qed.

(* ---------------- one iteration, m_ord < l_deg (forward recursion) ---------------- *)
Lemma step_nd l m s c th b f :
  (m <= l)%nat ->
  fst (b (Z.of_nat m)) = Plm l m s c ->
  ((m < l)%nat -> snd (b (Z.of_nat m)) = snd (Ppair l m s c)) ->
  ((1 <= m)%nat -> f = Dn (S l) m) ->
  exists b',
    g_step (Z.of_nat (S l)) (Z.of_nat m) s c th b f =
      (b', Dn (S l) (S m),
       if Nat.eqb m 0 then [Yraw (S l) 0 th s c] else [Yraw (S l) (Z.of_nat m) th s c; Yraw (S l) (- Z.of_nat m) th s c])
    /\ b' (Z.of_nat m) = (Plm (S l) m s c, Plm l m s c)
    /\ forall z, z <> Z.of_nat m -> b' z = b z.
Proof.
  intros Hm Hc Hp Hf. unfold g_step.
  destruct (Z.eqb_spec (Z.of_nat (S l)) (Z.of_nat m)) as [E|_]; [lia|].
  set (sf := if (Z.of_nat m <=? Z.of_nat (S l) - 2)%Z then _ else 0).
  set (b1 := upd b (Z.of_nat m) 1 (rd b (Z.of_nat m) 0)).
  set (new := g_a_k (IZR (Z.of_nat (S l))) (IZR (Z.of_nat m)) * c * rd b1 (Z.of_nat m) 0 - sf).
  set (b2 := upd b1 (Z.of_nat m) 0 new).
  assert (Enew : new = Plm (S l) m s c).
  { unfold new, b1. rewrite rd_upd_col. unfold rd. cbn [Z.eqb]. rewrite Hc.
    rewrite Plm_rec by lia. unfold g_a_k. rewrite !IZRn.
    assert (Hne : INR (S l) - INR m <> 0) by (apply Rminus_eq_contra, Rgt_not_eq, lt_INR; lia).
    assert (Esf : sf = (INR (S l) + INR m - 1) * snd (Ppair l m s c) / (INR (S l) - INR m)).
    { unfold sf. destruct (Z.leb_spec (Z.of_nat m) (Z.of_nat (S l) - 2)) as [Hle|Hgt].
      - unfold g_b_k, rd. cbn [Z.eqb]. rewrite Hp by lia. rewrite !IZRn. field. exact Hne.
      - assert (m = l) by lia. subst m.
        destruct l as [|l']; [cbn [Ppair snd]|rewrite snd_Ppair_S, Plm_lt by lia]; field; exact Hne. }
    rewrite Esf. field. split; [exact Hne|]. replace (INR (S l) - 1 - INR m + 1) with (INR (S l) - INR m) by ring. exact Hne. }
  assert (Hb2 : b2 (Z.of_nat m) = (Plm (S l) m s c, Plm l m s c)).
  { unfold b2, b1, upd. rewrite !Z.eqb_refl. cbn [Z.eqb fst snd]. rewrite Enew. unfold rd. cbn [Z.eqb]. rewrite Hc. reflexivity. }
  assert (Hoth : forall z, z <> Z.of_nat m -> b2 z = b z).
  { intros z Hz. unfold b2, b1. rewrite !upd_other by exact Hz. reflexivity. }
  assert (Erd : rd b2 (Z.of_nat m) 0 = Plm (S l) m s c) by (unfold rd; cbn [Z.eqb]; rewrite Hb2; reflexivity).
  exists b2. split; [|split; assumption].
  destruct (Z.eqb_spec (Z.of_nat m) 0) as [E0|N0].
  - assert (m = 0)%nat by lia. subst m. cbn [Nat.eqb]. rewrite Erd. f_equal; [f_equal|].
    + cbn [Dn]. rewrite IZRn. change (INR 0) with 0. f_equal. ring.
    + f_equal. unfold Yraw, g_fac_sph, az. cbn [Z.abs_nat Z.ltb Z.compare Nlm]. rewrite IZRn. ring.
  - destruct m as [|m']; [lia|]. cbn [Nat.eqb]. rewrite Erd, (Hf ltac:(lia)). f_equal; [f_equal|].
    + cbn [Dn]. rewrite !IZRn. reflexivity.
    + unfold Yraw, g_fac_sph, az. rewrite Zabs2Nat.abs_nat_spec, Z.abs_opp, <- Zabs2Nat.abs_nat_spec, !Zabs2Nat.id.
      destruct (Z.ltb_spec 0 (Z.of_nat (S m'))) as [_|]; [|lia].
      destruct (Z.ltb_spec 0 (- Z.of_nat (S m'))) as [|_]; [lia|].
      destruct (Z.ltb_spec (- Z.of_nat (S m')) 0) as [_|]; [|lia].
      rewrite Z.opp_involutive. cbn [Nlm]. rewrite !IZRn. f_equal; [|f_equal]; unfold Rdiv; ring.
Qed.
