(* C08: the loop of generate_real_spherical_harmonics (generated body g_step + skeleton) returns, for every l_max,
   exactly the list of Y_lm of the definition (C08_model_spec.v) in Horton-2 order. *)
From Coq Require Import Reals ZArith List Bool Arith Lia Lra.
From P Require Import C08_model_base C08_gen C08_model_spec C08_model.
Import ListNotations.
Open Scope R_scope.

Lemma IZRn n : IZR (Z.of_nat n) = INR n.
Proof. symmetry. apply INR_IZR_INZ. Qed.

Lemma abs_nat_opp z : Z.abs_nat (- z) = Z.abs_nat z.
Proof. destruct z; reflexivity. Qed.

(* ---------------- facts about the definition ---------------- *)
Lemma Plm_lt l m s c : (l < m)%nat -> Plm l m s c = 0.
Proof.
  intros H. destruct l as [|l]; unfold Plm; cbn [Ppair fst].
  - destruct m; [lia|reflexivity].
  - destruct (Nat.ltb_spec (S l) m); [reflexivity|lia].
Qed.

Lemma Plm_diag m s c : Plm m m s c = Pdiag m s.
Proof.
  destruct m as [|m]; unfold Plm; cbn [Ppair fst]; [reflexivity|].
  destruct (Nat.ltb_spec (S m) (S m)); [lia|]. rewrite Nat.eqb_refl. reflexivity.
Qed.

Lemma snd_Ppair_S l m s c : snd (Ppair (S l) m s c) = Plm l m s c.
Proof. reflexivity. Qed.

Lemma Plm_rec l m s c : (m < S l)%nat ->
  Plm (S l) m s c = ((2 * INR (S l) - 1) * c * Plm l m s c - (INR (S l) + INR m - 1) * snd (Ppair l m s c)) / (INR (S l) - INR m).
Proof.
  intros H. unfold Plm at 1. cbn [Ppair fst].
  destruct (Nat.ltb_spec (S l) m); [lia|]. destruct (Nat.eqb_spec (S l) m); [lia|]. reflexivity.
Qed.

Definition Yraw (l : nat) (m : Z) (th s c : R) : R := Nlm l (Z.abs_nat m) * Plm l (Z.abs_nat m) s c * az m th.

Lemma Yspec_raw l m th ph : Yspec l m th ph = Yraw l m th (sin ph) (cos ph).
Proof. reflexivity. Qed.

(* ---------------- buffer primitives ---------------- *)
Lemma rd_upd_same b i k v : rd (upd b i k v) i k = v.
Proof. unfold rd, upd. rewrite (Z.eqb_refl i). destruct (Z.eqb k 0); reflexivity. Qed.
Lemma rd_upd_col b i v : rd (upd b i 1 v) i 0 = rd b i 0.
Proof. unfold rd, upd. rewrite (Z.eqb_refl i). cbn [Z.eqb fst snd]. reflexivity. Qed.
Lemma rd_upd_col' b i v : rd (upd b i 0 v) i 1 = rd b i 1.
Proof. unfold rd, upd. rewrite (Z.eqb_refl i). cbn [Z.eqb fst snd]. reflexivity. Qed.
Lemma upd_other b i k v z : z <> i -> upd b i k v z = b z.
Proof. intros H. unfold upd. destruct (Z.eqb_spec z i); [contradiction|reflexivity]. Qed.

(* ---------------- one iteration, m_ord < l_deg (forward recursion) ---------------- *)
Lemma step_nd l m s c th b f :
  (m <= l)%nat ->
  fst (b (Z.of_nat m)) = Plm l m s c ->
  ((m < l)%nat -> snd (b (Z.of_nat m)) = snd (Ppair l m s c)) ->
  ((1 <= m)%nat -> f = Dn (S l) m) ->
  exists b',
    g_step (Z.of_nat (S l)) (Z.of_nat m) s c th b f =
      (b', Dn (S l) (S m),
       if Nat.eqb m 0 then [Yraw (S l) 0 th s c] else [Yraw (S l) (Z.of_nat m) th s c; Yraw (S l) (- Z.of_nat m) th s c])
    /\ b' (Z.of_nat m) = (Plm (S l) m s c, Plm l m s c)
    /\ forall z, z <> Z.of_nat m -> b' z = b z.
Proof.
  intros Hm Hc Hp Hf. unfold g_step.
  destruct (Z.eqb_spec (Z.of_nat (S l)) (Z.of_nat m)) as [E|_]; [lia|].
  set (sf := if (Z.of_nat m <=? Z.of_nat (S l) - 2)%Z then _ else 0).
  set (b1 := upd b (Z.of_nat m) 1 (rd b (Z.of_nat m) 0)).
  set (new := g_a_k (IZR (Z.of_nat (S l))) (IZR (Z.of_nat m)) * c * rd b1 (Z.of_nat m) 0 - sf).
  set (b2 := upd b1 (Z.of_nat m) 0 new).
  assert (Enew : new = Plm (S l) m s c).
  { unfold new, b1. rewrite rd_upd_col. unfold rd. cbn [Z.eqb]. rewrite Hc.
    rewrite Plm_rec by lia. unfold g_a_k. rewrite !IZRn.
    assert (Hne : INR (S l) - INR m <> 0) by (apply Rminus_eq_contra, Rgt_not_eq, lt_INR; lia).
    assert (Esf : sf = (INR (S l) + INR m - 1) * snd (Ppair l m s c) / (INR (S l) - INR m)).
    { unfold sf. destruct (Z.leb_spec (Z.of_nat m) (Z.of_nat (S l) - 2)) as [Hle|Hgt].
      - unfold g_b_k, rd. cbn [Z.eqb]. rewrite Hp by lia. rewrite !IZRn. field. exact Hne.
      - assert (m = l) by lia. subst m.
        destruct l as [|l']; [cbn [Ppair snd]|rewrite snd_Ppair_S, Plm_lt by lia]; field; exact Hne. }
    rewrite Esf. field. exact Hne. }
  assert (Hb2 : b2 (Z.of_nat m) = (Plm (S l) m s c, Plm l m s c)).
  { unfold b2, b1, upd. rewrite !Z.eqb_refl. cbn [Z.eqb fst snd]. rewrite Enew. unfold rd. cbn [Z.eqb]. rewrite Hc. reflexivity. }
  assert (Hoth : forall z, z <> Z.of_nat m -> b2 z = b z).
  { intros z Hz. unfold b2, b1. rewrite !upd_other by exact Hz. reflexivity. }
  assert (Erd : rd b2 (Z.of_nat m) 0 = Plm (S l) m s c) by (unfold rd; cbn [Z.eqb]; rewrite Hb2; reflexivity).
  exists b2. split; [|split; assumption].
  destruct (Z.eqb_spec (Z.of_nat m) 0) as [E0|N0].
  - assert (m = 0)%nat by lia. subst m. cbn [Nat.eqb]. rewrite Erd. f_equal; [f_equal|].
    + cbn [Dn]. rewrite IZRn, Rmult_1_l. change (INR 0) with 0. f_equal. ring.
    + f_equal. unfold Yraw, g_fac_sph, az. cbn [Z.abs_nat Z.ltb Z.compare Nlm]. rewrite IZRn. ring.
  - destruct m as [|m']; [lia|]. cbn [Nat.eqb]. rewrite Erd, (Hf ltac:(lia)). f_equal; [f_equal|].
    + cbn [Dn]. rewrite !IZRn. reflexivity.
    + unfold Yraw, g_fac_sph, az. rewrite abs_nat_opp, !Zabs2Nat.id.
      destruct (Z.ltb_spec 0 (Z.of_nat (S m'))) as [_|]; [|lia].
      destruct (Z.ltb_spec 0 (- Z.of_nat (S m'))) as [|_]; [lia|].
      destruct (Z.ltb_spec (- Z.of_nat (S m')) 0) as [_|]; [|lia].
      rewrite Z.opp_involutive. cbn [Nlm]. rewrite !IZRn. f_equal; [|f_equal]; unfold Rdiv; ring.
Qed.

(* ---------------- one iteration, m_ord = l_deg (diagonal recursion) ---------------- *)
Lemma step_diag l s c th b f :
  snd (b (Z.of_nat l)) = Plm l l s c ->
  f = Dn (S l) (S l) ->
  exists b',
    g_step (Z.of_nat (S l)) (Z.of_nat (S l)) s c th b f =
      (b', Dn (S l) (S (S l)), [Yraw (S l) (Z.of_nat (S l)) th s c; Yraw (S l) (- Z.of_nat (S l)) th s c])
    /\ fst (b' (Z.of_nat (S l))) = Plm (S l) (S l) s c
    /\ forall z, z <> Z.of_nat (S l) -> b' z = b z.
Proof.
  intros Hp Hf. unfold g_step. rewrite Z.eqb_refl.
  replace (Z.of_nat (S l) - 1)%Z with (Z.of_nat l) by lia.
  set (new := rd b (Z.of_nat l) 1 * (2 * (IZR (Z.of_nat (S l)) - 1) + 1) * s).
  set (b1 := upd b (Z.of_nat (S l)) 0 new).
  assert (Enew : new = Plm (S l) (S l) s c).
  { unfold new, rd. cbn [Z.eqb]. rewrite Hp, !Plm_diag, IZRn, S_INR. cbn [Pdiag]. ring. }
  assert (Erd : rd b1 (Z.of_nat (S l)) 0 = Plm (S l) (S l) s c) by (unfold b1; rewrite rd_upd_same; exact Enew).
  exists b1. split; [|split].
  - destruct (Z.eqb_spec (Z.of_nat (S l)) 0) as [E0|_]; [lia|]. rewrite Erd, Hf. f_equal; [f_equal|].
    + cbn [Dn]. rewrite !IZRn. reflexivity.
    + unfold Yraw, g_fac_sph, az. rewrite abs_nat_opp, !Zabs2Nat.id.
      destruct (Z.ltb_spec 0 (Z.of_nat (S l))) as [_|]; [|lia].
      destruct (Z.ltb_spec 0 (- Z.of_nat (S l))) as [|_]; [lia|].
      destruct (Z.ltb_spec (- Z.of_nat (S l)) 0) as [_|]; [|lia].
      rewrite Z.opp_involutive. cbn [Nlm]. rewrite !IZRn. f_equal; [|f_equal]; unfold Rdiv; ring.
  - unfold b1, upd. rewrite Z.eqb_refl. cbn [Z.eqb fst]. exact Enew.
  - intros z Hz. unfold b1. apply upd_other. exact Hz.
Qed.

(* state of the Legendre buffer after degree n has been completed *)
Definition dinv (n : nat) (s c : R) (b : buf) : Prop :=
  (forall j, (j <= n)%nat -> fst (b (Z.of_nat j)) = Plm n j s c) /\
  (forall j, (j < n)%nat -> snd (b (Z.of_nat j)) = snd (Ppair n j s c)).

Definition pm_rows (l : nat) (th s c : R) (x : nat) : list R :=
  [Yraw l (Z.of_nat x) th s c; Yraw l (- Z.of_nat x) th s c].

Lemma inner_run l s c th : forall k m b f acc,
  (m + k = S (S l))%nat -> (1 <= m)%nat ->
  (forall j, (j < m)%nat -> fst (b (Z.of_nat j)) = Plm (S l) j s c /\ ((j <= l)%nat -> snd (b (Z.of_nat j)) = Plm l j s c)) ->
  (forall j, (m <= j <= l)%nat -> fst (b (Z.of_nat j)) = Plm l j s c /\ ((j < l)%nat -> snd (b (Z.of_nat j)) = snd (Ppair l j s c))) ->
  f = Dn (S l) m ->
  exists b' f',
    sph_inner (S l) k m s c th b f acc = (b', f', acc ++ flat_map (pm_rows (S l) th s c) (seq m k)) /\ dinv (S l) s c b'.
Proof.
  induction k as [|k IH]; intros m b f acc Hmk Hm1 Hdone Htodo Hf.
  - cbn [sph_inner seq flat_map]. rewrite app_nil_r. exists b, f. split; [reflexivity|]. split.
    + intros j Hj. apply Hdone. lia.
    + intros j Hj. rewrite snd_Ppair_S. apply Hdone; lia.
  - cbn [sph_inner seq flat_map].
    destruct (Nat.eq_dec m (S l)) as [E|N].
    + subst m. destruct (step_diag l s c th b f) as (b' & Hs & Hd & Ho); [apply Hdone; lia|exact Hf|].
      rewrite Hs.
      destruct (IH (S (S l)) b' (Dn (S l) (S (S l))) (acc ++ pm_rows (S l) th s c (S l))) as (b'' & f'' & Hr & Hinv); try lia; try reflexivity.
      * intros j Hj. destruct (Nat.eq_dec j (S l)) as [->|Nj].
        -- split; [exact Hd|lia].
        -- rewrite Ho by lia. apply Hdone. lia.
      * exists b'', f''. split; [|exact Hinv]. unfold pm_rows at 1 in Hr. rewrite Hr, <- app_assoc. reflexivity.
    + destruct (Htodo m ltac:(lia)) as [Hc Hp].
      destruct (step_nd l m s c th b f) as (b' & Hs & Hd & Ho); try assumption; try lia. { intros _. exact Hf. }
      rewrite Hs. destruct (Nat.eqb_spec m 0) as [|_]; [lia|].
      destruct (IH (S m) b' (Dn (S l) (S m)) (acc ++ pm_rows (S l) th s c m)) as (b'' & f'' & Hr & Hinv); try lia; try reflexivity.
      * intros j Hj. destruct (Nat.eq_dec j m) as [->|Nj].
        -- rewrite Hd. cbn [fst snd]. split; [reflexivity|intros _; reflexivity].
        -- rewrite Ho by lia. apply Hdone. lia.
      * intros j Hj. rewrite Ho by lia. apply Htodo. lia.
      * exists b'', f''. split; [|exact Hinv]. unfold pm_rows at 1 in Hr. rewrite Hr, <- app_assoc. reflexivity.
Qed.

Lemma sph_inner_S l k m s c th b f acc :
  sph_inner l (S k) m s c th b f acc =
  let '(b', f', outs) := g_step (Z.of_nat l) (Z.of_nat m) s c th b f in sph_inner l k (S m) s c th b' f' (acc ++ outs).
Proof. reflexivity. Qed.

(* one complete degree *)
Lemma degree_run l s c th b f acc :
  dinv l s c b ->
  exists b' f',
    sph_inner (S l) (S (S l)) 0 s c th b f acc =
      (b', f', acc ++ Yraw (S l) 0 th s c :: flat_map (pm_rows (S l) th s c) (seq 1 (S l))) /\ dinv (S l) s c b'.
Proof.
  intros [Hc Hp]. rewrite sph_inner_S.
  destruct (step_nd l 0 s c th b f) as (b' & Hs & Hd & Ho); try lia. { apply Hc. lia. } { intros H. apply Hp. exact H. }
  change (Z.of_nat 0) with 0%Z in *. rewrite Hs. cbn [Nat.eqb].
  destruct (inner_run l s c th (S l) 1 b' (Dn (S l) 1) (acc ++ [Yraw (S l) 0 th s c])) as (b'' & f'' & Hr & Hinv); try lia; try reflexivity.
  - intros j Hj. assert (j = 0)%nat by lia. subst j. change (Z.of_nat 0) with 0%Z. rewrite Hd. cbn [fst snd]. split; [reflexivity|intros _; reflexivity].
  - intros j Hj. rewrite Ho by lia. split; [apply Hc; lia|intros H; apply Hp; exact H].
  - exists b'', f''. split; [|exact Hinv]. rewrite Hr, <- app_assoc. reflexivity.
Qed.

Definition raw_rows (l : nat) (th s c : R) : list R := Yraw l 0 th s c :: flat_map (pm_rows l th s c) (seq 1 l).

Lemma outer_run s c th : forall n l b f acc,
  dinv l s c b ->
  sph_outer n (S l) s c th b f acc = acc ++ flat_map (fun d => raw_rows d th s c) (seq (S l) n).
Proof.
  induction n as [|n IH]; intros l b f acc Hinv.
  - cbn [sph_outer seq flat_map]. rewrite app_nil_r. reflexivity.
  - cbn [sph_outer seq flat_map].
    destruct (degree_run l s c th b f acc Hinv) as (b' & f' & Hr & Hinv'). rewrite Hr.
    rewrite (IH (S l) b' f' _ Hinv'). unfold raw_rows at 2. rewrite <- app_assoc. reflexivity.
Qed.

Lemma map_flat_map {A B C} (f : B -> C) (g : A -> list B) (l : list A) :
  map f (flat_map g l) = flat_map (fun x => map f (g x)) l.
Proof. induction l as [|a l IH]; [reflexivity|]. cbn [flat_map]. rewrite map_app, IH. reflexivity. Qed.

Lemma raw_rows_spec l th ph : raw_rows l th (sin ph) (cos ph) = spec_rows l th ph.
Proof.
  unfold raw_rows, spec_rows, m_values. cbn [map]. f_equal. rewrite map_flat_map. reflexivity.
Qed.

(* MAIN: for every l_max the loop returns the list of Y_lm of the definition, degree by degree, m = 0, 1, -1, ..., l, -l *)
Theorem sph_model_spec L th ph : sph_model L th ph = spec_list L th ph.
Proof.
  unfold sph_model, spec_list, g_sin_phi, g_cos_phi.
  rewrite (outer_run (sin ph) (cos ph) th L 0 init_buf 0 [g_y00]).
  - cbn [seq flat_map].
    assert (E0 : spec_rows 0 th ph = [g_y00]).
    { unfold spec_rows, m_values. cbn [seq flat_map map]. f_equal. unfold Yspec, Flm, Nlm, Plm, az, g_y00, g_fac_sph. cbn. ring. }
    rewrite E0. f_equal. apply flat_map_ext. intros d. apply raw_rows_spec.
  - split.
    + intros j Hj. assert (j = 0)%nat by lia. subst j. reflexivity.
    + intros j Hj. lia.
Qed.
