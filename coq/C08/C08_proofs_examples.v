(* C08: the hypotheses of the theorems are satisfiable on non-trivial instances. *)
From Coq Require Import Reals ZArith List Bool Arith Lia Lra.
From Interval Require Import Tactic.
From P Require Import C08_model_base C08_gen C08_model_spec C08_model C08_proofs_loop C08_proofs_order C08_proofs_azimuth
  C08_proofs_small C08_proofs_polar C08_proofs_sph.
Import ListNotations.
Open Scope R_scope.

Example ex_order : (2 <= 5)%nat /\ (- Z.of_nat 2 <= -1 <= Z.of_nat 2)%Z /\ row 2 (-1) = 6%nat /\ row 2 2 = 7%nat /\ row 3 0 = 9%nat.
Proof. repeat split; lia. Qed.

Example ex_angles : 0 < 3 / 4 < PI /\ - PI < -2 <= PI /\ 0 < 5 / 2 /\ 1 / 10000000000 <= 5 / 2.
Proof. pose proof PI_RGT_0. repeat split; try lra; interval. Qed.

Example ex_tan : 1 / 10000000000 <= Rabs (tan (3 / 4)).
Proof. interval. Qed.

(* a model of SciPy's sph_harm_y satisfying the oracle hypothesis of the Polar section *)
Example ex_sphy : forall (l m : nat) th ph, 0 <= ph <= PI -> (1 <= m)%nat ->
  sre0 (Z.of_nat l) (Z.of_nat m) ph th = m1pow (Z.of_nat m) * (Flm l m ph / sqrt 2) * cos (INR m * th) /\
  sim0 (Z.of_nat l) (Z.of_nat m) ph th = m1pow (Z.of_nat m) * (Flm l m ph / sqrt 2) * sin (INR m * th).
Proof. intros. unfold sre0, sim0. rewrite !Nat2Z.id. split; reflexivity. Qed.

(* the model is not trivially zero: Y_00 > 0.28 and Y_{2,-1}(1/2, 3/4) is away from 0 *)
Example ex_nonzero : nth 0 (sph_model 2 (1 / 2) (3 / 4)) 0 > 0.28 /\ nth 6 (sph_model 2 (1 / 2) (3 / 4)) 0 > 0.2.
Proof.
  split; cbv -[IZR Rminus Rdiv sqrt cos sin PI pow Rabs Rinv Rplus Rmult Ropp Rle Rlt Rgt]; interval.
Qed.
