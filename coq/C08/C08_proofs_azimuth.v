(* C08: azimuthal structure (all l_max, l, m), theta-derivative returned by the derivative routine, periodicity,
   normalisation constant, solid harmonics. *)
From Coq Require Import Reals ZArith List Bool Arith Lia Lra.
From Coquelicot Require Import Coquelicot.
From P Require Import C08_model_base C08_gen C08_model_spec C08_model C08_proofs_loop C08_proofs_order.
Import ListNotations.
Open Scope R_scope.

(* ---------------- azimuthal factor ---------------- *)
Lemma row_pos l a : (1 <= a)%nat -> row l (Z.of_nat a) = (l * l + (2 * a - 1))%nat.
Proof. intros H. unfold row, iota. destruct (Z.ltb_spec 0 (Z.of_nat a)); [|lia]. rewrite Nat2Z.id. reflexivity. Qed.
Lemma row_neg l a : row l (- Z.of_nat a) = (l * l + 2 * a)%nat.
Proof. unfold row, iota. destruct (Z.ltb_spec 0 (- Z.of_nat a)); [lia|]. rewrite Z.opp_involutive, Nat2Z.id. reflexivity. Qed.
Lemma row_zero l : row l 0 = (l * l)%nat.
Proof. unfold row, iota. cbn. lia. Qed.

Lemma azimuthal_factor_lemma L l a th ph : (l <= L)%nat -> (1 <= a <= l)%nat ->
  nth (l * l) (sph_model L th ph) 0 = Flm l 0 ph /\
  nth (l * l + (2 * a - 1)) (sph_model L th ph) 0 = Flm l a ph * cos (INR a * th) /\
  nth (l * l + 2 * a) (sph_model L th ph) 0 = Flm l a ph * sin (INR a * th).
Proof.
  intros Hl Ha. destruct (output_order_lemma L th ph) as [_ H].
  rewrite <- (row_pos l a), <- (row_neg l a), <- (row_zero l) by lia.
  rewrite !H by lia. unfold Yspec, az. rewrite abs_nat_opp, !Zabs2Nat.id. cbn [Z.abs_nat Z.ltb Z.compare].
  destruct (Z.ltb_spec 0 (Z.of_nat a)); [|lia]. destruct (Z.ltb_spec 0 (- Z.of_nat a)); [lia|].
  destruct (Z.ltb_spec (- Z.of_nat a) 0); [|lia]. rewrite Z.opp_involutive, IZRn. split; [ring|]. split; reflexivity.
Qed.

(* ---------------- d/dtheta ---------------- *)
Lemma az_derive m th : is_derive (az m) th (- IZR m * az (- m) th).
Proof.
  unfold az. destruct (Z.ltb_spec 0 m) as [Hp|Hn].
  - destruct (Z.ltb_spec 0 (- m)); [lia|]. destruct (Z.ltb_spec (- m) 0); [|lia]. rewrite Z.opp_involutive.
    auto_derive; [exact I|]. ring.
  - destruct (Z.ltb_spec m 0) as [Hn'|Hz].
    + destruct (Z.ltb_spec 0 (- m)); [|lia]. auto_derive; [exact I|]. rewrite opp_IZR. ring.
    + assert (m = 0%Z) by lia. subst m. cbn [Z.opp Z.ltb Z.compare]. auto_derive; [exact I|]. ring.
Qed.

Lemma Yspec_dtheta l m th ph : is_derive (fun t => Yspec l m t ph) th (- IZR m * Yspec l (- m) th ph).
Proof.
  unfold Yspec. rewrite abs_nat_opp.
  replace (- IZR m * (Flm l (Z.abs_nat m) ph * az (- m) th)) with (Flm l (Z.abs_nat m) ph * (- IZR m * az (- m) th)) by ring.
  apply (is_derive_scal (az m) th (Flm l (Z.abs_nat m) ph)). apply az_derive.
Qed.

(* the first row block of the derivative routine *)
Lemma g_dstep_fst sre sim l m th ph vals :
  fst (g_dstep sre sim l m th ph vals) = - IZR m * znth (l ^ 2 + g_index_m (- m))%Z vals.
Proof.
  unfold g_dstep.
  repeat match goal with |- context [if ?c then _ else _] =>
    lazymatch c with
    | Rlt_dec _ _ => fail
    | _ => destruct c
    end end; reflexivity.
Qed.

Lemma index_m_iota l m : Z.to_nat (Z.of_nat l ^ 2 + g_index_m m) = row l m.
Proof.
  unfold g_index_m, row, iota. replace (Z.of_nat l ^ 2)%Z with (Z.of_nat (l * l)) by (rewrite Nat2Z.inj_mul; ring).
  destruct (Z.gtb_spec m 0); destruct (Z.ltb_spec 0 m); lia.
Qed.

Lemma dsph_degree_length sre sim l th ph vals : length (dsph_degree sre sim l th ph vals) = (2 * l + 1)%nat.
Proof. unfold dsph_degree. rewrite map_length. apply m_values_length. Qed.

Lemma dsph_model_nth sre sim L th ph :
  length (dsph_model sre sim L th ph) = (S L * S L)%nat /\
  forall l m, (l <= L)%nat -> (- Z.of_nat l <= m <= Z.of_nat l)%Z ->
    nth (row l m) (dsph_model sre sim L th ph) (0, 0) = g_dstep sre sim (Z.of_nat l) m th ph (sph_model L th ph).
Proof.
  unfold dsph_model.
  destruct (flat_blocks (fun l => dsph_degree sre sim l th ph (sph_model L th ph)) (0, 0)
              (fun l => dsph_degree_length sre sim l th ph _) L) as [Hlen Hnth].
  split; [exact Hlen|]. intros l m Hl Hm. unfold row. rewrite Hnth by (try apply iota_lt; assumption).
  unfold dsph_degree.
  rewrite (nth_indep _ (0, 0) (g_dstep sre sim (Z.of_nat l) 0%Z th ph (sph_model L th ph)))
    by (rewrite map_length, m_values_length; apply iota_lt; exact Hm).
  change (g_dstep sre sim (Z.of_nat l) 0%Z th ph (sph_model L th ph))
    with ((fun m0 => g_dstep sre sim (Z.of_nat l) m0 th ph (sph_model L th ph)) 0%Z).
  rewrite map_nth, m_values_nth by exact Hm. reflexivity.
Qed.

(* what the routine returns in output[0] is -m * Y_{l,-m}, and that IS the theta-derivative of the (l, m) row *)
Lemma theta_derivative_lemma sre sim L l m th ph : (l <= L)%nat -> (- Z.of_nat l <= m <= Z.of_nat l)%Z ->
  fst (nth (row l m) (dsph_model sre sim L th ph) (0, 0)) = - IZR m * Yspec l (- m) th ph /\
  is_derive (fun t => nth (row l m) (sph_model L t ph) 0) th (fst (nth (row l m) (dsph_model sre sim L th ph) (0, 0))).
Proof.
  intros Hl Hm. destruct (dsph_model_nth sre sim L th ph) as [_ Hd]. rewrite Hd by assumption.
  rewrite g_dstep_fst. unfold znth. rewrite index_m_iota.
  destruct (output_order_lemma L th ph) as [_ Ho]. rewrite Ho by lia. split; [reflexivity|].
  apply (is_derive_ext (fun t => Yspec l m t ph)).
  - intros t. destruct (output_order_lemma L t ph) as [_ Ht]. rewrite Ht by assumption. reflexivity.
  - apply Yspec_dtheta.
Qed.

(* ---------------- periodicity in theta ---------------- *)
Lemma az_period m th : az m (th + 2 * PI) = az m th.
Proof.
  unfold az. destruct (Z.ltb_spec 0 m).
  - replace (IZR m * (th + 2 * PI)) with (IZR m * th + 2 * INR (Z.to_nat m) * PI) by (rewrite INR_IZR_INZ, Z2Nat.id by lia; ring).
    apply cos_period.
  - destruct (Z.ltb_spec m 0); [|reflexivity].
    replace (IZR (- m) * (th + 2 * PI)) with (IZR (- m) * th + 2 * INR (Z.to_nat (- m)) * PI) by (rewrite INR_IZR_INZ, Z2Nat.id by lia; ring).
    apply sin_period.
Qed.

Lemma theta_periodic_lemma L th ph : sph_model L (th + 2 * PI) ph = sph_model L th ph.
Proof.
  rewrite !sph_model_spec. unfold spec_list. apply flat_map_ext. intros l. unfold spec_rows. apply map_ext. intros m.
  unfold Yspec. rewrite az_period. reflexivity.
Qed.

(* ---------------- normalisation: D_lm = sqrt((l+m)!/(l-m)!) ---------------- *)
Lemma norm_factorial_lemma l m : (m <= l)%nat -> Dn l m = sqrt (INR (fact (l + m)) / INR (fact (l - m))).
Proof.
  induction m as [|m IH]; intros H.
  - cbn [Dn]. rewrite Nat.add_0_r, Nat.sub_0_r. unfold Rdiv. rewrite Rinv_r by (apply INR_fact_neq_0). symmetry. apply sqrt_1.
  - cbn [Dn]. rewrite IH by lia.
    pose proof (INR_fact_lt_0 (l + m)) as P1. pose proof (INR_fact_lt_0 (l - S m)) as P2.
    assert (P3 : 0 < INR l - INR m) by (apply Rlt_Rminus, lt_INR; lia).
    assert (P4 : 0 <= INR l + INR m) by (rewrite <- plus_INR; apply pos_INR).
    rewrite <- sqrt_mult.
    + f_equal. replace (l + S m)%nat with (S (l + m)) by lia. replace (l - m)%nat with (S (l - S m)) by lia.
      rewrite !fact_simpl, !mult_INR, !S_INR, plus_INR. rewrite minus_INR by lia. rewrite S_INR. field. split; lra.
    + apply Rlt_le, Rdiv_lt_0_compat; [exact P1|apply INR_fact_lt_0].
    + apply Rmult_le_pos; lra.
Qed.

(* ---------------- solid harmonics ---------------- *)
Lemma map2_nth {A B C} (f : A -> B -> C) (da : A) (db : B) (dc : C) : forall (a : list A) (b : list B) i,
  (i < length a)%nat -> (i < length b)%nat -> nth i (map2 f a b) dc = f (nth i a da) (nth i b db).
Proof.
  induction a as [|x a IH]; intros b i Ha Hb; [cbn in Ha; lia|].
  destruct b as [|y b]; [cbn in Hb; lia|]. destruct i as [|i]; [reflexivity|].
  cbn [map2 nth]. apply IH; cbn in Ha, Hb; lia.
Qed.

Lemma degrees_nth L :
  length (degrees L) = (S L * S L)%nat /\
  forall l k, (l <= L)%nat -> (k < 2 * l + 1)%nat -> nth (l * l + k) (degrees L) 0%nat = l.
Proof.
  unfold degrees.
  destruct (flat_blocks (fun l => repeat l (2 * l + 1)) 0%nat (fun l => repeat_length l (2 * l + 1)) L) as [Hlen Hnth].
  split; [exact Hlen|]. intros l k Hl Hk. rewrite Hnth by assumption.
  rewrite (nth_indep _ 0%nat l) by (rewrite repeat_length; exact Hk). apply nth_repeat.
Qed.

Lemma solid_def_lemma L l m r th ph : (l <= L)%nat -> (- Z.of_nat l <= m <= Z.of_nat l)%Z ->
  nth (row l m) (solid_model L r th ph) 0 = sqrt (4 * PI / (2 * INR l + 1)) * r ^ l * Yspec l m th ph.
Proof.
  intros Hl Hm. destruct (degrees_nth L) as [Dl Dn]. destruct (output_order_lemma L th ph) as [Sl Sn].
  pose proof (iota_lt l m Hm) as Hi. assert (Hr : (row l m < S L * S L)%nat) by (unfold row; nia).
  unfold solid_model. rewrite (map2_nth _ 0%nat 0) by lia.
  unfold row at 1. rewrite Dn by assumption. rewrite Sn by assumption.
  unfold g_solid_entry. rewrite IZRn. ring.
Qed.
