(* C08 property theorems (statements only; proofs are in C08_proofs_*.v).
   sph_model L th ph      = the list returned by generate_real_spherical_harmonics(L, th, ph) at one point (loop body generated
                            from the source, C08_gen.v);  Yspec l m th ph = the definition (C08_model_spec.v);
   dsph_model sre sim ..  = generate_derivative_real_spherical_harmonics (pairs (d/dtheta, d/dphi)), SciPy's sph_harm_y = (sre, sim);
   row l m = l*l + iota m = position of (l, m). *)
From Coq Require Import Reals ZArith List Bool Arith.
From Coquelicot Require Import Coquelicot.
From P Require Import C08_model_base C08_gen C08_model_spec C08_model C08_proofs_sph.
Import ListNotations.
Open Scope R_scope.

(* ---- Cartesian -> spherical inverts the parametrisation, any centre *)
Theorem sph_roundtrip : forall cx cy cz r th ph, 0 < r -> 0 < ph < PI -> - PI < th <= PI ->
  g_cart_to_sph (cx + sph_x r th ph) (cy + sph_y r th ph) (cz + sph_z r th ph) cx cy cz = (r, th, ph).
Proof. exact sph_roundtrip_lemma. Qed.
Print Assumptions sph_roundtrip.

Theorem sph_roundtrip_axis : forall cx cy cz r th ph, 0 < r -> ph = 0 \/ ph = PI ->
  g_cart_to_sph (cx + sph_x r th ph) (cy + sph_y r th ph) (cz + sph_z r th ph) cx cy cz = (r, 0, ph).
Proof. exact sph_roundtrip_axis_lemma. Qed.
Print Assumptions sph_roundtrip_axis.

Theorem sph_origin : forall cx cy cz, g_cart_to_sph cx cy cz cx cy cz = (0, 0, 0).
Proof. exact sph_origin_lemma. Qed.
Print Assumptions sph_origin.

(* ---- spherical -> Cartesian gradient: the routine's matrix times the spherical Jacobian (transposed) is the identity *)
Theorem sph_jacobian_entries : forall r th ph,
  is_derive (fun t => sph_x t th ph) r (sin ph * cos th) /\ is_derive (fun t => sph_x r t ph) th (- r * sin ph * sin th) /\
  is_derive (fun t => sph_x r th t) ph (r * cos ph * cos th) /\
  is_derive (fun t => sph_y t th ph) r (sin ph * sin th) /\ is_derive (fun t => sph_y r t ph) th (r * sin ph * cos th) /\
  is_derive (fun t => sph_y r th t) ph (r * cos ph * sin th) /\
  is_derive (fun t => sph_z t th ph) r (cos ph) /\ is_derive (fun t => sph_z r t ph) th 0 /\
  is_derive (fun t => sph_z r th t) ph (- r * sin ph).
Proof. exact sph_partials. Qed.
Print Assumptions sph_jacobian_entries.

Theorem jacobian_inverse : forall fx fy fz r th ph, 1 / 10000000000 <= r -> 1 / 10000000000 <= ph < PI ->
  g_sph_to_cart_deriv
    (fx * (sin ph * cos th) + fy * (sin ph * sin th) + fz * cos ph)
    (fx * (- r * sin ph * sin th) + fy * (r * sin ph * cos th) + fz * 0)
    (fx * (r * cos ph * cos th) + fy * (r * cos ph * sin th) + fz * (- r * sin ph))
    r th ph = (fx, fy, fz).
Proof. exact jacobian_inverse_lemma. Qed.
Print Assumptions jacobian_inverse.

