(* C08, l <= 3 and ALL angles: closed forms (model = textbook real harmonics), addition theorem. *)
From Coq Require Import Reals ZArith List Bool Arith Lia Lra.
From Coquelicot Require Import Coquelicot.
From P Require Import C08_model_base C08_gen C08_model_spec C08_model C08_proofs_loop C08_proofs_order C08_proofs_azimuth.
Import ListNotations.
Open Scope R_scope.

(* ---------------- associated Legendre functions, l <= 3 ---------------- *)
Ltac plm := intros; unfold Plm; cbn [Ppair fst snd Nat.ltb Nat.leb Nat.eqb Pdiag INR]; field.
Lemma P00 s c : Plm 0 0 s c = 1. Proof. reflexivity. Qed.
Lemma P10 s c : Plm 1 0 s c = c. Proof. plm. Qed.
Lemma P11 s c : Plm 1 1 s c = s. Proof. plm. Qed.
Lemma P20 s c : Plm 2 0 s c = (3 * c ^ 2 - 1) / 2. Proof. plm. Qed.
Lemma P21 s c : Plm 2 1 s c = 3 * c * s. Proof. plm. Qed.
Lemma P22 s c : Plm 2 2 s c = 3 * s ^ 2. Proof. plm. Qed.
Lemma P30 s c : Plm 3 0 s c = (5 * c ^ 3 - 3 * c) / 2. Proof. plm. Qed.
Lemma P31 s c : Plm 3 1 s c = 3 * (5 * c ^ 2 - 1) * s / 2. Proof. plm. Qed.
Lemma P32 s c : Plm 3 2 s c = 15 * c * s ^ 2. Proof. plm. Qed.
Lemma P33 s c : Plm 3 3 s c = 15 * s ^ 3. Proof. plm. Qed.
Lemma P41 s c : Plm 1 2 s c = 0 /\ Plm 2 3 s c = 0 /\ Plm 3 4 s c = 0 /\ Plm 0 1 s c = 0.
Proof. repeat split; apply Plm_lt; lia. Qed.

(* ---------------- normalisation constants, l <= 3, in textbook form ---------------- *)
Ltac pos := match goal with
  | |- 0 < PI => apply PI_RGT_0
  | |- 0 < sqrt _ => apply sqrt_lt_R0; pos
  | |- 0 < _ / _ => apply Rdiv_lt_0_compat; pos
  | |- 0 < _ * _ => apply Rmult_lt_0_compat; pos
  | |- 0 < / _ => apply Rinv_0_lt_compat; pos
  | _ => lra end.
Ltac nn := apply Rlt_le; pos.
Ltac sq_const :=
  unfold Nlm; cbn [Dn INR];
  apply Rsqr_inj; [ nn | nn | ];
  repeat (rewrite ?Rsqr_mult; rewrite ?Rsqr_div by (apply Rgt_not_eq, Rlt_gt; pos));
  rewrite ?Rsqr_sqrt by nn; unfold Rsqr; field; apply Rgt_not_eq, PI_RGT_0.

Lemma N00 : Nlm 0 0 = 1 / 2 * sqrt (1 / PI). Proof. sq_const. Qed.
Lemma N10 : Nlm 1 0 = sqrt (3 / (4 * PI)). Proof. sq_const. Qed.
Lemma N11 : Nlm 1 1 = sqrt (3 / (4 * PI)). Proof. sq_const. Qed.
Lemma N20 : Nlm 2 0 = 1 / 2 * sqrt (5 / PI). Proof. sq_const. Qed.
Lemma N21 : Nlm 2 1 = 1 / 6 * sqrt (15 / PI). Proof. sq_const. Qed.
Lemma N22 : Nlm 2 2 = 1 / 12 * sqrt (15 / PI). Proof. sq_const. Qed.
Lemma N30 : Nlm 3 0 = 1 / 2 * sqrt (7 / PI). Proof. sq_const. Qed.
Lemma N31 : Nlm 3 1 = 1 / 6 * sqrt (21 / (2 * PI)). Proof. sq_const. Qed.
Lemma N32 : Nlm 3 2 = 1 / 60 * sqrt (105 / PI). Proof. sq_const. Qed.
Lemma N33 : Nlm 3 3 = 1 / 60 * sqrt (35 / (2 * PI)). Proof. sq_const. Qed.

(* ---------------- closed forms: the textbook real spherical harmonics up to l = 3 ---------------- *)
Definition textbook3 (th ph : R) : list R :=
  let s := sin ph in let c := cos ph in
  [ 1 / 2 * sqrt (1 / PI);
    sqrt (3 / (4 * PI)) * c;
    sqrt (3 / (4 * PI)) * s * cos th;
    sqrt (3 / (4 * PI)) * s * sin th;
    1 / 4 * sqrt (5 / PI) * (3 * c ^ 2 - 1);
    1 / 2 * sqrt (15 / PI) * s * c * cos th;
    1 / 2 * sqrt (15 / PI) * s * c * sin th;
    1 / 4 * sqrt (15 / PI) * s ^ 2 * cos (2 * th);
    1 / 4 * sqrt (15 / PI) * s ^ 2 * sin (2 * th);
    1 / 4 * sqrt (7 / PI) * (5 * c ^ 3 - 3 * c);
    1 / 4 * sqrt (21 / (2 * PI)) * s * (5 * c ^ 2 - 1) * cos th;
    1 / 4 * sqrt (21 / (2 * PI)) * s * (5 * c ^ 2 - 1) * sin th;
    1 / 4 * sqrt (105 / PI) * s ^ 2 * c * cos (2 * th);
    1 / 4 * sqrt (105 / PI) * s ^ 2 * c * sin (2 * th);
    1 / 4 * sqrt (35 / (2 * PI)) * s ^ 3 * cos (3 * th);
    1 / 4 * sqrt (35 / (2 * PI)) * s ^ 3 * sin (3 * th) ].

Ltac zred :=
  repeat match goal with |- context [Z.abs_nat ?z] => let v := eval vm_compute in (Z.abs_nat z) in change (Z.abs_nat z) with v end;
  repeat match goal with |- context [Z.ltb ?a ?b] => let v := eval vm_compute in (Z.ltb a b) in change (Z.ltb a b) with v end;
  repeat match goal with |- context [Z.opp ?a] => let v := eval vm_compute in (Z.opp a) in change (Z.opp a) with v end;
  cbv iota.
Ltac yspec Pl Nl :=
  intros; unfold Yspec, Flm, az; zred; rewrite Pl, Nl, ?Rmult_1_l; field; apply Rgt_not_eq, PI_RGT_0.
Lemma Y00 th ph : Yspec 0 0 th ph = 1 / 2 * sqrt (1 / PI). Proof. yspec P00 N00. Qed.
Lemma Y10 th ph : Yspec 1 0 th ph = sqrt (3 / (4 * PI)) * cos ph. Proof. yspec P10 N10. Qed.
Lemma Y11 th ph : Yspec 1 1 th ph = sqrt (3 / (4 * PI)) * sin ph * cos th. Proof. yspec P11 N11. Qed.
Lemma Y1m1 th ph : Yspec 1 (-1) th ph = sqrt (3 / (4 * PI)) * sin ph * sin th. Proof. yspec P11 N11. Qed.
Lemma Y20 th ph : Yspec 2 0 th ph = 1 / 4 * sqrt (5 / PI) * (3 * cos ph ^ 2 - 1). Proof. yspec P20 N20. Qed.
Lemma Y21 th ph : Yspec 2 1 th ph = 1 / 2 * sqrt (15 / PI) * sin ph * cos ph * cos th. Proof. yspec P21 N21. Qed.
Lemma Y2m1 th ph : Yspec 2 (-1) th ph = 1 / 2 * sqrt (15 / PI) * sin ph * cos ph * sin th. Proof. yspec P21 N21. Qed.
Lemma Y22 th ph : Yspec 2 2 th ph = 1 / 4 * sqrt (15 / PI) * sin ph ^ 2 * cos (2 * th). Proof. yspec P22 N22. Qed.
Lemma Y2m2 th ph : Yspec 2 (-2) th ph = 1 / 4 * sqrt (15 / PI) * sin ph ^ 2 * sin (2 * th). Proof. yspec P22 N22. Qed.
Lemma Y30 th ph : Yspec 3 0 th ph = 1 / 4 * sqrt (7 / PI) * (5 * cos ph ^ 3 - 3 * cos ph). Proof. yspec P30 N30. Qed.
Lemma Y31 th ph : Yspec 3 1 th ph = 1 / 4 * sqrt (21 / (2 * PI)) * sin ph * (5 * cos ph ^ 2 - 1) * cos th. Proof. yspec P31 N31. Qed.
Lemma Y3m1 th ph : Yspec 3 (-1) th ph = 1 / 4 * sqrt (21 / (2 * PI)) * sin ph * (5 * cos ph ^ 2 - 1) * sin th. Proof. yspec P31 N31. Qed.
Lemma Y32 th ph : Yspec 3 2 th ph = 1 / 4 * sqrt (105 / PI) * sin ph ^ 2 * cos ph * cos (2 * th). Proof. yspec P32 N32. Qed.
Lemma Y3m2 th ph : Yspec 3 (-2) th ph = 1 / 4 * sqrt (105 / PI) * sin ph ^ 2 * cos ph * sin (2 * th). Proof. yspec P32 N32. Qed.
Lemma Y33 th ph : Yspec 3 3 th ph = 1 / 4 * sqrt (35 / (2 * PI)) * sin ph ^ 3 * cos (3 * th). Proof. yspec P33 N33. Qed.
Lemma Y3m3 th ph : Yspec 3 (-3) th ph = 1 / 4 * sqrt (35 / (2 * PI)) * sin ph ^ 3 * sin (3 * th). Proof. yspec P33 N33. Qed.

Lemma spec_list3 th ph : spec_list 3 th ph = textbook3 th ph.
Proof.
  change (spec_list 3 th ph) with
    [Yspec 0 0 th ph; Yspec 1 0 th ph; Yspec 1 1 th ph; Yspec 1 (-1) th ph;
     Yspec 2 0 th ph; Yspec 2 1 th ph; Yspec 2 (-1) th ph; Yspec 2 2 th ph; Yspec 2 (-2) th ph;
     Yspec 3 0 th ph; Yspec 3 1 th ph; Yspec 3 (-1) th ph; Yspec 3 2 th ph; Yspec 3 (-2) th ph; Yspec 3 3 th ph; Yspec 3 (-3) th ph].
  rewrite Y00, Y10, Y11, Y1m1, Y20, Y21, Y2m1, Y22, Y2m2, Y30, Y31, Y3m1, Y32, Y3m2, Y33, Y3m3. reflexivity.
Qed.

(* closed_forms: the first 16 rows returned for ANY l_max >= 3 are the textbook functions *)
Lemma closed_forms_lemma L th ph : (3 <= L)%nat -> firstn 16 (sph_model L th ph) = textbook3 th ph.
Proof.
  intros HL. rewrite sph_model_spec, <- spec_list3. unfold spec_list.
  replace (S L) with (4 + (L - 3))%nat by lia. rewrite seq_app, flat_map_app.
  rewrite firstn_app.
  assert (E : length (flat_map (fun l => spec_rows l th ph) (seq 0 4)) = 16%nat) by reflexivity.
  rewrite E, Nat.sub_diag, firstn_O, app_nil_r. apply firstn_all2. rewrite E. lia.
Qed.

(* ---------------- addition theorem, l <= 3, all angles ---------------- *)
Definition addsum (L l : nat) (th1 ph1 th2 ph2 : R) : R :=
  fold_right Rplus 0 (map (fun m => nth (row l m) (sph_model L th1 ph1) 0 * nth (row l m) (sph_model L th2 ph2) 0) (m_values l)).

Lemma addsum_spec L l th1 ph1 th2 ph2 : (l <= L)%nat ->
  addsum L l th1 ph1 th2 ph2 = fold_right Rplus 0 (map (fun m => Yspec l m th1 ph1 * Yspec l m th2 ph2) (m_values l)).
Proof.
  intros Hl. unfold addsum. f_equal. apply map_ext_in. intros m Hm. apply m_values_In in Hm.
  destruct (output_order_lemma L th1 ph1) as [_ H1]. destruct (output_order_lemma L th2 ph2) as [_ H2].
  rewrite H1, H2 by assumption. reflexivity.
Qed.

Lemma cos_3a x : cos (3 * x) = 4 * cos x ^ 3 - 3 * cos x.
Proof.
  replace (3 * x) with (2 * x + x) by ring. rewrite cos_plus, cos_2a, sin_2a.
  pose proof (sin2_cos2 x) as H. unfold Rsqr in H. assert (H' : sin x ^ 2 = 1 - cos x ^ 2) by lra. ring [H'].
Qed.
Lemma sin_3a x : sin (3 * x) = 3 * sin x - 4 * sin x ^ 3.
Proof.
  replace (3 * x) with (2 * x + x) by ring. rewrite sin_plus, cos_2a, sin_2a.
  pose proof (sin2_cos2 x) as H. unfold Rsqr in H. assert (H' : cos x ^ 2 = 1 - sin x ^ 2) by lra. ring [H'].
Qed.

Lemma sqrt_sq x : 0 <= x -> sqrt x ^ 2 = x.
Proof. intros H. simpl. rewrite Rmult_1_r. apply sqrt_sqrt. exact H. Qed.

Lemma addition_theorem_lemma L l th1 ph1 th2 ph2 : (l <= 3)%nat -> (l <= L)%nat ->
  addsum L l th1 ph1 th2 ph2 = (2 * INR l + 1) / (4 * PI) * Pleg l (cosgamma th1 ph1 th2 ph2).
Proof.
  intros H3 HL. rewrite addsum_spec by exact HL. unfold cosgamma. rewrite cos_minus.
  pose proof PI_RGT_0 as HPI.
  pose proof (sin2_cos2 th1) as T1. pose proof (sin2_cos2 th2) as T2.
  pose proof (sin2_cos2 ph1) as F1. pose proof (sin2_cos2 ph2) as F2. unfold Rsqr in *.
  assert (K1 : sqrt (1 / PI) ^ 2 = 32 * / (32 * PI)) by (rewrite sqrt_sq; [field; lra|apply Rlt_le, Rdiv_lt_0_compat; lra]).
  assert (K3 : sqrt (3 / (4 * PI)) ^ 2 = 24 * / (32 * PI)) by (rewrite sqrt_sq; [field; lra|apply Rlt_le, Rdiv_lt_0_compat; lra]).
  assert (K5 : sqrt (5 / PI) ^ 2 = 160 * / (32 * PI)) by (rewrite sqrt_sq; [field; lra|apply Rlt_le, Rdiv_lt_0_compat; lra]).
  assert (K15 : sqrt (15 / PI) ^ 2 = 480 * / (32 * PI)) by (rewrite sqrt_sq; [field; lra|apply Rlt_le, Rdiv_lt_0_compat; lra]).
  assert (K7 : sqrt (7 / PI) ^ 2 = 224 * / (32 * PI)) by (rewrite sqrt_sq; [field; lra|apply Rlt_le, Rdiv_lt_0_compat; lra]).
  assert (K21 : sqrt (21 / (2 * PI)) ^ 2 = 336 * / (32 * PI)) by (rewrite sqrt_sq; [field; lra|apply Rlt_le, Rdiv_lt_0_compat; lra]).
  assert (K105 : sqrt (105 / PI) ^ 2 = 3360 * / (32 * PI)) by (rewrite sqrt_sq; [field; lra|apply Rlt_le, Rdiv_lt_0_compat; lra]).
  assert (K35 : sqrt (35 / (2 * PI)) ^ 2 = 560 * / (32 * PI)) by (rewrite sqrt_sq; [field; lra|apply Rlt_le, Rdiv_lt_0_compat; lra]).
  replace ((2 * INR l + 1) / (4 * PI)) with ((2 * INR l + 1) * 8 * / (32 * PI)) by (field; lra).
  destruct l as [|[|[|[|l]]]]; [| | | |lia]; unfold m_values, Pleg; cbn [seq flat_map map app fold_right Z.of_nat Pos.of_succ_nat Pos.succ Z.opp INR];
    rewrite ?Y00, ?Y10, ?Y11, ?Y1m1, ?Y20, ?Y21, ?Y2m1, ?Y22, ?Y2m2, ?Y30, ?Y31, ?Y3m1, ?Y32, ?Y3m2, ?Y33, ?Y3m3;
    rewrite ?cos_3a, ?sin_3a, ?cos_2a, ?sin_2a.
  all: set (k1 := sqrt (1 / PI)) in *; set (k3 := sqrt (3 / (4 * PI))) in *; set (k5 := sqrt (5 / PI)) in *;
    set (k15 := sqrt (15 / PI)) in *; set (k7 := sqrt (7 / PI)) in *; set (k21 := sqrt (21 / (2 * PI))) in *;
    set (k105 := sqrt (105 / PI)) in *; set (k35 := sqrt (35 / (2 * PI))) in *; set (ip := / (32 * PI)) in *;
    set (b1 := sin th1) in *; set (a1 := cos th1) in *; set (b2 := sin th2) in *; set (a2 := cos th2) in *;
    set (s1 := sin ph1) in *; set (c1 := cos ph1) in *; set (s2 := sin ph2) in *; set (c2 := cos ph2) in *;
    assert (F2' : s2 ^ 2 = 1 - c2 ^ 2) by lra; assert (F1' : s1 ^ 2 = 1 - c1 ^ 2) by lra;
    assert (T2' : b2 ^ 2 = 1 - a2 ^ 2) by lra; assert (T1' : b1 ^ 2 = 1 - a1 ^ 2) by lra;
    clearbody k1 k3 k5 k15 k7 k21 k105 k35 ip b1 a1 b2 a2 s1 c1 s2 c2.
  - field_simplify_eq. ring [K1].
  - field_simplify_eq. ring [K3].
  - field_simplify_eq. ring [K5 K15 F1' F2' T1' T2'].
  - field_simplify_eq. ring [K7 K21 K105 K35 F1' F2' T1' T2'].
Qed.
