(* C08: convert_cart_to_sph inverts the spherical parametrisation for any centre; the matrix of
   convert_derivative_from_spherical_to_cartesian turns spherical gradients into Cartesian gradients. *)
From Coq Require Import Reals ZArith List Bool Lia Lra.
From Coquelicot Require Import Coquelicot.
From P Require Import C08_model_base C08_gen C08_model_spec C08_model.
Open Scope R_scope.

(* ---------------- atan2 on a circle of radius k ---------------- *)
Lemma atan2_polar k th : 0 < k -> - PI < th <= PI -> atan2 (k * sin th) (k * cos th) = th.
Proof.
  intros Hk [Hlo Hhi]. pose proof PI_RGT_0 as HPI. pose proof (sin2_cos2 th) as HP. unfold Rsqr in HP.
  assert (Tan : forall u, cos u <> 0 -> k * sin u / (k * cos u) = tan u) by (intros u Hu; unfold tan; field; split; lra).
  unfold atan2.
  destruct (Rtotal_order th (- (PI / 2))) as [Ha|[Hb|Hgt]].
  - (* -pi < th < -pi/2 *)
    assert (C : 0 < cos (th + PI)) by (apply cos_gt_0; lra).
    assert (S : 0 < sin (th + PI)) by (apply sin_gt_0; lra).
    rewrite neg_cos in C. rewrite neg_sin in S.
    destruct (Rlt_dec 0 (k * cos th)) as [H|_]; [nra|]. destruct (Rlt_dec (k * cos th) 0) as [_|H]; [|nra].
    destruct (Rle_dec 0 (k * sin th)) as [H|_]; [nra|].
    replace (k * sin th / (k * cos th)) with (tan (th + PI)).
    + rewrite atan_tan by lra. ring.
    + unfold tan. rewrite neg_sin, neg_cos. field. split; lra.
  - (* th = -pi/2 *)
    subst th. rewrite cos_neg, sin_neg, cos_PI2, sin_PI2.
    destruct (Rlt_dec 0 (k * 0)) as [H|_]; [lra|]. destruct (Rlt_dec (k * 0) 0) as [H|_]; [lra|].
    destruct (Rlt_dec 0 (k * - (1))) as [H|_]; [lra|]. destruct (Rlt_dec (k * - (1)) 0) as [_|H]; [reflexivity|lra].
  - destruct (Rtotal_order th (PI / 2)) as [Hc|[Hd|He]].
    + (* -pi/2 < th < pi/2 *)
      assert (C : 0 < cos th) by (apply cos_gt_0; lra).
      destruct (Rlt_dec 0 (k * cos th)) as [_|H]; [|nra]. rewrite Tan by lra. apply atan_tan. lra.
    + (* th = pi/2 *)
      subst th. rewrite cos_PI2, sin_PI2.
      destruct (Rlt_dec 0 (k * 0)) as [H|_]; [lra|]. destruct (Rlt_dec (k * 0) 0) as [H|_]; [lra|].
      destruct (Rlt_dec 0 (k * 1)) as [_|H]; [reflexivity|lra].
    + (* pi/2 < th <= pi *)
      assert (C : 0 < cos (th - PI)) by (apply cos_gt_0; lra).
      assert (S : 0 <= sin (- (th - PI))) by (apply sin_ge_0; lra).
      rewrite sin_neg in S.
      assert (Es : sin th = - sin (th - PI)) by (replace th with ((th - PI) + PI) at 1 by ring; apply neg_sin).
      assert (Ec : cos th = - cos (th - PI)) by (replace th with ((th - PI) + PI) at 1 by ring; apply neg_cos).
      rewrite Es, Ec.
      destruct (Rlt_dec 0 (k * - cos (th - PI))) as [H|_]; [nra|]. destruct (Rlt_dec (k * - cos (th - PI)) 0) as [_|H]; [|nra].
      destruct (Rle_dec 0 (k * - sin (th - PI))) as [_|H]; [|nra].
      replace (k * - sin (th - PI) / (k * - cos (th - PI))) with (tan (th - PI)) by (unfold tan; field; split; lra).
      rewrite atan_tan by lra. ring.
Qed.

Lemma norm3_sph r th ph : 0 <= r -> norm3 (sph_x r th ph) (sph_y r th ph) (sph_z r th ph) = r.
Proof.
  intros Hr. unfold norm3, sph_x, sph_y, sph_z.
  pose proof (sin2_cos2 th) as H1. pose proof (sin2_cos2 ph) as H2. unfold Rsqr in *.
  replace (r * (sin ph * cos th) * (r * (sin ph * cos th)) + r * (sin ph * sin th) * (r * (sin ph * sin th)) + r * cos ph * (r * cos ph))
    with (r * r * (sin ph * sin ph * (sin th * sin th + cos th * cos th) + cos ph * cos ph)) by ring.
  rewrite H1, Rmult_1_r, H2, Rmult_1_r. apply sqrt_square. exact Hr.
Qed.

(* sph_roundtrip: r > 0, 0 < phi < pi, -pi < theta <= pi, any centre *)
Lemma sph_roundtrip_lemma cx cy cz r th ph : 0 < r -> 0 < ph < PI -> - PI < th <= PI ->
  g_cart_to_sph (cx + sph_x r th ph) (cy + sph_y r th ph) (cz + sph_z r th ph) cx cy cz = (r, th, ph).
Proof.
  intros Hr Hph Hth. unfold g_cart_to_sph.
  replace (cx + sph_x r th ph - cx) with (sph_x r th ph) by ring.
  replace (cy + sph_y r th ph - cy) with (sph_y r th ph) by ring.
  replace (cz + sph_z r th ph - cz) with (sph_z r th ph) by ring.
  rewrite norm3_sph by lra. destruct (Req_EM_T r 0) as [E|_]; [lra|].
  f_equal; [f_equal|].
  - unfold sph_x, sph_y. rewrite <- !Rmult_assoc. apply atan2_polar; [|exact Hth].
    apply Rmult_lt_0_compat; [exact Hr|]. apply sin_gt_0; lra.
  - unfold sph_z. replace (r * cos ph / r) with (cos ph) by (field; lra). apply acos_cos. lra.
Qed.

(* on the polar axis (phi = 0 or pi) r and phi are still recovered; theta is arctan2(0, 0) = 0 by convention *)
Lemma sph_roundtrip_axis_lemma cx cy cz r th ph : 0 < r -> ph = 0 \/ ph = PI ->
  g_cart_to_sph (cx + sph_x r th ph) (cy + sph_y r th ph) (cz + sph_z r th ph) cx cy cz = (r, 0, ph).
Proof.
  intros Hr Hph. unfold g_cart_to_sph. pose proof PI_RGT_0.
  replace (cx + sph_x r th ph - cx) with (sph_x r th ph) by ring.
  replace (cy + sph_y r th ph - cy) with (sph_y r th ph) by ring.
  replace (cz + sph_z r th ph - cz) with (sph_z r th ph) by ring.
  rewrite norm3_sph by lra. destruct (Req_EM_T r 0) as [E|_]; [lra|].
  assert (S0 : sin ph = 0) by (destruct Hph; subst ph; [apply sin_0|apply sin_PI]).
  f_equal; [f_equal|].
  - unfold sph_x, sph_y. rewrite S0, !Rmult_0_l, !Rmult_0_r. unfold atan2.
    destruct (Rlt_dec 0 0) as [H0|_]; [lra|]. reflexivity.
  - unfold sph_z. replace (r * cos ph / r) with (cos ph) by (field; lra). apply acos_cos. destruct Hph; lra.
Qed.

(* r = 0 convention: the centre itself maps to (0, 0, 0) *)
Lemma sph_origin_lemma cx cy cz : g_cart_to_sph cx cy cz cx cy cz = (0, 0, 0).
Proof.
  unfold g_cart_to_sph, norm3. replace (cx - cx) with 0 by ring. replace (cy - cy) with 0 by ring. replace (cz - cz) with 0 by ring.
  replace (0 * 0 + 0 * 0 + 0 * 0) with 0 by ring. rewrite sqrt_0.
  destruct (Req_EM_T 0 0) as [_|N]; [|contradiction]. unfold atan2. destruct (Rlt_dec 0 0) as [H|_]; [lra|]. reflexivity.
Qed.

(* ---------------- Jacobian ---------------- *)
(* partial derivatives of the parametrisation *)
Lemma sph_partials r th ph :
  is_derive (fun t => sph_x t th ph) r (sin ph * cos th) /\ is_derive (fun t => sph_x r t ph) th (- r * sin ph * sin th) /\
  is_derive (fun t => sph_x r th t) ph (r * cos ph * cos th) /\
  is_derive (fun t => sph_y t th ph) r (sin ph * sin th) /\ is_derive (fun t => sph_y r t ph) th (r * sin ph * cos th) /\
  is_derive (fun t => sph_y r th t) ph (r * cos ph * sin th) /\
  is_derive (fun t => sph_z t th ph) r (cos ph) /\ is_derive (fun t => sph_z r t ph) th 0 /\
  is_derive (fun t => sph_z r th t) ph (- r * sin ph).
Proof. unfold sph_x, sph_y, sph_z. repeat match goal with |- _ /\ _ => split end; (auto_derive; [exact I|ring]). Qed.

(* chain rule: the spherical gradient of f(x,y,z) is S^T (fx, fy, fz); the routine maps it back to (fx, fy, fz) *)
Lemma jacobian_inverse_lemma fx fy fz r th ph : 1 / 10000000000 <= r -> 1 / 10000000000 <= ph < PI ->
  g_sph_to_cart_deriv
    (fx * (sin ph * cos th) + fy * (sin ph * sin th) + fz * cos ph)
    (fx * (- r * sin ph * sin th) + fy * (r * sin ph * cos th) + fz * 0)
    (fx * (r * cos ph * cos th) + fy * (r * cos ph * sin th) + fz * (- r * sin ph))
    r th ph = (fx, fy, fz).
Proof.
  intros Hr Hph. unfold g_sph_to_cart_deriv.
  destruct (Rlt_dec (Rabs r) (1 / 10000000000)) as [H|_]; [rewrite Rabs_pos_eq in H by lra; lra|].
  destruct (Rlt_dec (Rabs ph) (1 / 10000000000)) as [H|_]; [rewrite Rabs_pos_eq in H by lra; lra|].
  assert (Hs : 0 < sin ph) by (apply sin_gt_0; lra).
  pose proof (sin2_cos2 th) as H1. pose proof (sin2_cos2 ph) as H2. unfold Rsqr in *.
  generalize dependent (sin ph). generalize (cos ph). generalize dependent (sin th). generalize (cos th).
  intros ct st H1 cp sp Hs H2.
  assert (H1' : st ^ 2 = 1 - ct ^ 2) by lra. assert (H2' : cp ^ 2 = 1 - sp ^ 2) by lra.
  f_equal; [f_equal|]; field_simplify_eq; first [ ring [H1' H2'] | repeat split; lra ].
Qed.
