(* C08: the DEFINITION the property refers to (no proofs here).
   Y_lm(theta, phi) = N_lm * P_l^|m|(cos phi) * { cos(m theta) | 1 | sin(|m| theta) },
   P_l^m the associated Legendre function WITHOUT the Condon-Shortley phase, given by the textbook recursions
     P_0^0 = 1,  P_m^m = (2m-1) sin(phi) P_{m-1}^{m-1},
     (l-m) P_l^m = (2l-1) cos(phi) P_{l-1}^m - (l+m-1) P_{l-2}^m,   P_l^m = 0 for l < m,
   N_l0 = sqrt((2l+1)/(4 pi)),  N_lm = sqrt(2) sqrt((2l+1)/(4 pi)) / D_lm,  D_lm^2 = (l+m)!/(l-m)!  (theorem norm_factorial).
   For l <= 3 the theorem closed_forms identifies these with the textbook expressions. *)
From Coq Require Import Reals ZArith List Bool Arith.
Import ListNotations.
Open Scope R_scope.

Fixpoint Pdiag (m : nat) (s : R) : R :=
  match m with O => 1 | S k => Pdiag k s * (2 * INR k + 1) * s end.

(* (P_l^m, P_{l-1}^m) at sin(phi) = s, cos(phi) = c *)
Fixpoint Ppair (l m : nat) (s c : R) : R * R :=
  match l with
  | O => (if Nat.eqb m 0 then 1 else 0, 0)
  | S l' =>
      let p := Ppair l' m s c in
      ((if Nat.ltb (S l') m then 0
        else if Nat.eqb (S l') m then Pdiag m s
        else ((2 * INR (S l') - 1) * c * fst p - (INR (S l') + INR m - 1) * snd p) / (INR (S l') - INR m)),
       fst p)
  end.
Definition Plm (l m : nat) (s c : R) : R := fst (Ppair l m s c).

(* D_lm = prod_{j<m} sqrt((l+j+1)(l-j)) *)
Fixpoint Dn (l m : nat) : R :=
  match m with O => 1 | S j => Dn l j * sqrt ((INR l + INR j + 1) * (INR l - INR j)) end.

Definition Nlm (l m : nat) : R :=
  match m with
  | O => sqrt ((2 * INR l + 1) / (4 * PI))
  | S _ => sqrt ((2 * INR l + 1) / (4 * PI)) * sqrt 2 / Dn l m
  end.

(* the polar factor F_lm(phi), m >= 0 *)
Definition Flm (l m : nat) (ph : R) : R := Nlm l m * Plm l m (sin ph) (cos ph).

(* the azimuthal factor *)
Definition az (m : Z) (th : R) : R :=
  if (0 <? m)%Z then cos (IZR m * th) else if (m <? 0)%Z then sin (IZR (- m) * th) else 1.

Definition Yspec (l : nat) (m : Z) (th ph : R) : R := Flm l (Z.abs_nat m) ph * az m th.

(* Legendre polynomials (for the addition theorem, l <= 3) *)
Definition Pleg (l : nat) (x : R) : R :=
  match l with
  | O => 1
  | S O => x
  | S (S O) => (3 * x ^ 2 - 1) / 2
  | S (S (S O)) => (5 * x ^ 3 - 3 * x) / 2
  | _ => 0
  end.

(* cosine of the angle between the directions (th1, ph1) and (th2, ph2) *)
Definition cosgamma (th1 ph1 th2 ph2 : R) : R := cos ph1 * cos ph2 + sin ph1 * sin ph2 * cos (th1 - th2).
