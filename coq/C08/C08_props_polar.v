(* C08 property theorems (statements only; proofs are in C08_proofs_*.v).
   sph_model L th ph      = the list returned by generate_real_spherical_harmonics(L, th, ph) at one point (loop body generated
                            from the source, C08_gen.v);  Yspec l m th ph = the definition (C08_model_spec.v);
   dsph_model sre sim ..  = generate_derivative_real_spherical_harmonics (pairs (d/dtheta, d/dphi)), SciPy's sph_harm_y = (sre, sim);
   row l m = l*l + iota m = position of (l, m). *)
From Coq Require Import Reals ZArith List Bool Arith.
From Coquelicot Require Import Coquelicot.
From P Require Import C08_model_base C08_gen C08_model_spec C08_model C08_proofs_loop C08_proofs_order C08_proofs_azimuth
  C08_proofs_small C08_proofs_polar.
Import ListNotations.
Open Scope R_scope.

(* ---- phi-derivative: for ALL l, m the routine returns N_lm (|m| cot(phi) P_l^|m| - P_l^{|m|+1}) az_m(theta) ... *)
Theorem polar_reduction : forall sre sim : Z -> Z -> R -> R -> R,
  (forall (l m : nat) th ph, 0 <= ph <= PI -> (1 <= m)%nat ->
     sre (Z.of_nat l) (Z.of_nat m) ph th = m1pow (Z.of_nat m) * (Flm l m ph / sqrt 2) * cos (INR m * th) /\
     sim (Z.of_nat l) (Z.of_nat m) ph th = m1pow (Z.of_nat m) * (Flm l m ph / sqrt 2) * sin (INR m * th)) ->
  forall L l m th ph, (l <= L)%nat -> (- Z.of_nat l <= m <= Z.of_nat l)%Z -> 0 <= ph <= PI ->
  snd (nth (row l m) (dsph_model sre sim L th ph) (0, 0)) =
  Nlm l (Z.abs_nat m) * (INR (Z.abs_nat m) * cotc ph * Plm l (Z.abs_nat m) (sin ph) (cos ph) - Plm l (S (Z.abs_nat m)) (sin ph) (cos ph)) * az m th.
Proof. exact polar_reduction_lemma. Qed.
Print Assumptions polar_reduction.

(* ... which is zero on the polar axis (documented convention), all l, m *)
Theorem pole_convention : forall sre sim : Z -> Z -> R -> R -> R,
  (forall (l m : nat) th ph, 0 <= ph <= PI -> (1 <= m)%nat ->
     sre (Z.of_nat l) (Z.of_nat m) ph th = m1pow (Z.of_nat m) * (Flm l m ph / sqrt 2) * cos (INR m * th) /\
     sim (Z.of_nat l) (Z.of_nat m) ph th = m1pow (Z.of_nat m) * (Flm l m ph / sqrt 2) * sin (INR m * th)) ->
  forall L l m th ph, (l <= L)%nat -> (- Z.of_nat l <= m <= Z.of_nat l)%Z -> ph = 0 \/ ph = PI ->
  snd (nth (row l m) (dsph_model sre sim L th ph) (0, 0)) = 0.
Proof. exact pole_convention_lemma. Qed.
Print Assumptions pole_convention.

(* ---- l <= 3: the Legendre derivative identity closes the reduction (partial: degree bound in the statement) *)
Theorem polar_derivative_partial : forall sre sim : Z -> Z -> R -> R -> R,
  (forall (l m : nat) th ph, 0 <= ph <= PI -> (1 <= m)%nat ->
     sre (Z.of_nat l) (Z.of_nat m) ph th = m1pow (Z.of_nat m) * (Flm l m ph / sqrt 2) * cos (INR m * th) /\
     sim (Z.of_nat l) (Z.of_nat m) ph th = m1pow (Z.of_nat m) * (Flm l m ph / sqrt 2) * sin (INR m * th)) ->
  forall L l m th ph, (l <= 3)%nat -> (l <= L)%nat -> (- Z.of_nat l <= m <= Z.of_nat l)%Z ->
  0 < ph < PI -> cos ph = 0 \/ 1 / 10000000000 <= Rabs (tan ph) ->
  is_derive (fun p => nth (row l m) (sph_model L th p) 0) ph (snd (nth (row l m) (dsph_model sre sim L th ph) (0, 0))).
Proof. exact polar_derivative_lemma. Qed.
Print Assumptions polar_derivative_partial.
