(* C08: positions.  Row l^2 + iota(m) of every routine's output is the (l, m) entry, for every l_max. *)
From Coq Require Import Reals ZArith List Bool Arith Lia Lra.
From P Require Import C08_model_base C08_gen C08_model_spec C08_model C08_proofs_loop.
Import ListNotations.
Open Scope nat_scope.

Lemma flat_blocks {A} (g : nat -> list A) (d : A) :
  (forall l, length (g l) = 2 * l + 1) ->
  forall L, length (flat_map g (seq 0 (S L))) = S L * S L /\
            forall l k, l <= L -> k < 2 * l + 1 -> nth (l * l + k) (flat_map g (seq 0 (S L))) d = nth k (g l) d.
Proof.
  intros Hg. induction L as [|L [IHlen IHnth]].
  - cbn [seq flat_map]. rewrite app_nil_r. split; [rewrite Hg; reflexivity|].
    intros l k Hl Hk. assert (l = 0) by lia. subst l. reflexivity.
  - rewrite seq_S, flat_map_app. cbn [flat_map plus]. rewrite app_nil_r. split.
    + rewrite app_length, IHlen, Hg. lia.
    + intros l k Hl Hk. destruct (Nat.eq_dec l (S L)) as [->|N].
      * rewrite app_nth2 by (rewrite IHlen; lia). rewrite IHlen. f_equal. lia.
      * rewrite app_nth1 by (rewrite IHlen; nia). apply IHnth; lia.
Qed.

Lemma pm_nth : forall l start j, j < l ->
  nth (2 * j) (flat_map (fun x => [Z.of_nat x; (- Z.of_nat x)%Z]) (seq start l)) 0%Z = Z.of_nat (start + j) /\
  nth (2 * j + 1) (flat_map (fun x => [Z.of_nat x; (- Z.of_nat x)%Z]) (seq start l)) 0%Z = (- Z.of_nat (start + j))%Z.
Proof.
  induction l as [|l IH]; intros start j Hj; [lia|].
  cbn [seq flat_map app]. destruct j as [|j].
  - cbn [Nat.mul Nat.add nth]. rewrite Nat.add_0_r. split; reflexivity.
  - replace (2 * S j) with (S (S (2 * j))) by lia. replace (S (S (2 * j)) + 1) with (S (S (2 * j + 1))) by lia.
    cbn [nth]. destruct (IH (S start) j ltac:(lia)) as [A B]. rewrite A, B.
    replace (S start + j) with (start + S j) by lia. split; reflexivity.
Qed.

Lemma pm_length : forall l start, length (flat_map (fun x => [Z.of_nat x; (- Z.of_nat x)%Z]) (seq start l)) = 2 * l.
Proof. induction l as [|l IH]; intros start; [reflexivity|]. cbn [seq flat_map app length]. rewrite IH. lia. Qed.

Lemma m_values_length l : length (m_values l) = 2 * l + 1.
Proof. unfold m_values. cbn [length]. rewrite pm_length. lia. Qed.

Lemma iota_lt l m : (- Z.of_nat l <= m <= Z.of_nat l)%Z -> iota m < 2 * l + 1.
Proof. intros H. unfold iota. destruct (Z.ltb_spec 0 m); lia. Qed.

(* position iota(m) of the m-order list holds m:  iota 0 = 0, iota m = 2m-1 (m>0), iota m = 2|m| (m<0) *)
Lemma m_values_nth l m : (- Z.of_nat l <= m <= Z.of_nat l)%Z -> nth (iota m) (m_values l) 0%Z = m.
Proof.
  intros H. unfold iota, m_values. destruct (Z.ltb_spec 0 m) as [Hp|Hn].
  - replace (2 * Z.to_nat m - 1) with (S (2 * (Z.to_nat m - 1))) by lia. cbn [nth].
    destruct (pm_nth l 1 (Z.to_nat m - 1) ltac:(lia)) as [A _]. rewrite A. lia.
  - destruct (Z.eq_dec m 0) as [->|N]; [reflexivity|].
    replace (2 * Z.to_nat (- m)) with (S (2 * (Z.to_nat (- m) - 1) + 1)) by lia. cbn [nth].
    destruct (pm_nth l 1 (Z.to_nat (- m) - 1) ltac:(lia)) as [_ B]. rewrite B. lia.
Qed.

Lemma iota_values : iota 0 = 0 /\ (forall m, (0 < m)%Z -> iota m = 2 * Z.to_nat m - 1) /\ (forall m, (m < 0)%Z -> iota m = 2 * Z.abs_nat m).
Proof.
  unfold iota. split; [reflexivity|]. split; intros m H.
  - destruct (Z.ltb_spec 0 m); [reflexivity|lia].
  - destruct (Z.ltb_spec 0 m); [lia|]. rewrite Zabs2Nat.abs_nat_spec. f_equal. f_equal. lia.
Qed.

(* every row index below (L+1)^2 is row l m for exactly one (l, m) *)
Lemma row_inj l m l' m' : (- Z.of_nat l <= m <= Z.of_nat l)%Z -> (- Z.of_nat l' <= m' <= Z.of_nat l')%Z ->
  row l m = row l' m' -> l = l' /\ m = m'.
Proof.
  intros H H' E. unfold row in E. pose proof (iota_lt l m H). pose proof (iota_lt l' m' H').
  assert (l = l') by nia. subst l'. split; [reflexivity|].
  assert (Ei : iota m = iota m') by lia. unfold iota in Ei.
  destruct (Z.ltb_spec 0 m); destruct (Z.ltb_spec 0 m'); lia.
Qed.

Lemma row_surj L i : i < S L * S L -> exists l m, l <= L /\ (- Z.of_nat l <= m <= Z.of_nat l)%Z /\ i = row l m.
Proof.
  intros Hi. exists (Nat.sqrt i). pose proof (Nat.sqrt_specif i) as [A B]. set (l := Nat.sqrt i) in *.
  assert (Hl : l <= L) by nia. set (k := i - l * l). assert (Hk : k < 2 * l + 1) by (unfold k; nia).
  set (m := nth k (m_values l) 0%Z). exists m.
  assert (Hin : In m (m_values l)) by (apply nth_In; rewrite m_values_length; exact Hk).
  assert (Hr : (- Z.of_nat l <= m <= Z.of_nat l)%Z).
  { revert Hin. generalize m. intros m0 Hin. unfold m_values in Hin. destruct Hin as [E|Hin]; [rewrite <- E; lia|].
    apply in_flat_map in Hin. destruct Hin as (x & Hx & Hin). apply in_seq in Hx. destruct Hin as [E|[E|[]]]; rewrite <- E; lia. }
  split; [exact Hl|]. split; [exact Hr|].
  unfold row. assert (E : iota m = k).
  { (* k and iota m are both positions of m in m_values l, which has no duplicates *)
    pose proof (m_values_nth l m Hr) as E1. pose proof (iota_lt l m Hr) as E2.
    assert (ND : NoDup (m_values l)).
    { unfold m_values. constructor.
      - intros Hin'. apply in_flat_map in Hin'. destruct Hin' as (x & Hx & Hin'). apply in_seq in Hx. destruct Hin' as [E|[E|[]]]; lia.
      - clear. assert (G : forall start, 1 <= start -> NoDup (flat_map (fun x => [Z.of_nat x; (- Z.of_nat x)%Z]) (seq start l))); [|apply G; lia].
        induction l as [|l IH]; intros start Hs; [constructor|].
        cbn [seq flat_map app]. constructor; [|constructor; [|apply IH; lia]].
        + intros [E|Hin]; [lia|]. apply in_flat_map in Hin. destruct Hin as (x & Hx & Hin). apply in_seq in Hx. destruct Hin as [E|[E|[]]]; lia.
        + intros Hin. apply in_flat_map in Hin. destruct Hin as (x & Hx & Hin). apply in_seq in Hx. destruct Hin as [E|[E|[]]]; lia. }
    rewrite NoDup_nth in ND. apply ND; [rewrite m_values_length; exact E2|rewrite m_values_length; exact Hk|rewrite E1; reflexivity]. }
  rewrite E. unfold k. lia.
Qed.

Open Scope R_scope.

Lemma spec_rows_length l th ph : length (spec_rows l th ph) = (2 * l + 1)%nat.
Proof. unfold spec_rows. rewrite map_length. apply m_values_length. Qed.

(* output_order *)
Lemma output_order_lemma L th ph :
  length (sph_model L th ph) = (S L * S L)%nat /\
  forall l m, (l <= L)%nat -> (- Z.of_nat l <= m <= Z.of_nat l)%Z -> nth (row l m) (sph_model L th ph) 0 = Yspec l m th ph.
Proof.
  rewrite sph_model_spec. unfold spec_list.
  destruct (flat_blocks (fun l => spec_rows l th ph) 0 (fun l => spec_rows_length l th ph) L) as [Hlen Hnth].
  split; [exact Hlen|]. intros l m Hl Hm. unfold row. rewrite Hnth by (try apply iota_lt; assumption).
  unfold spec_rows. rewrite (nth_indep _ 0 (Yspec l 0%Z th ph)) by (rewrite map_length, m_values_length; apply iota_lt; exact Hm).
  change (Yspec l 0%Z th ph) with ((fun m0 => Yspec l m0 th ph) 0%Z). rewrite map_nth, m_values_nth by exact Hm. reflexivity.
Qed.

Lemma m_values_In l m : In m (m_values l) -> (- Z.of_nat l <= m <= Z.of_nat l)%Z.
Proof.
  unfold m_values. intros [E|Hin]; [rewrite <- E; lia|].
  apply in_flat_map in Hin. destruct Hin as (x & Hx & Hin). apply in_seq in Hx. destruct Hin as [E|[E|[]]]; rewrite <- E; lia.
Qed.
