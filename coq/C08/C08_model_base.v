(* C08: primitives the generated definitions (C08_gen.v) are written in.  No proofs here. *)
From Coq Require Import Reals ZArith List Bool.
Import ListNotations.
Open Scope R_scope.

(* the array p_leg[order, column] of generate_real_spherical_harmonics (one evaluation point):
   column 0 = "current" associated Legendre value, column 1 = value of the previous degree *)
Definition buf := Z -> R * R.
Definition rd (b : buf) (i k : Z) : R := if Z.eqb k 0 then fst (b i) else snd (b i).
Definition upd (b : buf) (i k : Z) (v : R) : buf :=
  fun j => if Z.eqb j i then (if Z.eqb k 0 then (v, snd (b j)) else (fst (b j), v)) else b j.

(* (-1.0) ** float(m) for an integer m *)
Definition m1pow (z : Z) : R := if Z.even z then 1 else -1.

(* np.linalg.norm of a 3-vector *)
Definition norm3 (x y z : R) : R := sqrt (x * x + y * y + z * z).

(* np.arctan2 (C99 atan2 on finite arguments; signed zeros are outside the model) *)
Definition atan2 (y x : R) : R :=
  if Rlt_dec 0 x then atan (y / x)
  else if Rlt_dec x 0 then (if Rle_dec 0 y then atan (y / x) + PI else atan (y / x) - PI)
  else if Rlt_dec 0 y then PI / 2
  else if Rlt_dec y 0 then - (PI / 2)
  else 0.

(* entry i of a list of reals, Z index *)
Definition znth (i : Z) (l : list R) : R := nth (Z.to_nat i) l 0.
