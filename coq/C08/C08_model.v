(* C08: executable models.  The loop BODIES are generated from the source (C08_gen.v); this file is the loop
   skeleton the translator checks the source against (loop ranges, initial state, order of m), nothing else.
   No proofs here. *)
From Coq Require Import Reals ZArith List Bool.
From P Require Import C08_model_base C08_gen C08_model_spec.
Import ListNotations.
Open Scope R_scope.

(* ---------------- generate_real_spherical_harmonics ----------------
   for l_deg in 1..l_max: for m_ord in 0..l_deg: <g_step>;  state = (p_leg, factorial), rows appended in order *)
Fixpoint sph_inner (l : nat) (k : nat) (m : nat) (s c th : R) (b : buf) (f : R) (acc : list R) : buf * R * list R :=
  match k with
  | O => (b, f, acc)
  | S k' => let '(b', f', outs) := g_step (Z.of_nat l) (Z.of_nat m) s c th b f in
            sph_inner l k' (S m) s c th b' f' (acc ++ outs)
  end.

Fixpoint sph_outer (n : nat) (l : nat) (s c th : R) (b : buf) (f : R) (acc : list R) : list R :=
  match n with
  | O => acc
  | S n' => let '(b', f', acc') := sph_inner l (S l) 0 s c th b f acc in sph_outer n' (S l) s c th b' f' acc'
  end.

(* p_leg = zeros; p_leg[0, :, :] = g_init_p0 *)
Definition init_buf : buf := fun j => if Z.eqb j 0 then (g_init_p0, g_init_p0) else (0, 0).

(* `factorial` is unbound before the first m_ord = 0 iteration assigns it; 0 is a placeholder that is never read *)
Definition sph_model (L : nat) (th ph : R) : list R :=
  sph_outer L 1 (g_sin_phi ph) (g_cos_phi ph) th init_buf 0 [g_y00].

(* ---------------- order of (l, m) in the output: m = 0, 1, -1, 2, -2, ... ---------------- *)
Definition m_values (l : nat) : list Z :=
  0%Z :: flat_map (fun x => [Z.of_nat x; (- Z.of_nat x)%Z]) (seq 1 l).

Definition iota (m : Z) : nat := if (0 <? m)%Z then 2 * Z.to_nat m - 1 else 2 * Z.to_nat (- m).
Definition row (l : nat) (m : Z) : nat := l * l + iota m.

(* the documented result: Y_lm for l = 0..L, each degree in the order m_values *)
Definition spec_rows (l : nat) (th ph : R) : list R := map (fun m => Yspec l m th ph) (m_values l).
Definition spec_list (L : nat) (th ph : R) : list R := flat_map (fun l => spec_rows l th ph) (seq 0 (S L)).

(* ---------------- generate_derivative_real_spherical_harmonics ----------------
   for l_val in 0..l_max: for m in m_values(l_val): <g_dstep>;  rows (d/dtheta, d/dphi) appended in order *)
Section Deriv.
  Variables sphy_re sphy_im : Z -> Z -> R -> R -> R.     (* scipy.special.sph_harm_y, real and imaginary part *)
  Definition dsph_degree (l : nat) (th ph : R) (vals : list R) : list (R * R) :=
    map (fun m => g_dstep sphy_re sphy_im (Z.of_nat l) m th ph vals) (m_values l).
  Definition dsph_model (L : nat) (th ph : R) : list (R * R) :=
    flat_map (fun l => dsph_degree l th ph (sph_model L th ph)) (seq 0 (S L)).
End Deriv.

(* SciPy's sph_harm_y(n, m, polar, azimuth) for m >= 1, polar in [0, pi], expressed through the definition: used to EVALUATE
   dsph_model in the correspondence (the hypothesis it satisfies is validated against SciPy on every run) *)
Definition sre0 (l m : Z) (ph th : R) : R := m1pow m * (Flm (Z.to_nat l) (Z.to_nat m) ph / sqrt 2) * cos (INR (Z.to_nat m) * th).
Definition sim0 (l m : Z) (ph th : R) : R := m1pow m * (Flm (Z.to_nat l) (Z.to_nat m) ph / sqrt 2) * sin (INR (Z.to_nat m) * th).

(* ---------------- solid_harmonics ---------------- *)
Definition degrees (L : nat) : list nat := flat_map (fun l => repeat l (2 * l + 1)) (seq 0 (S L)).
Fixpoint map2 {A B C} (f : A -> B -> C) (a : list A) (b : list B) : list C :=
  match a, b with x :: a', y :: b' => f x y :: map2 f a' b' | _, _ => [] end.
Definition solid_model (L : nat) (r th ph : R) : list R :=
  map2 (fun d y => g_solid_entry d r y) (degrees L) (sph_model L th ph).

(* ---------------- spherical parametrisation (the direction convert_cart_to_sph inverts) ---------------- *)
Definition sph_x (r th ph : R) : R := r * (sin ph * cos th).
Definition sph_y (r th ph : R) : R := r * (sin ph * sin th).
Definition sph_z (r th ph : R) : R := r * cos ph.
