(* C08: the phi-derivative block (output[1]) of generate_derivative_real_spherical_harmonics.
   For ALL l, m it equals  N_lm * (|m| cot(phi) P_l^|m| - P_l^{|m|+1}) * az_m(theta)   (polar_reduction), i.e. it is the true
   derivative iff the classical identity dP_l^m/dphi = m cot(phi) P_l^m - P_l^{m+1} holds; that identity is proved here for
   l <= 3 (polar_derivative), beyond that it is covered numerically.  SciPy's sph_harm_y is an oracle: Section variables
   with the hypothesis the harness validates on every run. *)
From Coq Require Import Reals ZArith List Bool Arith Lia Lra.
From Coquelicot Require Import Coquelicot.
From P Require Import C08_model_base C08_gen C08_model_spec C08_model C08_proofs_loop C08_proofs_order C08_proofs_azimuth C08_proofs_small.
Import ListNotations.
Open Scope R_scope.

(* the routine's cotangent (zeroed where |tan phi| < 1e-10: the documented pole convention) *)
Definition cotc (ph : R) : R := if Rlt_dec (Rabs (tan ph)) (1 / 10000000000) then 0 else 1 / tan ph.

Lemma Dn_pos l m : (m <= l)%nat -> 0 < Dn l m.
Proof.
  induction m as [|m IH]; intros H; cbn [Dn]; [lra|]. apply Rmult_lt_0_compat; [apply IH; lia|].
  apply sqrt_lt_R0. apply Rmult_lt_0_compat.
  - rewrite <- plus_INR. pose proof (pos_INR (l + m)). lra.
  - apply Rlt_Rminus, lt_INR. lia.
Qed.

Lemma fac_rel l a : (1 <= a < l)%nat -> sqrt ((INR l - INR a) * (INR l + INR a + 1)) * Nlm l (S a) = Nlm l a.
Proof.
  intros H. destruct a as [|a]; [lia|]. unfold Nlm. cbn [Dn].
  pose proof (Dn_pos l (S a) ltac:(lia)) as HD. cbn [Dn] in HD.
  set (X := sqrt ((INR l + INR (S a) + 1) * (INR l - INR (S a)))).
  assert (HX : 0 < X).
  { apply sqrt_lt_R0. apply Rmult_lt_0_compat; [rewrite <- plus_INR; pose proof (pos_INR (l + S a)); lra|apply Rlt_Rminus, lt_INR; lia]. }
  replace ((INR l - INR (S a)) * (INR l + INR (S a) + 1)) with ((INR l + INR (S a) + 1) * (INR l - INR (S a))) by ring. fold X.
  assert (HD1 : 0 < Dn l a) by (apply Dn_pos; lia).
  assert (HY : 0 < sqrt ((INR l + INR a + 1) * (INR l - INR a))).
  { apply sqrt_lt_R0. apply Rmult_lt_0_compat; [rewrite <- plus_INR; pose proof (pos_INR (l + a)); lra|apply Rlt_Rminus, lt_INR; lia]. }
  field. repeat split; apply Rgt_not_eq; assumption.
Qed.

Lemma fac_rel0 l : (1 <= l)%nat -> sqrt ((INR l - 0) * (INR l + 0 + 1)) * Nlm l 1 = sqrt 2 * Nlm l 0.
Proof.
  intros H. unfold Nlm. cbn [Dn INR].
  replace ((INR l - 0) * (INR l + 0 + 1)) with ((INR l + 0 + 1) * (INR l - 0)) by ring.
  set (X := sqrt ((INR l + 0 + 1) * (INR l - 0))).
  assert (HX : 0 < X).
  { apply sqrt_lt_R0. assert (1 <= INR l) by (change 1 with (INR 1); apply le_INR; lia). apply Rmult_lt_0_compat; lra. }
  field. lra.
Qed.

Lemma m1pow_succ z : m1pow z * m1pow (Z.abs z + 1) = -1.
Proof.
  unfold m1pow. rewrite Z.even_add. replace (Z.even (Z.abs z)) with (Z.even z) by (destruct z; reflexivity).
  cbn [Z.even]. destruct (Z.even z); cbn; lra.
Qed.

Lemma Rabs_IZR_nat a : Rabs (IZR (Z.of_nat a)) = INR a.
Proof. rewrite IZRn. apply Rabs_pos_eq, pos_INR. Qed.
Lemma Rabs_IZR_neg a : Rabs (IZR (- Z.of_nat a)) = INR a.
Proof. rewrite opp_IZR, Rabs_Ropp. apply Rabs_IZR_nat. Qed.

Lemma cotc_eq ph : sin ph <> 0 -> cos ph = 0 \/ 1 / 10000000000 <= Rabs (tan ph) -> cotc ph = cos ph / sin ph.
Proof.
  intros Hs [Hc|Ht]; unfold cotc.
  - assert (T0 : tan ph = 0) by (unfold tan, Rdiv; rewrite Hc, Rinv_0; ring).
    rewrite T0, Rabs_R0, Hc. destruct (Rlt_dec 0 (1 / 10000000000)); [|lra]. unfold Rdiv. ring.
  - destruct (Rlt_dec (Rabs (tan ph)) (1 / 10000000000)) as [H|_]; [lra|].
    assert (Hc : cos ph <> 0).
    { intros Hc. assert (T0 : tan ph = 0) by (unfold tan, Rdiv; rewrite Hc, Rinv_0; ring). rewrite T0, Rabs_R0 in Ht. lra. }
    unfold tan. field. split; assumption.
Qed.

(* P_l^m vanishes on the polar axis for m >= 1 (every l) *)
Lemma Pdiag_s0 m : (1 <= m)%nat -> Pdiag m 0 = 0.
Proof. destruct m; [lia|]. intros _. cbn [Pdiag]. ring. Qed.
Lemma Ppair_s0 l m c : (1 <= m)%nat -> Ppair l m 0 c = (0, 0).
Proof.
  intros Hm. induction l as [|l IH]; cbn [Ppair].
  - destruct m; [lia|reflexivity].
  - rewrite IH. cbn [fst snd]. f_equal.
    destruct (Nat.ltb (S l) m); [reflexivity|]. destruct (Nat.eqb (S l) m); [apply Pdiag_s0; exact Hm|]. unfold Rdiv. ring.
Qed.
Lemma Plm_s0 l m c : (1 <= m)%nat -> Plm l m 0 c = 0.
Proof. intros H. unfold Plm. rewrite Ppair_s0 by exact H. reflexivity. Qed.

(* dP_l^m/dphi = m cot(phi) P_l^m - P_l^{m+1}  for l <= 3 *)
Lemma legendre_deriv3 l a ph : (l <= 3)%nat -> (a <= l)%nat -> 0 < ph < PI -> cos ph = 0 \/ 1 / 10000000000 <= Rabs (tan ph) ->
  is_derive (fun p => Plm l a (sin p) (cos p)) ph
    (INR a * cotc ph * Plm l a (sin ph) (cos ph) - Plm l (S a) (sin ph) (cos ph)).
Proof.
  intros H3 Ha Hph Hc. assert (Hs : sin ph <> 0) by (apply Rgt_not_eq, sin_gt_0; lra).
  rewrite (cotc_eq ph Hs Hc).
  pose proof (sin2_cos2 ph) as HP. unfold Rsqr in HP. assert (HP' : sin ph ^ 2 = 1 - cos ph ^ 2) by lra.
  destruct l as [|[|[|[|l]]]]; [| | | |lia]; (destruct a as [|[|[|[|a]]]]; [| | | |lia]); try lia; cbn [INR].
  - apply (is_derive_ext (fun _ => 1)); [intros; rewrite P00; reflexivity|]. rewrite P00, (Plm_lt 0 1) by lia. auto_derive; [exact I|field; exact Hs].
  - apply (is_derive_ext (fun p => cos p)); [intros; rewrite P10; reflexivity|]. rewrite P10, P11. auto_derive; [exact I|field; exact Hs].
  - apply (is_derive_ext (fun p => sin p)); [intros; rewrite P11; reflexivity|]. rewrite P11, (Plm_lt 1 2) by lia. auto_derive; [exact I|field; exact Hs].
  - apply (is_derive_ext (fun p => (3 * cos p ^ 2 - 1) / 2)); [intros; rewrite P20; reflexivity|]. rewrite P20, P21. auto_derive; [exact I|field; exact Hs].
  - apply (is_derive_ext (fun p => 3 * cos p * sin p)); [intros; rewrite P21; reflexivity|]. rewrite P21, P22. auto_derive; [exact I|field; exact Hs].
  - apply (is_derive_ext (fun p => 3 * sin p ^ 2)); [intros; rewrite P22; reflexivity|]. rewrite P22, (Plm_lt 2 3) by lia. auto_derive; [exact I|field; exact Hs].
  - apply (is_derive_ext (fun p => (5 * cos p ^ 3 - 3 * cos p) / 2)); [intros; rewrite P30; reflexivity|]. rewrite P30, P31. auto_derive; [exact I|field; exact Hs].
  - apply (is_derive_ext (fun p => 3 * (5 * cos p ^ 2 - 1) * sin p / 2)); [intros; rewrite P31; reflexivity|]. rewrite P31, P32. auto_derive; [exact I|field; exact Hs].
  - apply (is_derive_ext (fun p => 15 * cos p * sin p ^ 2)); [intros; rewrite P32; reflexivity|]. rewrite P32, P33. auto_derive; [exact I|field_simplify_eq; [ring [HP']|exact Hs]].
  - apply (is_derive_ext (fun p => 15 * sin p ^ 3)); [intros; rewrite P33; reflexivity|]. rewrite P33, (Plm_lt 3 4) by lia. auto_derive; [exact I|field; exact Hs].
Qed.

(* if the routine carries a factor sign(sin phi)^k (for polar angles outside [0, pi]), it is 1 on [0, pi] *)
Ltac sin_sign_one ph Hph :=
  try (match goal with |- context [Rlt_dec (sin ph) 0] =>
         let Hneg := fresh "Hneg" in
         destruct (Rlt_dec (sin ph) 0) as [Hneg|_];
         [exfalso; pose proof (sin_ge_0 ph (proj1 Hph) (proj2 Hph)); lra|] end);
  rewrite ?powerRZ_R1.

Section Polar.
  Variables sre sim : Z -> Z -> R -> R -> R.
  (* scipy.special.sph_harm_y(n, m, polar, azimuth) for 1 <= m, polar angle in [0, pi]:
     (-1)^m (Condon-Shortley) * F_nm(polar)/sqrt(2) * exp(i m azimuth);   F_nm = 0 for m > n *)
  Hypothesis sphy_spec : forall (l m : nat) th ph, 0 <= ph <= PI -> (1 <= m)%nat ->
    sre (Z.of_nat l) (Z.of_nat m) ph th = m1pow (Z.of_nat m) * (Flm l m ph / sqrt 2) * cos (INR m * th) /\
    sim (Z.of_nat l) (Z.of_nat m) ph th = m1pow (Z.of_nat m) * (Flm l m ph / sqrt 2) * sin (INR m * th).

  Let sq2 : 0 < sqrt 2. Proof. apply sqrt_lt_R0. lra. Qed.

  Lemma trig_re a th : cos th * cos (INR (S a) * th) + sin th * sin (INR (S a) * th) = cos (INR a * th).
  Proof. rewrite S_INR. replace (INR a * th) with ((INR a + 1) * th - th) by ring. rewrite cos_minus. ring. Qed.
  Lemma trig_im a th : cos th * sin (INR (S a) * th) - sin th * cos (INR (S a) * th) = sin (INR a * th).
  Proof. rewrite S_INR. replace (INR a * th) with ((INR a + 1) * th - th) by ring. rewrite sin_minus. ring. Qed.

  (* polar_reduction, m >= 0 *)
  Lemma dstep_snd_nonneg L l a th ph : (l <= L)%nat -> (a <= l)%nat -> 0 <= ph <= PI ->
    snd (g_dstep sre sim (Z.of_nat l) (Z.of_nat a) th ph (sph_model L th ph)) =
    Nlm l a * (INR a * cotc ph * Plm l a (sin ph) (cos ph) - Plm l (S a) (sin ph) (cos ph)) * az (Z.of_nat a) th.
  Proof.
    intros HL Ha Hph. unfold g_dstep. fold (cotc ph). sin_sign_one ph Hph.
    unfold znth. rewrite !index_m_iota. destruct (output_order_lemma L th ph) as [_ Ho]. rewrite !Ho by lia.
    replace (Z.abs (Z.of_nat a) + 1)%Z with (Z.of_nat (S a)) by lia.
    destruct (sphy_spec l (S a) th ph Hph ltac:(lia)) as [Hre Him]. rewrite Hre, Him.
    rewrite cos_neg, sin_neg, Rabs_IZR_nat, !IZRn.
    pose proof (m1pow_succ (Z.of_nat a)) as Hp. replace (Z.abs (Z.of_nat a) + 1)%Z with (Z.of_nat (S a)) in Hp by lia.
    set (p1 := m1pow (Z.of_nat a)) in *. set (p2 := m1pow (Z.of_nat (S a))) in *.
    unfold Yspec, Flm. rewrite ?abs_nat_opp, ?Z.opp_involutive, !Zabs2Nat.id.
    set (s := sin ph). set (c := cos ph).
    destruct (Z.geb_spec (Z.of_nat a) 0) as [_|]; [|lia].
    destruct (Z.ltb_spec (Z.of_nat a) (Z.of_nat l)) as [Hlt|Hge].
    - destruct (Z.eqb_spec (Z.of_nat a) 0) as [E0|N0].
      + assert (a = 0)%nat by lia. subst a. cbn [snd]. unfold az. cbn [Z.of_nat Z.ltb Z.compare]. change (INR 0) with 0.
        pose proof (fac_rel0 l ltac:(lia)) as HF. set (fac := sqrt ((INR l - 0) * (INR l + 0 + 1))) in *.
        pose proof (trig_re 0 th) as HT. change (INR 0) with 0 in HT. rewrite Rmult_0_l, cos_0 in HT.
        set (C := cos (INR 1 * th)) in *. set (S := sin (INR 1 * th)) in *.
        transitivity ((fac * Nlm l 1) * Plm l 1 s c * (p1 * p2) * (cos th * C + sin th * S) / sqrt 2).
        { field. lra. }
        rewrite HT, HF, Hp. field. lra.
      + cbn [snd]. unfold az. destruct (Z.ltb_spec 0 (Z.of_nat a)) as [_|]; [|lia]. rewrite IZRn.
        pose proof (fac_rel l a ltac:(lia)) as HF. set (fac := sqrt ((INR l - INR a) * (INR l + INR a + 1))) in *.
        pose proof (trig_re a th) as HT.
        set (C := cos (INR (S a) * th)) in *. set (S' := sin (INR (S a) * th)) in *.
        transitivity (INR a * cotc ph * (Nlm l a * Plm l a s c * cos (INR a * th))
                      + (fac * Nlm l (S a)) * Plm l (S a) s c * (p1 * p2) * (cos th * C + sin th * S')).
        { field. lra. }
        rewrite HT, HF, Hp. ring.
    - assert (a = l) by lia. subst a. rewrite (Plm_lt l (S l)) by lia.
      destruct (Z.eqb_spec (Z.of_nat l) 0) as [E0|N0].
      + assert (l = 0)%nat by lia. subst l. cbn [snd]. unfold az. cbn [Z.of_nat Z.ltb Z.compare]. change (INR 0) with 0. field. lra.
      + cbn [snd]. unfold az. destruct (Z.ltb_spec 0 (Z.of_nat l)) as [_|]; [|lia]. rewrite IZRn. ring.
  Qed.

  (* polar_reduction, m < 0 *)
  Lemma dstep_snd_neg L l a th ph : (l <= L)%nat -> (1 <= a <= l)%nat -> 0 <= ph <= PI ->
    snd (g_dstep sre sim (Z.of_nat l) (- Z.of_nat a) th ph (sph_model L th ph)) =
    Nlm l a * (INR a * cotc ph * Plm l a (sin ph) (cos ph) - Plm l (S a) (sin ph) (cos ph)) * az (- Z.of_nat a) th.
  Proof.
    intros HL Ha Hph. unfold g_dstep. fold (cotc ph). sin_sign_one ph Hph.
    unfold znth. rewrite !index_m_iota. destruct (output_order_lemma L th ph) as [_ Ho]. rewrite !Ho by lia.
    replace (Z.abs (- Z.of_nat a) + 1)%Z with (Z.of_nat (S a)) by lia.
    destruct (sphy_spec l (S a) th ph Hph ltac:(lia)) as [Hre Him]. rewrite Hre, Him.
    rewrite cos_neg, sin_neg, Rabs_IZR_neg, !IZRn.
    pose proof (m1pow_succ (- Z.of_nat a)) as Hp. replace (Z.abs (- Z.of_nat a) + 1)%Z with (Z.of_nat (S a)) in Hp by lia.
    set (p1 := m1pow (- Z.of_nat a)) in *. set (p2 := m1pow (Z.of_nat (S a))) in *.
    unfold Yspec, Flm. rewrite ?abs_nat_opp, ?Z.opp_involutive, !Zabs2Nat.id.
    set (s := sin ph). set (c := cos ph).
    destruct (Z.geb_spec (- Z.of_nat a) 0) as [|_]; [lia|].
    destruct (Z.ltb_spec (- Z.of_nat a) 0) as [_|]; [|lia].
    unfold az. destruct (Z.ltb_spec 0 (- Z.of_nat a)) as [|_]; [lia|]. destruct (Z.ltb_spec (- Z.of_nat a) 0) as [_|]; [|lia].
    rewrite Z.opp_involutive, IZRn.
    destruct (Z.eqb_spec (- Z.of_nat a) 0) as [|_]; [lia|].
    destruct (Z.gtb_spec (- Z.of_nat a) (- Z.of_nat l)) as [Hlt|Hge].
    - cbn [snd]. pose proof (fac_rel l a ltac:(lia)) as HF. set (fac := sqrt ((INR l - INR a) * (INR l + INR a + 1))) in *.
      pose proof (trig_im a th) as HT.
      set (C := cos (INR (S a) * th)) in *. set (S' := sin (INR (S a) * th)) in *.
      transitivity (INR a * cotc ph * (Nlm l a * Plm l a s c * sin (INR a * th))
                    + (fac * Nlm l (S a)) * Plm l (S a) s c * (p1 * p2) * (cos th * S' - sin th * C)).
      { field. lra. }
      rewrite HT, HF, Hp. ring.
    - assert (a = l) by lia. subst a. rewrite (Plm_lt l (S l)) by lia. cbn [snd]. ring.
  Qed.

  (* polar_reduction: all l_max, l, m *)
  Lemma polar_reduction_lemma L l m th ph : (l <= L)%nat -> (- Z.of_nat l <= m <= Z.of_nat l)%Z -> 0 <= ph <= PI ->
    snd (nth (row l m) (dsph_model sre sim L th ph) (0, 0)) =
    Nlm l (Z.abs_nat m) * (INR (Z.abs_nat m) * cotc ph * Plm l (Z.abs_nat m) (sin ph) (cos ph) - Plm l (S (Z.abs_nat m)) (sin ph) (cos ph)) * az m th.
  Proof.
    intros HL Hm Hph. destruct (dsph_model_nth sre sim L th ph) as [_ Hd]. rewrite Hd by assumption.
    destruct (Z_le_gt_dec 0 m) as [Hp|Hn].
    - set (a := Z.to_nat m). assert (E : m = Z.of_nat a) by lia. clearbody a. subst m.
      rewrite dstep_snd_nonneg; [|lia|lia|exact Hph]. rewrite Zabs2Nat.id. reflexivity.
    - set (a := Z.abs_nat m). assert (E : m = (- Z.of_nat a)%Z) by lia. clearbody a. subst m.
      rewrite dstep_snd_neg; [|lia|lia|exact Hph]. reflexivity.
  Qed.

  (* the documented pole convention: at phi = 0 and phi = pi the returned phi-derivative is zero, all l, m *)
  Lemma pole_convention_lemma L l m th ph : (l <= L)%nat -> (- Z.of_nat l <= m <= Z.of_nat l)%Z -> ph = 0 \/ ph = PI ->
    snd (nth (row l m) (dsph_model sre sim L th ph) (0, 0)) = 0.
  Proof.
    intros HL Hm Hph. pose proof PI_RGT_0. rewrite polar_reduction_lemma by (try assumption; destruct Hph; subst ph; lra).
    assert (S0 : sin ph = 0) by (destruct Hph; subst ph; [apply sin_0|apply sin_PI]).
    assert (C0 : cotc ph = 0).
    { unfold cotc, tan. rewrite S0. unfold Rdiv. rewrite Rmult_0_l, Rabs_R0. destruct (Rlt_dec 0 (1 * / 10000000000)); [reflexivity|lra]. }
    rewrite C0, S0, (Plm_s0 l (S (Z.abs_nat m))) by lia. ring.
  Qed.

  (* polar_derivative: l <= 3, every m, every theta, every phi strictly between the poles (outside the 1e-10 band where the
     routine zeroes the cotangent) *)
  Lemma polar_derivative_lemma L l m th ph : (l <= 3)%nat -> (l <= L)%nat -> (- Z.of_nat l <= m <= Z.of_nat l)%Z ->
    0 < ph < PI -> cos ph = 0 \/ 1 / 10000000000 <= Rabs (tan ph) ->
    is_derive (fun p => nth (row l m) (sph_model L th p) 0) ph (snd (nth (row l m) (dsph_model sre sim L th ph) (0, 0))).
  Proof.
    intros H3 HL Hm Hph Hc. rewrite polar_reduction_lemma by (try assumption; lra).
    apply (is_derive_ext (fun p => (Nlm l (Z.abs_nat m) * az m th) * Plm l (Z.abs_nat m) (sin p) (cos p))).
    - intros p. destruct (output_order_lemma L th p) as [_ Ho]. rewrite Ho by assumption. unfold Yspec, Flm. match goal with |- ?a = ?b => change (@eq R a b) end. ring.
    - set (a := Z.abs_nat m). assert (Ha : (a <= l)%nat) by lia.
      replace (Nlm l a * (INR a * cotc ph * Plm l a (sin ph) (cos ph) - Plm l (S a) (sin ph) (cos ph)) * az m th)
        with ((Nlm l a * az m th) * (INR a * cotc ph * Plm l a (sin ph) (cos ph) - Plm l (S a) (sin ph) (cos ph))) by ring.
      apply (is_derive_scal (fun p => Plm l a (sin p) (cos p)) ph (Nlm l a * az m th)).
      apply legendre_deriv3; assumption.
  Qed.
End Polar.
