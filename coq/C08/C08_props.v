(* C08 property theorems (statements only; proofs are in C08_proofs_*.v).
   sph_model L th ph      = the list returned by generate_real_spherical_harmonics(L, th, ph) at one point (loop body generated
                            from the source, C08_gen.v);  Yspec l m th ph = the definition (C08_model_spec.v);
   dsph_model sre sim ..  = generate_derivative_real_spherical_harmonics (pairs (d/dtheta, d/dphi)), SciPy's sph_harm_y = (sre, sim);
   row l m = l*l + iota m = position of (l, m). *)
From Coq Require Import Reals ZArith List Bool Arith.
From Coquelicot Require Import Coquelicot.
From P Require Import C08_model_base C08_gen C08_model_spec C08_model C08_proofs_loop C08_proofs_order C08_proofs_azimuth.
Import ListNotations.
Open Scope R_scope.

(* ---- every l_max: the loop returns exactly the harmonics of the definition, in Horton-2 order *)
Theorem model_is_definition : forall L th ph, sph_model L th ph = spec_list L th ph.
Proof. exact sph_model_spec. Qed.
Print Assumptions model_is_definition.

Theorem output_order : forall L th ph,
  length (sph_model L th ph) = (S L * S L)%nat /\
  forall l m, (l <= L)%nat -> (- Z.of_nat l <= m <= Z.of_nat l)%Z -> nth (row l m) (sph_model L th ph) 0 = Yspec l m th ph.
Proof. exact output_order_lemma. Qed.
Print Assumptions output_order.

Theorem row_index : iota 0 = 0%nat /\ (forall m, (0 < m)%Z -> iota m = (2 * Z.to_nat m - 1)%nat) /\
  (forall m, (m < 0)%Z -> iota m = (2 * Z.abs_nat m)%nat).
Proof. exact iota_values. Qed.
Print Assumptions row_index.

Theorem row_unique : forall l m l' m', (- Z.of_nat l <= m <= Z.of_nat l)%Z -> (- Z.of_nat l' <= m' <= Z.of_nat l')%Z ->
  row l m = row l' m' -> l = l' /\ m = m'.
Proof. exact row_inj. Qed.
Print Assumptions row_unique.

Theorem row_cover : forall L i, (i < S L * S L)%nat -> exists l m, (l <= L)%nat /\ (- Z.of_nat l <= m <= Z.of_nat l)%Z /\ i = row l m.
Proof. exact row_surj. Qed.
Print Assumptions row_cover.

(* ---- the normalisation constant of the definition is the documented sqrt((l+m)!/(l-m)!) *)
Theorem norm_factorial : forall l m, (m <= l)%nat -> Dn l m = sqrt (INR (fact (l + m)) / INR (fact (l - m))).
Proof. exact norm_factorial_lemma. Qed.
Print Assumptions norm_factorial.

(* ---- azimuthal structure: the SAME polar factor for +m and -m *)
Theorem azimuthal_factor : forall L l a th ph, (l <= L)%nat -> (1 <= a <= l)%nat ->
  nth (l * l) (sph_model L th ph) 0 = Flm l 0 ph /\
  nth (l * l + (2 * a - 1)) (sph_model L th ph) 0 = Flm l a ph * cos (INR a * th) /\
  nth (l * l + 2 * a) (sph_model L th ph) 0 = Flm l a ph * sin (INR a * th).
Proof. exact azimuthal_factor_lemma. Qed.
Print Assumptions azimuthal_factor.

(* ---- output[0] of the derivative routine is -m * Y_{l,-m}, and that is the true theta-derivative (all l_max, l, m, angles) *)
Theorem theta_derivative : forall sre sim L l m th ph, (l <= L)%nat -> (- Z.of_nat l <= m <= Z.of_nat l)%Z ->
  fst (nth (row l m) (dsph_model sre sim L th ph) (0, 0)) = - IZR m * Yspec l (- m) th ph /\
  is_derive (fun t => nth (row l m) (sph_model L t ph) 0) th (fst (nth (row l m) (dsph_model sre sim L th ph) (0, 0))).
Proof. exact theta_derivative_lemma. Qed.
Print Assumptions theta_derivative.

Theorem theta_periodic : forall L th ph, sph_model L (th + 2 * PI) ph = sph_model L th ph.
Proof. exact theta_periodic_lemma. Qed.
Print Assumptions theta_periodic.

(* ---- solid harmonics *)
Theorem solid_def : forall L l m r th ph, (l <= L)%nat -> (- Z.of_nat l <= m <= Z.of_nat l)%Z ->
  nth (row l m) (solid_model L r th ph) 0 = sqrt (4 * PI / (2 * INR l + 1)) * r ^ l * Yspec l m th ph.
Proof. exact solid_def_lemma. Qed.
Print Assumptions solid_def.

