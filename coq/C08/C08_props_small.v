(* C08 property theorems (statements only; proofs are in C08_proofs_*.v).
   sph_model L th ph      = the list returned by generate_real_spherical_harmonics(L, th, ph) at one point (loop body generated
                            from the source, C08_gen.v);  Yspec l m th ph = the definition (C08_model_spec.v);
   dsph_model sre sim ..  = generate_derivative_real_spherical_harmonics (pairs (d/dtheta, d/dphi)), SciPy's sph_harm_y = (sre, sim);
   row l m = l*l + iota m = position of (l, m). *)
From Coq Require Import Reals ZArith List Bool Arith.
From Coquelicot Require Import Coquelicot.
From P Require Import C08_model_base C08_gen C08_model_spec C08_model C08_proofs_loop C08_proofs_order C08_proofs_azimuth
  C08_proofs_small.
Import ListNotations.
Open Scope R_scope.

(* ---- l <= 3, ALL angles (partial: the degree bound is in the statement; l > 3 is covered numerically) *)
Theorem closed_forms_partial : forall L th ph, (3 <= L)%nat -> firstn 16 (sph_model L th ph) = textbook3 th ph.
Proof. exact closed_forms_lemma. Qed.
Print Assumptions closed_forms_partial.

Theorem addition_theorem_partial : forall L l th1 ph1 th2 ph2, (l <= 3)%nat -> (l <= L)%nat ->
  addsum L l th1 ph1 th2 ph2 = (2 * INR l + 1) / (4 * PI) * Pleg l (cosgamma th1 ph1 th2 ph2).
Proof. exact addition_theorem_lemma. Qed.
Print Assumptions addition_theorem_partial.

