(* C02 — executable model: exact evaluation of the quadrature sums of a shipped angular grid against
   the (unnormalised, integer-coefficient) real solid harmonics, and the checker [grid_ok].

   Everything is generic in the number type through a record of ring operations: the very same
   definitions are executed at [bigZ] by vm_compute (exact integers, no rounding anywhere) and
   interpreted at [R] in the soundness theorem (C02_proofs.v).  No proofs in this file.

   Data representation.  Every shipped float is a dyadic rational.  A grid file is handed to the
   checker as integers:  x = X / 2^s (all coordinates of the file, one common s) and w = W / 2^sw.
   The harmonics used are homogeneous polynomials, so the scaled integers can be fed directly.

   Harmonics.  For m >= 0 let  C_m + i S_m = (x + i y)^m  and let U_l^m(z, rho) be given by the
   division-free recurrence
       U_m^m = 1,  U_(m-1)^m = 0,
       U_(l+1)^m = (2l+1) z U_l^m - (l+m)(l-m) rho U_(l-1)^m .
   With rho = 1,  H_(l,m) = C_m U_l^m and H_(l,-m) = S_m U_l^m are, up to the normalisation constant
   (whose square is the rational kappa(l,m)/pi below), the Cartesian form
       N_lm (C_m | S_m)(x,y) d^m P_l/dz^m (z)
   of the real spherical harmonics Y_(l,±m); C02_legendre.v / C02_proofs.v prove this for every l, m.
   rho is a parameter only because the integers fed to the checker are the coordinates times 2^s:
   U_l^m(2^s z, 4^s) = 2^(s(l-m)) U_l^m(z, 1).

   Cost.  The sums S_(l,±m) = sum_i w_i (C_m|S_m)(x_i,y_i) U_l^m(z_i) are not formed point by point.
   First the moments M_(m,a) = sum_i w_i (C_m|S_m)(x_i,y_i) z_i^a (m + a <= d) are accumulated (one
   small-by-big multiplication and one addition per point and entry), then the recurrence is applied to
   the moment rows:  G_(l,j) = sum_i w_i C_m z_i^j U_l^m(z_i) satisfies
   G_(l+1,j) = (2l+1) G_(l,j+1) - (l+m)(l-m) rho G_(l-1,j),  and S_(l,m) = G_(l,0). *)
From Coq Require Import ZArith List Bool.
From Bignums Require Import BigZ.
Import ListNotations.

Record Ops (A : Type) := MkOps {
  o0 : A; o1 : A; oadd : A -> A -> A; osub : A -> A -> A; omul : A -> A -> A; oZ : Z -> A }.
Arguments o0 {A} _.
Arguments o1 {A} _.
Arguments oadd {A} _ _ _.
Arguments osub {A} _ _ _.
Arguments omul {A} _ _ _.
Arguments oZ {A} _ _.

Section Gen.
Context {A : Type} (K : Ops A).
Local Notation "x +' y" := (oadd K x y) (at level 50, left associativity).
Local Notation "x -' y" := (osub K x y) (at level 50, left associativity).
Local Notation "x *' y" := (omul K x y) (at level 40, left associativity).

(* one point of the grid with its weight: (X, Y, Z, W) *)
Record pt := Pt { px : A; py : A; pz : A; pw : A }.

Definition rho (p : pt) : A := px p *' px p +' py p *' py p +' pz p *' pz p.

(* (C_m, S_m) -> (C_(m+1), S_(m+1)) *)
Definition cs_step (X Y : A) (cs : A * A) : A * A :=
  (X *' fst cs -' Y *' snd cs, X *' snd cs +' Y *' fst cs).

Fixpoint cs_pow (m : nat) (X Y : A) : A * A :=
  match m with O => (o1 K, o0 K) | S k => cs_step X Y (cs_pow k X Y) end.

(* U_(l+1) from U_l (ucur) and U_(l-1) (uprev) *)
Definition u_next (l m : Z) (z r2 ucur uprev : A) : A :=
  (oZ K (2 * l + 1) *' z) *' ucur -' (oZ K ((l + m) * (l - m)) *' r2) *' uprev.

(* (U_(m+n)^m, U_(m+n-1)^m) at (z, rho) *)
Fixpoint u_pair (n : nat) (m : Z) (z r2 : A) : A * A :=
  match n with
  | O => (o1 K, o0 K)
  | S k => let u := u_pair k m z r2 in (u_next (m + Z.of_nat k)%Z m z r2 (fst u) (snd u), fst u)
  end.

(* [t; z t; z^2 t; ...] (n+1 entries), on pairs *)
Fixpoint pow_row (n : nat) (z : A) (t : A * A) : list (A * A) :=
  match n with
  | O => [t]
  | S n' => t :: pow_row n' z (z *' fst t, z *' snd t)
  end.

(* the monomial terms of one point for one m:  [(W C_m Z^a, W S_m Z^a) | a = 0 .. n] *)
Definition pt_row (n : nat) (p : pt) (cs : A * A) : list (A * A) :=
  pow_row n (pz p) (pw p *' fst cs, pw p *' snd cs).

(* triangle of one point: rows m = m0, m0+1, ..., m0+n ; row m has entries a = 0 .. m0+n-m *)
Fixpoint pt_tri (n : nat) (p : pt) (cs : A * A) : list (list (A * A)) :=
  match n with
  | O => [pt_row O p cs]
  | S n' => pt_row n p cs :: pt_tri n' p (cs_step (px p) (py p) cs)
  end.

Definition pair_add (a b : A * A) : A * A := (fst a +' fst b, snd a +' snd b).

Fixpoint zip_with {B} (f : B -> B -> B) (a b : list B) : list B :=
  match a, b with
  | x :: r, y :: s => f x y :: zip_with f r s
  | _, _ => []
  end.

Definition tri_add (a b : list (list (A * A))) := zip_with (zip_with pair_add) a b.

Definition tri_of (d : nat) (p : pt) := pt_tri d p (o1 K, o0 K).

(* moments  M_(m,a) = sum_i W_i (C_m,S_m)(X_i,Y_i) Z_i^a  for m + a <= d: sum of the triangles of all points *)
Definition zero_tri (d : nat) : list (list (A * A)) :=
  map (fun m => map (fun _ => (o0 K, o0 K)) (seq 0 (S (d - m)))) (seq 0 (S d)).

Definition tri_sum (d : nat) (pts : list pt) : list (list (A * A)) :=
  fold_left (fun acc q => tri_add acc (tri_of d q)) pts (zero_tri d).

(* From the moments of one m to the sums  G_(l,j) = sum_i W_i C_m(i) Z_i^j U_l^m(Z_i, rho):
     G_(m,j) = M_(m,j),   G_(l+1,j) = (2l+1) G_(l,j+1) - (l+m)(l-m) rho G_(l-1,j).
   [cur] = G_(l,.), [prev] = G_(l-1,.) (zeros for l = m). *)
Definition g_next (l m : Z) (r2 : A) (cur' prev : list A) : list A :=
  zip_with (fun c p => oZ K (2 * l + 1) *' c -' (oZ K ((l + m) * (l - m)) *' r2) *' p) cur' prev.

(* [G_(l,0); G_(l+1,0); ...] (n+1 entries) *)
Fixpoint g_heads (n : nat) (l m : Z) (r2 : A) (cur prev : list A) : list A :=
  match n with
  | O => [hd (o0 K) cur]
  | S n' => hd (o0 K) cur :: g_heads n' (l + 1)%Z m r2 (g_next l m r2 (tl cur) prev) cur
  end.

(* row m of the moment triangle (d - m + 1 entries) -> [(S_(l,m), S_(l,-m)) | l = m .. d] *)
Definition s_row (m : nat) (r2 : A) (row : list (A * A)) : list (A * A) :=
  let n := pred (length row) in
  let c := map fst row in
  let s := map snd row in
  let zs := repeat (o0 K) (S (length row)) in
  combine (g_heads n (Z.of_nat m) (Z.of_nat m) r2 c zs) (g_heads n (Z.of_nat m) (Z.of_nat m) r2 s zs).

Fixpoint s_tri (m : nat) (r2 : A) (tri : list (list (A * A))) : list (list (A * A)) :=
  match tri with
  | [] => []
  | row :: r => s_row m r2 row :: s_tri (S m) r2 r
  end.

Fixpoint sum_list (l : list A) : A :=
  match l with [] => o0 K | x :: r => x +' sum_list r end.

End Gen.

Arguments Pt {A} _ _ _ _.
Arguments px {A} _.
Arguments py {A} _.
Arguments pz {A} _.
Arguments pw {A} _.

(* ------------------------------------------------------------------ the two instances *)
Definition ZOps : Ops Z := MkOps Z 0%Z 1%Z Z.add Z.sub Z.mul (fun z => z).
Definition BOps : Ops bigZ := MkOps bigZ 0%bigZ 1%bigZ BigZ.add BigZ.sub BigZ.mul BigZ.of_Z.

(* ------------------------------------------------------------------ normalisation constants *)
(* kappa(l,m) = pi * N_lm^2 * ((2m-1)!!/(l-m)!)^2
              = (2l+1) e_m ((2m-1)!!)^2 / (4 (l+m)! (l-m)!),   e_0 = 1, e_m = 2 (m>0) *)
Fixpoint zfact (n : nat) : Z := match n with O => 1%Z | S k => (Z.of_nat n * zfact k)%Z end.
Fixpoint zdfact_odd (m : nat) : Z :=      (* (2m-1)!! *)
  match m with O => 1%Z | S k => ((2 * Z.of_nat m - 1) * zdfact_odd k)%Z end.
Definition kappa_num (l m : nat) : Z :=
  ((2 * Z.of_nat l + 1) * (if Nat.eqb m 0 then 1 else 2) * zdfact_odd m * zdfact_odd m)%Z.
Definition kappa_den (l m : nat) : Z := (4 * zfact (l + m) * zfact (l - m))%Z.

(* rational enclosure of pi (proved in C02_proofs.v with interval):  pi_lo < PI < pi_hi, width 1e-30 *)
Definition pi_den : Z := (10 ^ 30)%Z.
Definition pi_lo_num : Z := 3141592653589793238462643383279%Z.
Definition pi_hi_num : Z := 3141592653589793238462643383280%Z.

(* tolerances of the property:  points on the sphere to 1e-13 (|x^2+y^2+z^2 - 1|), integrals to 1e-9 *)
Definition tol_sphere_inv : Z := (10 ^ 13)%Z.
Definition tol_int_inv : Z := (10 ^ 9)%Z.

(* ------------------------------------------------------------------ the checker (at bigZ) *)
(* normalisation applied by AngularGrid.__init__ *)
Inductive norm_mode := Times4Pi | AsStored.

(* weights array returned by _load_precomputed_angular_grid: a single stored weight is broadcast *)
Definition expand_weights {A} (n : nat) (ws : list A) : list A :=
  match ws with [w] => repeat w n | _ => ws end.

Fixpoint mk_pts {A} (ps : list (A * A * A)) (ws : list A) : option (list (@pt A)) :=
  match ps, ws with
  | [], [] => Some []
  | (x, y, z) :: pr, w :: wr =>
      match mk_pts pr wr with Some r => Some (Pt x y z w :: r) | None => None end
  | _, _ => None
  end.

Definition bz (z : Z) : bigZ := BigZ.of_Z z.
Definition bpow2 (n : Z) : bigZ := BigZ.pow (bz 2) (bz n).

(* | X^2+Y^2+Z^2 - 4^s | * 10^13 <= 4^s *)
Definition on_sphere_ok (s : Z) (p : @pt bigZ) : bool :=
  let one2 := bpow2 (2 * s) in
  BigZ.leb (BigZ.mul (BigZ.abs (BigZ.sub (rho BOps p) one2)) (bz tol_sphere_inv)) one2.

(* | sum w - 4 pi | <= 1e-9   (Sw = 2^sw * sum of the stored weights) *)
Definition wsum_ok (mode : norm_mode) (sw : Z) (Sw : bigZ) : bool :=
  let one := bpow2 sw in
  match mode with
  | Times4Pi =>   (* 4 pi |Sw/2^sw - 1| <= 1e-9   <=   4 pi_hi |Sw - 2^sw| 1e9 <= 2^sw *)
      BigZ.leb (bz 4 * bz pi_hi_num * BigZ.abs (Sw - one) * bz tol_int_inv)%bigZ (one * bz pi_den)%bigZ
  | AsStored =>   (* Sw/2^sw - 1e-9 <= 4 pi_lo  and  4 pi_hi <= Sw/2^sw + 1e-9 *)
      BigZ.leb ((Sw * bz tol_int_inv - one) * bz pi_den)%bigZ (bz 4 * bz pi_lo_num * one * bz tol_int_inv)%bigZ
      && BigZ.leb (bz 4 * bz pi_hi_num * one * bz tol_int_inv)%bigZ ((Sw * bz tol_int_inv + one) * bz pi_den)%bigZ
  end.

(* kappa(l,m) * S^2 (* 16 pi^2 *) <= pi * 1e-18, with S = St / 2^(s l + sw) *)
Definition lm_ok (mode : norm_mode) (s sw : Z) (l m : nat) (St : bigZ) : bool :=
  let sc := bpow2 (2 * (s * Z.of_nat l + sw)) in
  let lhs := (bz (kappa_num l m) * (St * St) * bz tol_int_inv * bz tol_int_inv)%bigZ in
  let rhs := (bz (kappa_den l m) * sc)%bigZ in
  match mode with
  | Times4Pi => BigZ.leb (bz 16 * lhs * bz pi_hi_num)%bigZ (rhs * bz pi_den)%bigZ
  | AsStored => BigZ.leb (lhs * bz pi_den)%bigZ (rhs * bz pi_lo_num)%bigZ
  end.

(* row m of the summed triangle holds l = m, m+1, ... ; l = 0 is the weight sum and is checked by
   wsum_ok, so it is skipped here *)
Fixpoint row_ok (mode : norm_mode) (s sw : Z) (l m : nat) (row : list (bigZ * bigZ)) : bool :=
  match row with
  | [] => true
  | (sc, ss) :: r =>
      (if Nat.eqb l 0 then true else lm_ok mode s sw l m sc && lm_ok mode s sw l m ss)
      && row_ok mode s sw (S l) m r
  end.

Fixpoint tri_ok (mode : norm_mode) (s sw : Z) (m : nat) (tri : list (list (bigZ * bigZ))) : bool :=
  match tri with
  | [] => true
  | row :: r => row_ok mode s sw m m row && tri_ok mode s sw (S m) r
  end.

(* the checker.  mode: normalisation of the method; d: advertised degree; n: advertised size;
   s, sw: binary scales; ps: stored points; ws: stored weights (possibly a single one) *)
Definition grid_ok (mode : norm_mode) (d n : nat) (s sw : Z)
           (ps : list (bigZ * bigZ * bigZ)) (ws : list bigZ) : bool :=
  Nat.eqb (length ps) n && (0 <=? s)%Z && (0 <=? sw)%Z &&
  match mk_pts ps (expand_weights n ws) with
  | None => false
  | Some pts =>
      forallb (on_sphere_ok s) pts
      && wsum_ok mode sw (sum_list BOps (map pw pts))
      && tri_ok mode s sw 0 (s_tri BOps 0 (bpow2 (2 * s)) (tri_sum BOps d pts))
  end.

(* ------------------------------------------------------------------ refutation of a single quantity
   (kernel-checked witness that a file violates the property; cost N*l instead of N*d^2) *)
Definition S_lm (s : Z) (l m : nat) (neg : bool) (pts : list (@pt bigZ)) : bigZ :=
  sum_list BOps (map (fun p =>
    let cs := cs_pow BOps m (px p) (py p) in
    let u := fst (u_pair BOps (l - m) (Z.of_nat m) (pz p) (bpow2 (2 * s))) in
    ((pw p * (if neg then snd cs else fst cs)) * u)%bigZ) pts).

(* kappa(l,m) * S^2 (* 16 pi^2 *) > pi * 1e-18 *)
Definition lm_bad (mode : norm_mode) (s sw : Z) (l m : nat) (St : bigZ) : bool :=
  let sc := bpow2 (2 * (s * Z.of_nat l + sw)) in
  let lhs := (bz (kappa_num l m) * (St * St) * bz tol_int_inv * bz tol_int_inv)%bigZ in
  let rhs := (bz (kappa_den l m) * sc)%bigZ in
  match mode with
  | Times4Pi => BigZ.ltb (rhs * bz pi_den)%bigZ (bz 16 * lhs * bz pi_lo_num)%bigZ
  | AsStored => BigZ.ltb (rhs * bz pi_hi_num)%bigZ (lhs * bz pi_den)%bigZ
  end.

(* | sum w - 4 pi | > 1e-9 *)
Definition wsum_bad (mode : norm_mode) (sw : Z) (Sw : bigZ) : bool :=
  let one := bpow2 sw in
  match mode with
  | Times4Pi => BigZ.ltb (one * bz pi_den)%bigZ (bz 4 * bz pi_lo_num * BigZ.abs (Sw - one) * bz tol_int_inv)%bigZ
  | AsStored =>
      BigZ.ltb (bz 4 * bz pi_hi_num * one * bz tol_int_inv)%bigZ ((Sw * bz tol_int_inv - one) * bz pi_den)%bigZ
      || BigZ.ltb ((Sw * bz tol_int_inv + one) * bz pi_den)%bigZ (bz 4 * bz pi_lo_num * one * bz tol_int_inv)%bigZ
  end.

(* the file violates the property at (l, m) (m >= 0; neg selects the sine harmonic (l,-m)) *)
Definition grid_bad_lm (mode : norm_mode) (n : nat) (s sw : Z) (l m : nat) (neg : bool)
           (ps : list (bigZ * bigZ * bigZ)) (ws : list bigZ) : bool :=
  (0 <=? s)%Z && (0 <=? sw)%Z && Nat.leb 1 l && Nat.leb m l && (negb neg || Nat.leb 1 m) &&
  match mk_pts ps (expand_weights n ws) with
  | None => false
  | Some pts => lm_bad mode s sw l m (S_lm s l m neg pts)
  end.

(* the file violates the property at l = 0 (weights do not sum to 4 pi) *)
Definition grid_bad_wsum (mode : norm_mode) (n : nat) (sw : Z)
           (ps : list (bigZ * bigZ * bigZ)) (ws : list bigZ) : bool :=
  (0 <=? sw)%Z &&
  match mk_pts ps (expand_weights n ws) with
  | None => false
  | Some pts => wsum_bad mode sw (sum_list BOps (map pw pts))
  end.

(* ------------------------------------------------------------------ correspondence with AngularGrid(...)
   (executed by the harness on every run; not used by the theorems)
   impl points are handed over at the file's scale s, impl weights at their own scale swi *)
Definition trip_eqb (a b : bigZ * bigZ * bigZ) : bool :=
  BigZ.eqb (fst (fst a)) (fst (fst b)) && BigZ.eqb (snd (fst a)) (snd (fst b)) && BigZ.eqb (snd a) (snd b).

Fixpoint list_eqb {A} (e : A -> A -> bool) (a b : list A) : bool :=
  match a, b with
  | [], [] => true
  | x :: r, y :: s => e x y && list_eqb e r s
  | _, _ => false
  end.

Definition pts_match (ps impl : list (bigZ * bigZ * bigZ)) : bool := list_eqb trip_eqb ps impl.

(* | wi - nf w | <= 2^-51 |wi|  with  w = W/2^sw (stored), wi = Wi/2^swi (AngularGrid.weights);
   nf = 1: exact equality required;  nf = 4 pi: pi enclosed by pi_lo/pi_hi *)
Definition wt_close (mode : norm_mode) (sw swi : Z) (W Wi : bigZ) : bool :=
  match mode with
  | AsStored => BigZ.eqb (W * bpow2 swi)%bigZ (Wi * bpow2 sw)%bigZ
  | Times4Pi =>
      (* all quantities multiplied by 2^sw 2^swi 2^51 pi_den *)
      let wi := (Wi * bpow2 sw * bpow2 51 * bz pi_den)%bigZ in
      let eps := (BigZ.abs Wi * bpow2 sw * bz pi_den)%bigZ in
      let a := (bz 4 * bz pi_lo_num * W * bpow2 swi * bpow2 51)%bigZ in
      let b := (bz 4 * bz pi_hi_num * W * bpow2 swi * bpow2 51)%bigZ in
      BigZ.leb (BigZ.min a b - eps)%bigZ wi && BigZ.leb wi (BigZ.max a b + eps)%bigZ
  end.

Definition wts_match (mode : norm_mode) (n : nat) (sw swi : Z) (ws impl : list bigZ) : bool :=
  list_eqb (wt_close mode sw swi) (expand_weights n ws) impl.
