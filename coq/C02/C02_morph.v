(* C02 — the generic definitions of C02_model.v commute with any homomorphism of the operation
   records (used with bigZ -> R, b |-> IZR [b]).  Purely structural inductions. *)
From Coq Require Import ZArith List Bool Lia.
From P Require Import C02_model.
Import ListNotations.

Section Morph.
Context {A B : Type} (KA : Ops A) (KB : Ops B) (f : A -> B).
Hypothesis f0 : f (o0 KA) = o0 KB.
Hypothesis f1 : f (o1 KA) = o1 KB.
Hypothesis fadd : forall x y, f (oadd KA x y) = oadd KB (f x) (f y).
Hypothesis fsub : forall x y, f (osub KA x y) = osub KB (f x) (f y).
Hypothesis fmul : forall x y, f (omul KA x y) = omul KB (f x) (f y).
Hypothesis fZ : forall z, f (oZ KA z) = oZ KB z.

Definition pmap (t : A * A) : B * B := (f (fst t), f (snd t)).
Definition map_pt (p : @pt A) : @pt B := Pt (f (px p)) (f (py p)) (f (pz p)) (f (pw p)).

Lemma m_rho p : f (rho KA p) = rho KB (map_pt p).
Proof. unfold rho, map_pt; cbn. now rewrite !fadd, !fmul. Qed.

Lemma m_cs_step X Y cs : pmap (cs_step KA X Y cs) = cs_step KB (f X) (f Y) (pmap cs).
Proof. unfold cs_step, pmap; cbn. now rewrite fsub, fadd, !fmul. Qed.

Lemma m_cs_pow m X Y : pmap (cs_pow KA m X Y) = cs_pow KB m (f X) (f Y).
Proof.
  induction m as [|m IH]; cbn [cs_pow].
  - unfold pmap; cbn. now rewrite f0, f1.
  - now rewrite m_cs_step, IH.
Qed.

Lemma m_u_next l m z r2 u up :
  f (u_next KA l m z r2 u up) = u_next KB l m (f z) (f r2) (f u) (f up).
Proof. unfold u_next. now rewrite fsub, !fmul, !fZ. Qed.

Lemma m_u_pair n m z r2 : pmap (u_pair KA n m z r2) = u_pair KB n m (f z) (f r2).
Proof.
  induction n as [|n IH]; cbn [u_pair].
  - unfold pmap; cbn. now rewrite f0, f1.
  - assert (E1 : f (fst (u_pair KA n m z r2)) = fst (u_pair KB n m (f z) (f r2))) by (now rewrite <- IH).
    assert (E2 : f (snd (u_pair KA n m z r2)) = snd (u_pair KB n m (f z) (f r2))) by (now rewrite <- IH).
    unfold pmap; cbn [fst snd]. now rewrite m_u_next, E1, E2.
Qed.

Lemma m_pow_row n z t : map pmap (pow_row KA n z t) = pow_row KB n (f z) (pmap t).
Proof.
  revert t. induction n as [|n IH]; intros t; cbn [pow_row map]; [reflexivity|].
  rewrite IH. unfold pmap; cbn [fst snd]. now rewrite !fmul.
Qed.

Lemma m_pt_row n p cs : map pmap (pt_row KA n p cs) = pt_row KB n (map_pt p) (pmap cs).
Proof. unfold pt_row. rewrite m_pow_row. unfold pmap, map_pt; cbn. now rewrite !fmul. Qed.

Lemma m_pt_tri n p cs : map (map pmap) (pt_tri KA n p cs) = pt_tri KB n (map_pt p) (pmap cs).
Proof.
  revert cs. induction n as [|n IH]; intros cs; cbn [pt_tri map].
  - now rewrite m_pt_row.
  - rewrite m_pt_row, IH, m_cs_step. reflexivity.
Qed.

Lemma m_tri_of d p : map (map pmap) (tri_of KA d p) = tri_of KB d (map_pt p).
Proof. unfold tri_of. rewrite m_pt_tri. unfold pmap; cbn. now rewrite f0, f1. Qed.

Lemma map_zip_with {X Y} (g : X -> Y) (h : X -> X -> X) (h' : Y -> Y -> Y) :
  (forall x y, g (h x y) = h' (g x) (g y)) ->
  forall a b, map g (zip_with h a b) = zip_with h' (map g a) (map g b).
Proof.
  intros H a. induction a as [|x a IH]; intros [|y b]; cbn; try reflexivity.
  now rewrite H, IH.
Qed.

Lemma m_pair_add a b : pmap (pair_add KA a b) = pair_add KB (pmap a) (pmap b).
Proof. unfold pair_add, pmap; cbn. now rewrite !fadd. Qed.

Lemma m_tri_add a b :
  map (map pmap) (tri_add KA a b) = tri_add KB (map (map pmap) a) (map (map pmap) b).
Proof.
  unfold tri_add. apply map_zip_with. intros x y. apply map_zip_with. apply m_pair_add.
Qed.

Lemma m_zero_tri d : map (map pmap) (zero_tri KA d) = zero_tri KB d.
Proof.
  unfold zero_tri. rewrite map_map. apply map_ext. intros m. rewrite map_map. apply map_ext.
  intros _. unfold pmap; cbn. now rewrite f0.
Qed.

Lemma m_tri_sum d pts : map (map pmap) (tri_sum KA d pts) = tri_sum KB d (map map_pt pts).
Proof.
  unfold tri_sum. rewrite <- m_zero_tri. generalize (zero_tri KA d).
  induction pts as [|p r IH]; intros acc; cbn [fold_left map]; [reflexivity|].
  rewrite IH, m_tri_add, m_tri_of. reflexivity.
Qed.

Lemma m_g_next l m r2 c p :
  map f (g_next KA l m r2 c p) = g_next KB l m (f r2) (map f c) (map f p).
Proof.
  unfold g_next.
  revert p. induction c as [|x c IH]; intros [|y p]; cbn; try reflexivity.
  rewrite IH. now rewrite fsub, !fmul, !fZ.
Qed.

Lemma m_hd (l : list A) : f (hd (o0 KA) l) = hd (o0 KB) (map f l).
Proof. destruct l; cbn; [exact f0|reflexivity]. Qed.

Lemma m_g_heads n l m r2 cur prev :
  map f (g_heads KA n l m r2 cur prev) = g_heads KB n l m (f r2) (map f cur) (map f prev).
Proof.
  revert l cur prev. induction n as [|n IH]; intros l cur prev; cbn [g_heads map].
  - now rewrite m_hd.
  - rewrite m_hd, IH, m_g_next. now destruct cur.
Qed.

Lemma map_combine {X Y X' Y'} (g : X -> X') (h : Y -> Y') a b :
  map (fun t => (g (fst t), h (snd t))) (combine a b) = combine (map g a) (map h b).
Proof.
  revert b. induction a as [|x a IH]; intros [|y b]; cbn; try reflexivity. now rewrite IH.
Qed.

Lemma map_repeat' {X Y} (g : X -> Y) x n : map g (repeat x n) = repeat (g x) n.
Proof. induction n; cbn; [reflexivity|now f_equal]. Qed.

Lemma m_s_row m r2 row : map pmap (s_row KA m r2 row) = s_row KB m (f r2) (map pmap row).
Proof.
  unfold s_row. rewrite !map_length.
  change pmap with (fun t : A * A => (f (fst t), f (snd t))).
  rewrite map_combine, !m_g_heads, !map_map. cbn [fst snd].
  rewrite map_repeat', f0. reflexivity.
Qed.

Lemma m_s_tri m r2 tri : map (map pmap) (s_tri KA m r2 tri) = s_tri KB m (f r2) (map (map pmap) tri).
Proof.
  revert m. induction tri as [|row r IH]; intros m; cbn [s_tri map]; [reflexivity|].
  now rewrite m_s_row, IH.
Qed.

Lemma m_sum_list l : f (sum_list KA l) = sum_list KB (map f l).
Proof. induction l as [|x l IH]; cbn; [exact f0|]. now rewrite fadd, IH. Qed.

End Morph.
