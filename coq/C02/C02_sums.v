(* C02 — closed forms, over R, of the list computations of C02_model.v:
   the summed moment triangle and the rows produced from it by the recurrence are exactly the sums
       sum_p  w_p (C_m|S_m)(x_p,y_p) U_l^m(z_p, rho)
   over the points.  (Here the "points" are arbitrary real quadruples and rho an arbitrary real.) *)
From Coq Require Import Reals ZArith List Bool Lia Lra.
From P Require Import C02_model.
Import ListNotations.
Open Scope R_scope.

Definition ROps : Ops R := MkOps R 0 1 Rplus Rminus Rmult IZR.

Notation ptR := (@pt R).

Definition Sum {X} (g : X -> R) (pts : list X) : R := sum_list ROps (map g pts).

Lemma Sum_nil {X} (g : X -> R) : Sum g [] = 0.
Proof. reflexivity. Qed.
Lemma Sum_cons {X} (g : X -> R) p r : Sum g (p :: r) = g p + Sum g r.
Proof. reflexivity. Qed.
Lemma Sum_ext {X} (g h : X -> R) pts : (forall p, g p = h p) -> Sum g pts = Sum h pts.
Proof. intros E. induction pts as [|p r IH]; [reflexivity|]. rewrite !Sum_cons, E, IH. reflexivity. Qed.
Lemma Sum_lin {X} a b (g h : X -> R) pts : Sum (fun p => a * g p - b * h p) pts = a * Sum g pts - b * Sum h pts.
Proof. induction pts as [|p r IH]; [rewrite !Sum_nil; ring|]. rewrite !Sum_cons, IH. ring. Qed.
Lemma Sum_scal {X} a (g : X -> R) pts : Sum (fun p => a * g p) pts = a * Sum g pts.
Proof. induction pts as [|p r IH]; [rewrite !Sum_nil; ring|]. rewrite !Sum_cons, IH. ring. Qed.
Lemma Sum_zero {X} (pts : list X) : Sum (fun _ => 0) pts = 0.
Proof. induction pts as [|p r IH]; [reflexivity|]. rewrite Sum_cons, IH. ring. Qed.
Lemma Sum_map {X Y} (g : Y -> R) (h : X -> Y) pts : Sum g (map h pts) = Sum (fun p => g (h p)) pts.
Proof. unfold Sum. now rewrite map_map. Qed.

Definition csR (m : nat) (p : ptR) : R * R := cs_pow ROps m (px p) (py p).

(* the monomial terms of one point *)
Definition term (p : ptR) (m a : nat) : R * R :=
  (pz p ^ a * (pw p * fst (csR m p)), pz p ^ a * (pw p * snd (csR m p))).

Lemma pow_row_closed n z t :
  pow_row ROps n z t = map (fun a => (z ^ a * fst t, z ^ a * snd t)) (seq 0 (S n)).
Proof.
  revert t. induction n as [|n IH]; intros t.
  - cbn. destruct t; cbn. f_equal. f_equal; ring.
  - cbn [pow_row]. rewrite IH. change (seq 0 (S (S n))) with (0%nat :: seq 1 (S n)).
    rewrite <- (seq_shift (S n) 0). cbn [map].
    f_equal.
    + destruct t; cbn. f_equal; ring.
    + rewrite map_map. apply map_ext. intros a. cbn [fst snd omul ROps pow]. f_equal; ring.
Qed.

Lemma pt_row_closed n p m :
  pt_row ROps n p (csR m p) = map (term p m) (seq 0 (S n)).
Proof. unfold pt_row. rewrite pow_row_closed. reflexivity. Qed.

Lemma pt_tri_closed n p m0 :
  pt_tri ROps n p (csR m0 p) =
  map (fun m => map (term p m) (seq 0 (S (m0 + n - m)))) (seq m0 (S n)).
Proof.
  revert m0. induction n as [|n IH]; intros m0.
  - cbn [pt_tri seq map]. rewrite pt_row_closed. replace (m0 + 0 - m0)%nat with 0%nat by lia. reflexivity.
  - cbn [pt_tri]. rewrite pt_row_closed.
    change (cs_step ROps (px p) (py p) (csR m0 p)) with (csR (S m0) p). rewrite IH.
    change (seq m0 (S (S n))) with (m0 :: seq (S m0) (S n)). cbn [map]. f_equal.
    + replace (m0 + S n - m0)%nat with (S n) by lia. reflexivity.
    + apply map_ext_in. intros m Hm. apply in_seq in Hm.
      replace (S m0 + n - m)%nat with (m0 + S n - m)%nat by lia. reflexivity.
Qed.

Lemma tri_of_closed d p :
  tri_of ROps d p = map (fun m => map (term p m) (seq 0 (S (d - m)))) (seq 0 (S d)).
Proof. unfold tri_of. change (o1 ROps, o0 ROps) with (csR 0 p). rewrite pt_tri_closed. reflexivity. Qed.

Lemma zip_with_map {I X} (h : X -> X -> X) (g1 g2 : I -> X) (l : list I) :
  zip_with h (map g1 l) (map g2 l) = map (fun i => h (g1 i) (g2 i)) l.
Proof. induction l as [|i l IH]; cbn; [reflexivity|]. now rewrite IH. Qed.

(* a triangle given by a function of (m, a) *)
Definition triF (d : nat) (F : nat -> nat -> R * R) : list (list (R * R)) :=
  map (fun m => map (F m) (seq 0 (S (d - m)))) (seq 0 (S d)).

Lemma tri_add_F d F G :
  tri_add ROps (triF d F) (triF d G) = triF d (fun m a => pair_add ROps (F m a) (G m a)).
Proof.
  unfold tri_add, triF. rewrite zip_with_map. apply map_ext. intros m. now rewrite zip_with_map.
Qed.

Lemma triF_ext d F G : (forall m a, F m a = G m a) -> triF d F = triF d G.
Proof. intros E. unfold triF. apply map_ext. intros m. apply map_ext. intros a. apply E. Qed.

Lemma tri_sum_closed d pts :
  tri_sum ROps d pts =
  triF d (fun m a => (Sum (fun p => fst (term p m a)) pts, Sum (fun p => snd (term p m a)) pts)).
Proof.
  unfold tri_sum.
  assert (H : forall F, fold_left (fun acc q => tri_add ROps acc (tri_of ROps d q)) pts (triF d F) =
                        triF d (fun m a => (fst (F m a) + Sum (fun p => fst (term p m a)) pts,
                                            snd (F m a) + Sum (fun p => snd (term p m a)) pts))).
  { induction pts as [|p r IH]; intros F; cbn [fold_left].
    - apply triF_ext. intros m a. rewrite !Sum_nil. destruct (F m a); cbn. f_equal; ring.
    - rewrite tri_of_closed. change (map (fun m => map (term p m) (seq 0 (S (d - m)))) (seq 0 (S d)))
        with (triF d (term p)).
      rewrite tri_add_F, IH. apply triF_ext. intros m a. rewrite !Sum_cons. cbn. f_equal; ring. }
  change (zero_tri ROps d) with (triF d (fun _ _ => (0, 0))).
  rewrite H. apply triF_ext. intros m a. cbn. f_equal; ring.
Qed.

(* ------------------------------------------------------------------ the recurrence on moment rows *)
Definition uR (n : nat) (m : Z) (r2 : R) (p : ptR) : R * R := u_pair ROps n m (pz p) r2.

(* G c k j = sum_p c(p) z_p^j U_(m+k)(z_p),   Gp: with U_(m+k-1) *)
Definition G (c : ptR -> R) (m : Z) (r2 : R) (pts : list ptR) (k j : nat) : R :=
  Sum (fun p => c p * pz p ^ j * fst (uR k m r2 p)) pts.
Definition Gp (c : ptR -> R) (m : Z) (r2 : R) (pts : list ptR) (k j : nat) : R :=
  Sum (fun p => c p * pz p ^ j * snd (uR k m r2 p)) pts.

Lemma G_step c m r2 pts k j :
  G c m r2 pts (S k) j =
  IZR (2 * (m + Z.of_nat k) + 1) * G c m r2 pts k (S j)
  - IZR ((m + Z.of_nat k + m) * (m + Z.of_nat k - m)) * r2 * Gp c m r2 pts k j.
Proof.
  unfold G, Gp. rewrite <- Sum_lin. apply Sum_ext. intros p.
  unfold uR. cbn [u_pair fst snd]. unfold u_next. cbn [omul osub oZ ROps pow]. ring.
Qed.

Lemma Gp_step c m r2 pts k j : Gp c m r2 pts (S k) j = G c m r2 pts k j.
Proof. reflexivity. Qed.

Lemma zip_with_map_seq {X} (h : X -> X -> X) (g1 g2 : nat -> X) s a b : (a <= b)%nat ->
  zip_with h (map g1 (seq s a)) (map g2 (seq s b)) = map (fun i => h (g1 i) (g2 i)) (seq s a).
Proof.
  revert s b. induction a as [|a IH]; intros s b Hab; [reflexivity|].
  destruct b as [|b]; [lia|]. cbn. f_equal. apply IH. lia.
Qed.

Lemma map_seq0_S {X} (g : nat -> X) n : map g (seq 0 (S n)) = g 0%nat :: map (fun x => g (S x)) (seq 0 n).
Proof. cbn [seq map]. rewrite <- seq_shift, map_map. reflexivity. Qed.

Lemma g_heads_closed c m r2 pts : forall n k,
  g_heads ROps n (m + Z.of_nat k) m r2
          (map (G c m r2 pts k) (seq 0 (S n))) (map (Gp c m r2 pts k) (seq 0 (S (S n)))) =
  map (fun i => G c m r2 pts (k + i) 0) (seq 0 (S n)).
Proof.
  induction n as [|n IH]; intros k.
  - cbn. now rewrite Nat.add_0_r.
  - cbn [g_heads]. rewrite (map_seq0_S (G c m r2 pts k) (S n)). cbn [hd tl].
    rewrite (map_seq0_S (fun i => G c m r2 pts (k + i) 0) (S n)). rewrite Nat.add_0_r. f_equal.
    assert (E : g_next ROps (m + Z.of_nat k) m r2 (map (fun x => G c m r2 pts k (S x)) (seq 0 (S n)))
                       (map (Gp c m r2 pts k) (seq 0 (S (S (S n))))) =
                map (G c m r2 pts (S k)) (seq 0 (S n))).
    { unfold g_next. rewrite zip_with_map_seq by lia. apply map_ext. intros j.
      rewrite G_step. cbn [omul osub oZ ROps]. ring. }
    rewrite E.
    assert (E2 : G c m r2 pts k 0 :: map (fun x => G c m r2 pts k (S x)) (seq 0 (S n)) =
                 map (Gp c m r2 pts (S k)) (seq 0 (S (S n)))).
    { rewrite (map_seq0_S (Gp c m r2 pts (S k)) (S n)). reflexivity. }
    rewrite E2.
    replace (m + Z.of_nat k + 1)%Z with (m + Z.of_nat (S k))%Z by lia.
    rewrite IH. apply map_ext. intros i. f_equal. lia.
Qed.

(* ------------------------------------------------------------------ the quantities the checker tests *)
Definition pick (neg : bool) (t : R * R) : R := if neg then snd t else fst t.

(* sum_p  w_p (C_m|S_m)(x_p,y_p) U_l^m(z_p, r2) *)
Definition SlmR (r2 : R) (pts : list ptR) (l m : nat) (neg : bool) : R :=
  Sum (fun p => pw p * pick neg (csR m p) * fst (uR (l - m) (Z.of_nat m) r2 p)) pts.

Lemma repeat_map_seq {X} (x : X) n : repeat x n = map (fun _ => x) (seq 0 n).
Proof.
  induction n as [|n IH]; [reflexivity|]. cbn [repeat]. rewrite IH.
  cbn [seq map]. rewrite <- seq_shift, map_map. reflexivity.
Qed.

Lemma combine_map_same {I X Y} (g1 : I -> X) (g2 : I -> Y) l :
  combine (map g1 l) (map g2 l) = map (fun i => (g1 i, g2 i)) l.
Proof. induction l as [|i l IH]; cbn; [reflexivity|]. now rewrite IH. Qed.

Lemma g_heads_closed0 c m r2 pts n :
  g_heads ROps n m m r2 (map (G c m r2 pts 0) (seq 0 (S n))) (map (fun _ => 0) (seq 0 (S (S n)))) =
  map (fun i => G c m r2 pts i 0) (seq 0 (S n)).
Proof.
  pose proof (g_heads_closed c m r2 pts n 0) as H. cbn [Z.of_nat Nat.add] in H. rewrite Z.add_0_r in H.
  rewrite (map_ext (fun _ => 0) (Gp c m r2 pts 0)); [exact H|].
  intros j. unfold Gp. rewrite <- (Sum_zero pts). apply Sum_ext. intros p. unfold uR. cbn. ring.
Qed.

Lemma s_row_closed m r2 pts n :
  s_row ROps m r2
    (map (fun a => (Sum (fun p => fst (term p m a)) pts, Sum (fun p => snd (term p m a)) pts)) (seq 0 (S n))) =
  map (fun i => (SlmR r2 pts (m + i) m false, SlmR r2 pts (m + i) m true)) (seq 0 (S n)).
Proof.
  unfold s_row. rewrite map_length, seq_length. cbn [pred]. rewrite !map_map. cbn [fst snd].
  set (cC := fun p : ptR => pw p * fst (csR m p)). set (cS := fun p : ptR => pw p * snd (csR m p)).
  assert (EC : forall a, Sum (fun p => fst (term p m a)) pts = G cC (Z.of_nat m) r2 pts 0 a).
  { intros a. apply Sum_ext. intros p. unfold term, cC, uR. cbn. ring. }
  assert (ES : forall a, Sum (fun p => snd (term p m a)) pts = G cS (Z.of_nat m) r2 pts 0 a).
  { intros a. apply Sum_ext. intros p. unfold term, cS, uR. cbn. ring. }
  rewrite (map_ext _ _ EC), (map_ext _ _ ES). cbn [o0 ROps].
  rewrite repeat_map_seq, !g_heads_closed0.
  rewrite combine_map_same. apply map_ext. intros i. cbn [Nat.add].
  unfold G, SlmR, pick, cC, cS. replace (m + i - m)%nat with i by lia.
  f_equal; apply Sum_ext; intros p; cbn [pow]; ring.
Qed.

Lemma s_tri_closed r2 (rowF : nat -> list (R * R)) : forall k m0,
  s_tri ROps m0 r2 (map rowF (seq m0 k)) = map (fun m => s_row ROps m r2 (rowF m)) (seq m0 k).
Proof.
  induction k as [|k IH]; intros m0; [reflexivity|]. cbn [seq map s_tri]. now rewrite IH.
Qed.

Theorem s_tri_sum_closed d r2 pts :
  s_tri ROps 0 r2 (tri_sum ROps d pts) =
  map (fun m => map (fun i => (SlmR r2 pts (m + i) m false, SlmR r2 pts (m + i) m true)) (seq 0 (S (d - m))))
      (seq 0 (S d)).
Proof.
  rewrite tri_sum_closed. unfold triF. rewrite s_tri_closed. apply map_ext. intros m.
  apply s_row_closed.
Qed.

Lemma nth_error_map_seq {X} (g : nat -> X) n i : (i < n)%nat -> nth_error (map g (seq 0 n)) i = Some (g i).
Proof.
  intros H. rewrite nth_error_map. rewrite (nth_error_nth' _ 0%nat) by (now rewrite seq_length).
  rewrite seq_nth by exact H. reflexivity.
Qed.
