(* C02 property theorems (statements only; proofs are in C02_legendre.v / C02_proofs.v).
   The per-grid theorems  grid_exact_<method>_<degree> : grid_ok ... = true  are generated from the data
   directory on every run (C02_g*.v), and the generated file C02_cover_props.v instantiates
   grid_ok_sound on exactly the grids that were checked. *)
From Coq Require Import Reals ZArith List.
From Bignums Require Import BigZ.
From Coquelicot Require Import Coquelicot.
From P Require Import C02_model C02_legendre C02_morph C02_sums C02_proofs.
Import ListNotations.
Open Scope R_scope.

(* Legendre l is the Legendre polynomial (Bonnet's recurrence) *)
Theorem legendre_def : forall z,
  Legendre 0 z = 1 /\ Legendre 1 z = z /\
  forall l, INR (S (S l)) * Legendre (S (S l)) z = (2 * INR (S l) + 1) * z * Legendre (S l) z - INR (S l) * Legendre l z.
Proof. exact legendre_def_lemma. Qed.
Print Assumptions legendre_def.

(* On the unit sphere the Cartesian polynomial Ylm is the real spherical harmonic in its textbook form
   N_lm sin^|m|(theta) d^|m|P_l/dz^|m|(cos theta) {cos,sin}(|m| phi), for every l and m. *)
Theorem Ylm_is_spherical_harmonic : forall l m theta phi0,
  Ylm l m (sin theta * cos phi0) (sin theta * sin phi0) (cos theta) =
  sqrt ((2 * INR l + 1) / (4 * PI) * (INR (fact (l - Z.abs_nat m)) / INR (fact (l + Z.abs_nat m)))) *
  (if Nat.eqb (Z.abs_nat m) 0 then 1 else sqrt 2) *
  (sin theta ^ Z.abs_nat m * Derive_n (Legendre l) (Z.abs_nat m) (cos theta)) *
  (if (m <? 0)%Z then sin (INR (Z.abs_nat m) * phi0) else cos (INR (Z.abs_nat m) * phi0)).
Proof. exact Ylm_angular. Qed.
Print Assumptions Ylm_is_spherical_harmonic.

(* The division-free integer recurrence of the checker computes the derivatives of the Legendre
   polynomials, for every order m and every degree l = m + n:
   (l-m)! d^m P_l/dz^m = (2m-1)!! U_l^m . *)
Theorem integer_recurrence_correct : forall n m z,
  INR (fact n) * Derive_n (Legendre (m + n)) m z = dfact_odd m * fst (u_pair ROps n (Z.of_nat m) z 1).
Proof. exact integer_recurrence_lemma. Qed.
Print Assumptions integer_recurrence_correct.

(* Soundness of the exact checker: if grid_ok evaluates to true on the stored integers then the grid
   (points X/2^s as stored; weights as AngularGrid normalises them) satisfies the property over R:
   size n, points within 1e-13 of the unit sphere, weights summing to 4 pi within 1e-9, and
   | sum_i w_i Y_lm(p_i) - sqrt(4 pi) delta_l0 | <= 1e-9 for every l <= d and |m| <= l. *)
Theorem grid_ok_sound : forall mode d n s sw ps ws,
  grid_ok mode d n s sw ps ws = true ->
  length (real_pts s ps) = n /\ length (real_wts mode sw n ws) = n /\
  List.Forall (fun p => let x := fst (fst p) in let y := snd (fst p) in let z := snd p in
                        Rabs (x * x + y * y + z * z - 1) <= / 10 ^ 13) (real_pts s ps) /\
  Rabs (sumR (real_wts mode sw n ws) - 4 * PI) <= / 10 ^ 9 /\
  forall (l : nat) (m : Z), (l <= d)%nat -> (- Z.of_nat l <= m <= Z.of_nat l)%Z ->
    Rabs (quad (Ylm l m) (real_pts s ps) (real_wts mode sw n ws) - (if Nat.eqb l 0 then sqrt (4 * PI) else 0))
    <= / 10 ^ 9.
Proof. exact grid_ok_sound_lemma. Qed.
Print Assumptions grid_ok_sound.

(* Soundness of the refutation checkers: a kernel-computed witness that a file violates the property *)
Theorem grid_bad_lm_sound : forall mode n s sw l m neg ps ws,
  grid_bad_lm mode n s sw l m neg ps ws = true ->
  (1 <= l)%nat /\ (- Z.of_nat l <= signed m neg <= Z.of_nat l)%Z /\
  / 10 ^ 9 < Rabs (quad (Ylm l (signed m neg)) (real_pts s ps) (real_wts mode sw n ws) - (if Nat.eqb l 0 then sqrt (4 * PI) else 0)).
Proof. exact grid_bad_lm_sound_lemma. Qed.
Print Assumptions grid_bad_lm_sound.

Theorem grid_bad_wsum_sound : forall mode n sw ps ws,
  grid_bad_wsum mode n sw ps ws = true ->
  / 10 ^ 9 < Rabs (sumR (real_wts mode sw n ws) - 4 * PI).
Proof. exact grid_bad_wsum_sound_lemma. Qed.
Print Assumptions grid_bad_wsum_sound.

(* Ylm at a rational point in closed form (sqrt of a rational multiple of 1/pi times a rational): used by the
   harness to compare Ylm with the library's own real spherical harmonics by the interval tactic *)
Theorem Ylm_rational : forall l m neg X Y Zc D, (m <= l)%nat -> (neg = true -> (1 <= m)%nat) -> (0 < D)%Z ->
  Ylm l (signed m neg) (IZR X / IZR D) (IZR Y / IZR D) (IZR Zc / IZR D) =
  sqrt (IZR (kappa_num l m) / (IZR (kappa_den l m) * PI)) * (IZR (Hz l m neg X Y Zc D) / IZR D ^ l).
Proof. exact Ylm_rational_lemma. Qed.
Print Assumptions Ylm_rational.

(* non-vacuity: the two-point design (0,0,±1) with one stored weight 1/2 (broadcast, times 4 pi) is
   accepted for degree 1 and rejected at (l,m) = (2,0) *)
Theorem example_two_point_design :
  grid_ok Times4Pi 1 2 0 1 ((0%bigZ, 0%bigZ, 1%bigZ) :: (0%bigZ, 0%bigZ, (-1)%bigZ) :: nil) (1%bigZ :: nil) = true /\
  grid_bad_lm Times4Pi 2 0 1 2 0 false ((0%bigZ, 0%bigZ, 1%bigZ) :: (0%bigZ, 0%bigZ, (-1)%bigZ) :: nil) (1%bigZ :: nil) = true.
Proof. exact example_two_point_lemma. Qed.
Print Assumptions example_two_point_design.
