(* C02 — soundness of the exact checker [grid_ok] of C02_model.v:
   grid_ok = true  implies the real-number statement of the property for that grid
   (points on the unit sphere to 1e-13, every real spherical harmonic of degree <= d integrated to
   sqrt(4 pi) delta_l0 within 1e-9, weights summing to 4 pi within 1e-9). *)
From Coq Require Import Reals ZArith List Bool Lia Lra.
From Bignums Require Import BigZ.
From Coquelicot Require Import Coquelicot.
From Interval Require Import Tactic.
From P Require Import C02_model C02_legendre C02_morph C02_sums.
Import ListNotations.
Open Scope R_scope.

(* ================================================================== bigZ -> Z -> R *)
Definition phi (b : bigZ) : R := IZR (BigZ.to_Z b).

Lemma phi_0 : phi (o0 BOps) = o0 ROps.
Proof. reflexivity. Qed.
Lemma phi_1 : phi (o1 BOps) = o1 ROps.
Proof. reflexivity. Qed.
Lemma phi_add x y : phi (oadd BOps x y) = oadd ROps (phi x) (phi y).
Proof. unfold phi; cbn. now rewrite BigZ.spec_add, plus_IZR. Qed.
Lemma phi_sub x y : phi (osub BOps x y) = osub ROps (phi x) (phi y).
Proof. unfold phi; cbn. now rewrite BigZ.spec_sub, minus_IZR. Qed.
Lemma phi_mul x y : phi (omul BOps x y) = omul ROps (phi x) (phi y).
Proof. unfold phi; cbn. now rewrite BigZ.spec_mul, mult_IZR. Qed.
Lemma phi_Z z : phi (oZ BOps z) = oZ ROps z.
Proof. unfold phi; cbn. now rewrite BigZ.spec_of_Z. Qed.

Ltac to_Z H :=
  unfold bz, bpow2 in H;
  repeat first [ rewrite BigZ.spec_mul in H | rewrite BigZ.spec_add in H | rewrite BigZ.spec_sub in H
               | rewrite BigZ.spec_abs in H | rewrite BigZ.spec_pow in H | rewrite BigZ.spec_of_Z in H ].

Lemma lm_ok_Z mode s sw l m St : lm_ok mode s sw l m St = true ->
  let S := BigZ.to_Z St in
  let sc := (2 ^ (2 * (s * Z.of_nat l + sw)))%Z in
  let lhs := (kappa_num l m * (S * S) * tol_int_inv * tol_int_inv)%Z in
  let rhs := (kappa_den l m * sc)%Z in
  match mode with
  | Times4Pi => (16 * lhs * pi_hi_num <= rhs * pi_den)%Z
  | AsStored => (lhs * pi_den <= rhs * pi_lo_num)%Z
  end.
Proof.
  unfold lm_ok. destruct mode; rewrite BigZ.spec_leb; intros H; apply Z.leb_le in H; to_Z H; exact H.
Qed.

Lemma lm_bad_Z mode s sw l m St : lm_bad mode s sw l m St = true ->
  let S := BigZ.to_Z St in
  let sc := (2 ^ (2 * (s * Z.of_nat l + sw)))%Z in
  let lhs := (kappa_num l m * (S * S) * tol_int_inv * tol_int_inv)%Z in
  let rhs := (kappa_den l m * sc)%Z in
  match mode with
  | Times4Pi => (rhs * pi_den < 16 * lhs * pi_lo_num)%Z
  | AsStored => (rhs * pi_hi_num < lhs * pi_den)%Z
  end.
Proof.
  unfold lm_bad. destruct mode; rewrite BigZ.spec_ltb; intros H; apply Z.ltb_lt in H; to_Z H; exact H.
Qed.

Lemma wsum_ok_Z mode sw Sw : wsum_ok mode sw Sw = true ->
  let S := BigZ.to_Z Sw in
  let one := (2 ^ sw)%Z in
  match mode with
  | Times4Pi => (4 * pi_hi_num * Z.abs (S - one) * tol_int_inv <= one * pi_den)%Z
  | AsStored => ((S * tol_int_inv - one) * pi_den <= 4 * pi_lo_num * one * tol_int_inv)%Z /\
                (4 * pi_hi_num * one * tol_int_inv <= (S * tol_int_inv + one) * pi_den)%Z
  end.
Proof.
  unfold wsum_ok. destruct mode.
  - rewrite BigZ.spec_leb; intros H; apply Z.leb_le in H; to_Z H; exact H.
  - rewrite andb_true_iff, !BigZ.spec_leb. intros [H1 H2]. apply Z.leb_le in H1, H2. to_Z H1. to_Z H2. split; assumption.
Qed.

Lemma wsum_bad_Z mode sw Sw : wsum_bad mode sw Sw = true ->
  let S := BigZ.to_Z Sw in
  let one := (2 ^ sw)%Z in
  match mode with
  | Times4Pi => (one * pi_den < 4 * pi_lo_num * Z.abs (S - one) * tol_int_inv)%Z
  | AsStored => (4 * pi_hi_num * one * tol_int_inv < (S * tol_int_inv - one) * pi_den)%Z \/
                ((S * tol_int_inv + one) * pi_den < 4 * pi_lo_num * one * tol_int_inv)%Z
  end.
Proof.
  unfold wsum_bad. destruct mode.
  - rewrite BigZ.spec_ltb; intros H; apply Z.ltb_lt in H; to_Z H; exact H.
  - rewrite orb_true_iff, !BigZ.spec_ltb. intros [H|H]; apply Z.ltb_lt in H; to_Z H; [left|right]; exact H.
Qed.

Lemma on_sphere_ok_Z s p : on_sphere_ok s p = true ->
  let X := BigZ.to_Z (px p) in let Y := BigZ.to_Z (py p) in let Z := BigZ.to_Z (pz p) in
  (Z.abs (X * X + Y * Y + Z * Z - 2 ^ (2 * s)) * tol_sphere_inv <= 2 ^ (2 * s))%Z.
Proof.
  unfold on_sphere_ok. rewrite BigZ.spec_leb. intros H. apply Z.leb_le in H.
  unfold rho in H. cbn [oadd omul BOps] in H. to_Z H. exact H.
Qed.

(* ================================================================== pi *)
Lemma PI_bounds : IZR pi_lo_num / IZR pi_den < PI < IZR pi_hi_num / IZR pi_den.
Proof. unfold pi_lo_num, pi_hi_num, pi_den. split; interval with (i_prec 120). Qed.

Lemma pi_den_pos : 0 < IZR pi_den.
Proof. apply IZR_lt. reflexivity. Qed.

(* ================================================================== homogeneity *)
Lemma cs_hom t x y m :
  cs_pow ROps m (t * x) (t * y) = (t ^ m * fst (cs_pow ROps m x y), t ^ m * snd (cs_pow ROps m x y)).
Proof.
  induction m as [|m IH]; cbn [cs_pow].
  - cbn. f_equal; ring.
  - rewrite IH. unfold cs_step. cbn [fst snd omul oadd osub ROps pow]. f_equal; ring.
Qed.

Lemma u_hom t z r2 m n :
  fst (u_pair ROps n m (t * z) (t * t * r2)) = t ^ n * fst (u_pair ROps n m z r2) /\
  t * snd (u_pair ROps n m (t * z) (t * t * r2)) = t ^ n * snd (u_pair ROps n m z r2).
Proof.
  induction n as [|n [IH1 IH2]]; cbn [u_pair fst snd].
  - cbn. split; ring.
  - split.
    + unfold u_next. cbn [omul osub oZ ROps pow]. rewrite IH1.
      replace (IZR ((m + Z.of_nat n + m) * (m + Z.of_nat n - m)) * (t * t * r2) * snd (u_pair ROps n m (t * z) (t * t * r2)))
        with (IZR ((m + Z.of_nat n + m) * (m + Z.of_nat n - m)) * t * r2 * (t * snd (u_pair ROps n m (t * z) (t * t * r2)))) by ring.
      rewrite IH2. ring.
    + rewrite IH1. cbn [pow]. ring.
Qed.

(* ================================================================== link with the Legendre file *)
Lemma u_pair_Uq n m z : u_pair ROps n (Z.of_nat m) z 1 = Uq n m z.
Proof.
  induction n as [|n IH]; [reflexivity|].
  cbn [u_pair Uq]. rewrite IH. f_equal.
  unfold u_next. cbn [omul osub oZ ROps].
  rewrite !mult_IZR, !plus_IZR, !minus_IZR, !plus_IZR, mult_IZR, plus_IZR, <- !INR_IZR_INZ, plus_INR.
  ring.
Qed.

Lemma IZR_zfact n : IZR (zfact n) = INR (fact n).
Proof.
  induction n as [|n IH]; [reflexivity|].
  change (zfact (S n)) with (Z.of_nat (S n) * zfact n)%Z. change (fact (S n)) with (S n * fact n)%nat.
  rewrite mult_IZR, mult_INR, IH, <- INR_IZR_INZ. reflexivity.
Qed.

Lemma IZR_zdfact m : IZR (zdfact_odd m) = dfact_odd m.
Proof.
  induction m as [|m IH]; [reflexivity|].
  change (zdfact_odd (S m)) with ((2 * Z.of_nat (S m) - 1) * zdfact_odd m)%Z.
  cbn [dfact_odd]. rewrite mult_IZR, minus_IZR, mult_IZR, IH, <- INR_IZR_INZ, S_INR. ring.
Qed.

Lemma dfact_odd_pos m : 0 < dfact_odd m.
Proof.
  induction m as [|m IH]; cbn [dfact_odd]; [lra|]. pose proof (pos_INR m). nra.
Qed.

Lemma fact_pos n : 0 < INR (fact n).
Proof. apply lt_0_INR. apply lt_O_fact. Qed.

(* ================================================================== real spherical harmonics, Cartesian form *)
(* N_lm = sqrt( (2l+1)/(4 pi) (l-m)!/(l+m)! ) * (sqrt 2 if m > 0) *)
Definition Nlm (l m : nat) : R :=
  sqrt ((2 * INR l + 1) / (4 * PI) * (INR (fact (l - m)) / INR (fact (l + m)))) *
  (if Nat.eqb m 0 then 1 else sqrt 2).

(* Y_(l,m)(x,y,z) = N_(l,|m|) (C_|m|(x,y) if m >= 0, S_|m|(x,y) if m < 0) d^|m|P_l/dz^|m| (z)
   with C_m + i S_m = (x + i y)^m.  On the unit sphere this is the real spherical harmonic
   (Ylm_angular below); no Condon-Shortley phase, as in grid.utils.generate_real_spherical_harmonics. *)
Definition Ylm (l : nat) (m : Z) (x y z : R) : R :=
  Nlm l (Z.abs_nat m) * pick (m <? 0)%Z (cs_pow ROps (Z.abs_nat m) x y) * LQ l (Z.abs_nat m) z.

Lemma cs_polar r phi0 m :
  cs_pow ROps m (r * cos phi0) (r * sin phi0) = (r ^ m * cos (INR m * phi0), r ^ m * sin (INR m * phi0)).
Proof.
  induction m as [|m IH]; cbn [cs_pow].
  - change (INR 0) with 0. rewrite Rmult_0_l, cos_0, sin_0. cbn. f_equal; ring.
  - rewrite IH. unfold cs_step. cbn [fst snd omul oadd osub ROps pow]. rewrite S_INR.
    replace ((INR m + 1) * phi0) with (INR m * phi0 + phi0) by ring. rewrite cos_plus, sin_plus.
    f_equal; ring.
Qed.

(* the textbook (angular) form: theta polar angle, phi0 azimuth *)
Theorem Ylm_angular l m theta phi0 :
  Ylm l m (sin theta * cos phi0) (sin theta * sin phi0) (cos theta) =
  Nlm l (Z.abs_nat m) * (sin theta ^ Z.abs_nat m * Derive_n (Legendre l) (Z.abs_nat m) (cos theta)) *
  (if (m <? 0)%Z then sin (INR (Z.abs_nat m) * phi0) else cos (INR (Z.abs_nat m) * phi0)).
Proof.
  unfold Ylm. rewrite cs_polar, LQ_Derive_n. unfold pick. destruct (m <? 0)%Z; cbn [fst snd]; ring.
Qed.

(* normalisation constant of the integer harmonics:  Y_lm = cnorm * (C|S)_m * U_l^m *)
Definition cnorm (l m : nat) : R := Nlm l m * dfact_odd m / INR (fact (l - m)).

Lemma Nlm_nonneg l m : 0 <= Nlm l m.
Proof.
  unfold Nlm. apply Rmult_le_pos; [apply sqrt_pos|]. destruct (Nat.eqb m 0); [lra|apply sqrt_pos].
Qed.

Lemma cnorm_nonneg l m : 0 <= cnorm l m.
Proof.
  unfold cnorm. apply Rmult_le_pos; [apply Rmult_le_pos; [apply Nlm_nonneg|left; apply dfact_odd_pos]|].
  left. apply Rinv_0_lt_compat. apply fact_pos.
Qed.

Lemma cnorm_sq l m : cnorm l m * cnorm l m = IZR (kappa_num l m) / (IZR (kappa_den l m) * PI).
Proof.
  unfold cnorm, Nlm, kappa_num, kappa_den.
  rewrite !mult_IZR, plus_IZR, mult_IZR, !IZR_zfact, !IZR_zdfact, <- INR_IZR_INZ.
  pose proof (fact_pos (l - m)) as F1. pose proof (fact_pos (l + m)) as F2. pose proof PI_RGT_0 as P.
  pose proof (pos_INR l) as Hl.
  set (A := (2 * INR l + 1) / (4 * PI) * (INR (fact (l - m)) / INR (fact (l + m)))).
  assert (HA : 0 <= A).
  { unfold A. apply Rmult_le_pos; [|left; apply Rdiv_lt_0_compat; assumption].
    left. apply Rdiv_lt_0_compat; lra. }
  set (e := if Nat.eqb m 0 then 1 else sqrt 2).
  assert (He : e * e = IZR (if Nat.eqb m 0 then 1 else 2)).
  { unfold e. destruct (Nat.eqb m 0); [ring|]. apply sqrt_sqrt. lra. }
  replace (sqrt A * e * dfact_odd m / INR (fact (l - m)) * (sqrt A * e * dfact_odd m / INR (fact (l - m))))
    with ((sqrt A * sqrt A) * (e * e) * (dfact_odd m * dfact_odd m) / (INR (fact (l - m)) * INR (fact (l - m))))
    by (field; lra).
  rewrite sqrt_sqrt by exact HA. rewrite He. unfold A. field. repeat split; lra.
Qed.

(* ================================================================== tolerances, scales *)
Definition tol_int : R := / 10 ^ 9.         (* 1e-9 : integrals *)
Definition tol_sphere : R := / 10 ^ 13.     (* 1e-13: | |p|^2 - 1 | *)

Lemma IZR_tol_int : IZR tol_int_inv = 10 ^ 9.
Proof. unfold tol_int_inv. change 9%Z with (Z.of_nat 9). rewrite <- pow_IZR. reflexivity. Qed.
Lemma IZR_tol_sphere : IZR tol_sphere_inv = 10 ^ 13.
Proof. unfold tol_sphere_inv. change 13%Z with (Z.of_nat 13). rewrite <- pow_IZR. reflexivity. Qed.

Definition tsc (s : Z) : R := IZR (2 ^ s).

Lemma tsc_pos s : (0 <= s)%Z -> 0 < tsc s.
Proof. intros H. apply IZR_lt. apply Z.pow_pos_nonneg; lia. Qed.

Lemma tsc_double s : (0 <= s)%Z -> IZR (2 ^ (2 * s)) = tsc s * tsc s.
Proof.
  intros H. unfold tsc. rewrite <- mult_IZR. f_equal.
  replace (2 * s)%Z with (s + s)%Z by lia. now rewrite Z.pow_add_r.
Qed.

Lemma tsc_lm s sw l : (0 <= s)%Z -> (0 <= sw)%Z ->
  IZR (2 ^ (2 * (s * Z.of_nat l + sw))) = (tsc sw * tsc s ^ l) * (tsc sw * tsc s ^ l).
Proof.
  intros Hs Hw. rewrite tsc_double by nia. f_equal; unfold tsc; rewrite pow_IZR, <- mult_IZR; f_equal;
    rewrite Z.pow_add_r by nia; rewrite Z.pow_mul_r by lia; ring.
Qed.

Definition nf (mode : norm_mode) : R := match mode with Times4Pi => 4 * PI | AsStored => 1 end.

Lemma kappa_den_pos l m : 0 < IZR (kappa_den l m).
Proof.
  unfold kappa_den. rewrite !mult_IZR, !IZR_zfact.
  pose proof (fact_pos (l + m)). pose proof (fact_pos (l - m)). nra.
Qed.

Lemma kappa_num_nonneg l m : 0 <= IZR (kappa_num l m).
Proof.
  unfold kappa_num. rewrite !mult_IZR, plus_IZR, mult_IZR, IZR_zdfact, <- INR_IZR_INZ.
  pose proof (dfact_odd_pos m). pose proof (pos_INR l).
  assert (0 < IZR (if Nat.eqb m 0 then 1 else 2)) by (destruct (Nat.eqb m 0); lra).
  apply Rmult_le_pos; [apply Rmult_le_pos; [apply Rmult_le_pos|]|]; nra.
Qed.

Lemma Rabs_le_of_sq x y : 0 <= y -> x * x <= y * y -> Rabs x <= y.
Proof.
  intros Hy H. rewrite <- (Rabs_pos_eq y Hy). apply Rsqr_le_abs_0. exact H.
Qed.

Lemma lm_ok_R mode s sw l m St S :
  (0 <= s)%Z -> (0 <= sw)%Z -> lm_ok mode s sw l m St = true ->
  phi St = tsc sw * tsc s ^ l * S ->
  Rabs (nf mode * (cnorm l m * S)) <= tol_int.
Proof.
  intros Hs Hw Hok HS. apply lm_ok_Z in Hok. cbv zeta in Hok.
  pose proof (tsc_pos s Hs) as Ts. pose proof (tsc_pos sw Hw) as Tw.
  set (T := tsc sw * tsc s ^ l) in *.
  assert (HT : 0 < T) by (unfold T; apply Rmult_lt_0_compat; [exact Tw|apply pow_lt; exact Ts]).
  pose proof (kappa_den_pos l m) as Kd. pose proof (kappa_num_nonneg l m) as Kn.
  pose proof PI_bounds as [Plo Phi]. pose proof pi_den_pos as Pd. pose proof PI_RGT_0 as Ppos.
  assert (E9 : 0 < 10 ^ 9) by (apply pow_lt; lra).
  apply Rabs_le_of_sq; [unfold tol_int; left; apply Rinv_0_lt_compat; exact E9|].
  replace (nf mode * (cnorm l m * S) * (nf mode * (cnorm l m * S)))
    with (nf mode * nf mode * (cnorm l m * cnorm l m) * (S * S)) by ring.
  rewrite cnorm_sq. unfold tol_int.
  set (kn := IZR (kappa_num l m)) in *. set (kd := IZR (kappa_den l m)) in *.
  assert (HSS : 0 <= S * S) by nra.
  destruct mode; apply IZR_le in Hok;
    rewrite ?mult_IZR, tsc_lm, IZR_tol_int in Hok by assumption;
    fold T in Hok; fold kn in Hok; fold kd in Hok; fold (phi St) in Hok; rewrite HS in Hok; cbn [nf].
  - (* 16 kn (T S)^2 1e18 pi_hi <= kd T^2 pi_den *)
    assert (H1 : 16 * (kn * (S * S) * 10 ^ 9 * 10 ^ 9) * IZR pi_hi_num <= kd * IZR pi_den).
    { apply Rmult_le_reg_r with (T * T); [nra|]. lra. }
    assert (H2 : 16 * (kn * (S * S) * 10 ^ 9 * 10 ^ 9) * PI <= kd).
    { apply Rmult_le_reg_r with (IZR pi_den); [exact Pd|].
      apply Rle_trans with (16 * (kn * (S * S) * 10 ^ 9 * 10 ^ 9) * IZR pi_hi_num); [|exact H1].
      assert (PI * IZR pi_den <= IZR pi_hi_num).
      { left. apply Rmult_lt_reg_r with (/ IZR pi_den); [apply Rinv_0_lt_compat; exact Pd|].
        rewrite Rmult_assoc, Rinv_r by lra. lra. }
      assert (0 <= kn * (S * S)) by (apply Rmult_le_pos; assumption).
      assert (0 <= 16 * (kn * (S * S) * 10 ^ 9 * 10 ^ 9)) by nra.
      nra. }
    apply Rmult_le_reg_r with (kd * PI * (10 ^ 9 * 10 ^ 9));
      [apply Rmult_lt_0_compat; [apply Rmult_lt_0_compat; lra|apply Rmult_lt_0_compat; exact E9]|].
    replace (4 * PI * (4 * PI) * (kn / (kd * PI)) * (S * S) * (kd * PI * (10 ^ 9 * 10 ^ 9)))
      with (16 * (kn * (S * S) * 10 ^ 9 * 10 ^ 9) * PI * PI) by (field; lra).
    replace (/ 10 ^ 9 * / 10 ^ 9 * (kd * PI * (10 ^ 9 * 10 ^ 9))) with (kd * PI) by (field; lra).
    apply Rmult_le_compat_r; lra.
  - (* kn (T S)^2 1e18 pi_den <= kd T^2 pi_lo *)
    assert (H1 : kn * (S * S) * 10 ^ 9 * 10 ^ 9 * IZR pi_den <= kd * IZR pi_lo_num).
    { apply Rmult_le_reg_r with (T * T); [nra|]. lra. }
    assert (H2 : kn * (S * S) * 10 ^ 9 * 10 ^ 9 <= kd * PI).
    { apply Rmult_le_reg_r with (IZR pi_den); [exact Pd|].
      apply Rle_trans with (kd * IZR pi_lo_num); [exact H1|].
      assert (IZR pi_lo_num <= PI * IZR pi_den).
      { left. apply Rmult_lt_reg_r with (/ IZR pi_den); [apply Rinv_0_lt_compat; exact Pd|].
        rewrite (Rmult_assoc PI), Rinv_r by lra. lra. }
      nra. }
    apply Rmult_le_reg_r with (kd * PI * (10 ^ 9 * 10 ^ 9));
      [apply Rmult_lt_0_compat; [apply Rmult_lt_0_compat; lra|apply Rmult_lt_0_compat; exact E9]|].
    replace (1 * 1 * (kn / (kd * PI)) * (S * S) * (kd * PI * (10 ^ 9 * 10 ^ 9)))
      with (kn * (S * S) * 10 ^ 9 * 10 ^ 9) by (field; lra).
    replace (/ 10 ^ 9 * / 10 ^ 9 * (kd * PI * (10 ^ 9 * 10 ^ 9))) with (kd * PI) by (field; lra).
    exact H2.
Qed.

Lemma pi_hi_gt : PI * IZR pi_den < IZR pi_hi_num.
Proof.
  pose proof PI_bounds as [_ Phi]. pose proof pi_den_pos as Pd.
  apply Rmult_lt_reg_r with (/ IZR pi_den); [apply Rinv_0_lt_compat; exact Pd|].
  rewrite Rmult_assoc, Rinv_r by lra. lra.
Qed.
Lemma pi_lo_lt : IZR pi_lo_num < PI * IZR pi_den.
Proof.
  pose proof PI_bounds as [Plo _]. pose proof pi_den_pos as Pd.
  apply Rmult_lt_reg_r with (/ IZR pi_den); [apply Rinv_0_lt_compat; exact Pd|].
  rewrite (Rmult_assoc PI), Rinv_r by lra. lra.
Qed.

Lemma wsum_ok_R mode sw Sw : (0 <= sw)%Z -> wsum_ok mode sw Sw = true ->
  Rabs (nf mode * (phi Sw / tsc sw) - 4 * PI) <= tol_int.
Proof.
  intros Hw Hok. apply wsum_ok_Z in Hok. cbv zeta in Hok.
  pose proof (tsc_pos sw Hw) as Tw. pose proof pi_den_pos as Pd. pose proof PI_RGT_0 as Ppos.
  pose proof pi_hi_gt as Phi. pose proof pi_lo_lt as Plo.
  assert (E9 : 0 < 10 ^ 9) by (apply pow_lt; lra).
  set (x := phi Sw / tsc sw). assert (Hx : phi Sw = x * tsc sw) by (unfold x; field; lra).
  unfold tol_int. destruct mode; cbn [nf].
  - apply IZR_le in Hok. rewrite !mult_IZR, abs_IZR, minus_IZR, IZR_tol_int in Hok.
    fold (phi Sw) in Hok. fold (tsc sw) in Hok. rewrite Hx in Hok.
    replace (x * tsc sw - tsc sw) with ((x - 1) * tsc sw) in Hok by ring.
    rewrite Rabs_mult, (Rabs_pos_eq (tsc sw)) in Hok by lra.
    replace (4 * PI * x - 4 * PI) with (4 * PI * (x - 1)) by ring.
    rewrite Rabs_mult, (Rabs_pos_eq (4 * PI)) by lra.
    pose proof (Rabs_pos (x - 1)) as Ha. set (a := Rabs (x - 1)) in *.
    assert (H1 : 4 * IZR pi_hi_num * a * 10 ^ 9 <= IZR pi_den).
    { apply Rmult_le_reg_r with (tsc sw); [exact Tw|]. lra. }
    apply Rmult_le_reg_r with (10 ^ 9 * IZR pi_den); [apply Rmult_lt_0_compat; lra|].
    replace (/ 10 ^ 9 * (10 ^ 9 * IZR pi_den)) with (IZR pi_den) by (field; lra).
    apply Rle_trans with (4 * IZR pi_hi_num * a * 10 ^ 9); [|exact H1]. nra.
  - destruct Hok as [H1 H2]. apply IZR_le in H1, H2.
    rewrite !mult_IZR in H1, H2. rewrite minus_IZR in H1. rewrite plus_IZR in H2.
    rewrite !mult_IZR, IZR_tol_int in H1, H2.
    fold (phi Sw) in H1, H2. fold (tsc sw) in H1, H2. rewrite Hx in H1, H2.
    assert (G1 : (x * 10 ^ 9 - 1) * IZR pi_den <= 4 * IZR pi_lo_num * 10 ^ 9).
    { apply Rmult_le_reg_r with (tsc sw); [exact Tw|]. lra. }
    assert (G2 : 4 * IZR pi_hi_num * 10 ^ 9 <= (x * 10 ^ 9 + 1) * IZR pi_den).
    { apply Rmult_le_reg_r with (tsc sw); [exact Tw|]. lra. }
    assert (G1' : (x * 10 ^ 9 - 1) <= 4 * PI * 10 ^ 9).
    { apply Rmult_le_reg_r with (IZR pi_den); [exact Pd|]. nra. }
    assert (G2' : 4 * PI * 10 ^ 9 <= x * 10 ^ 9 + 1).
    { apply Rmult_le_reg_r with (IZR pi_den); [exact Pd|]. nra. }
    replace (1 * x) with x by ring.
    apply Rabs_le. split.
    + apply Rmult_le_reg_r with (10 ^ 9); [exact E9|].
      replace (- / 10 ^ 9 * 10 ^ 9) with (-1) by (field; lra). lra.
    + apply Rmult_le_reg_r with (10 ^ 9); [exact E9|].
      replace (/ 10 ^ 9 * 10 ^ 9) with 1 by (field; lra). lra.
Qed.

Lemma on_sphere_ok_R s p : (0 <= s)%Z -> on_sphere_ok s p = true ->
  let x := phi (px p) / tsc s in let y := phi (py p) / tsc s in let z := phi (pz p) / tsc s in
  Rabs (x * x + y * y + z * z - 1) <= tol_sphere.
Proof.
  intros Hs Hok. apply on_sphere_ok_Z in Hok. cbv zeta in Hok. cbv zeta.
  pose proof (tsc_pos s Hs) as Ts.
  apply IZR_le in Hok. rewrite mult_IZR, abs_IZR, minus_IZR, !plus_IZR, !mult_IZR, IZR_tol_sphere, tsc_double in Hok by exact Hs.
  fold (phi (px p)) in Hok. fold (phi (py p)) in Hok. fold (phi (pz p)) in Hok.
  set (X := phi (px p)) in *. set (Y := phi (py p)) in *. set (Z := phi (pz p)) in *. set (t := tsc s) in *.
  replace (X / t * (X / t) + Y / t * (Y / t) + Z / t * (Z / t) - 1) with ((X * X + Y * Y + Z * Z - t * t) * / (t * t))
    by (field; lra).
  assert (Htt : 0 < t * t) by nra.
  rewrite Rabs_mult, (Rabs_pos_eq (/ (t * t))) by (left; apply Rinv_0_lt_compat; exact Htt).
  assert (E13 : 0 < 10 ^ 13) by (apply pow_lt; lra).
  unfold tol_sphere.
  apply Rmult_le_reg_r with (t * t * 10 ^ 13); [apply Rmult_lt_0_compat; lra|].
  replace (Rabs (X * X + Y * Y + Z * Z - t * t) * / (t * t) * (t * t * 10 ^ 13))
    with (Rabs (X * X + Y * Y + Z * Z - t * t) * 10 ^ 13) by (field; lra).
  replace (/ 10 ^ 13 * (t * t * 10 ^ 13)) with (t * t) by (field; lra).
  exact Hok.
Qed.

(* ================================================================== the grid as real data *)
Definition mkp {A} (q : A * A * A * A) : @pt A :=
  Pt (fst (fst (fst q))) (snd (fst (fst q))) (snd (fst q)) (snd q).

(* the stored point and stored weight as real numbers: X / 2^s, W / 2^sw *)
Definition real_pt (s sw : Z) (p : @pt bigZ) : ptR :=
  Pt (phi (px p) / tsc s) (phi (py p) / tsc s) (phi (pz p) / tsc s) (phi (pw p) / tsc sw).

(* AngularGrid(...).points and .weights (hand model of the loader and of __init__):
   points as stored; weights broadcast if a single one is stored, times 4 pi for lebedev/spherical *)
Definition real_pts (s : Z) (ps : list (bigZ * bigZ * bigZ)) : list (R * R * R) :=
  map (fun q => (phi (fst (fst q)) / tsc s, phi (snd (fst q)) / tsc s, phi (snd q) / tsc s)) ps.
Definition real_wts (mode : norm_mode) (sw : Z) (n : nat) (ws : list bigZ) : list R :=
  map (fun w => nf mode * (phi w / tsc sw)) (expand_weights n ws).

(* sum_i w_i f(p_i) *)
Definition quad (f : R -> R -> R -> R) (P : list (R * R * R)) (W : list R) : R :=
  fold_right Rplus 0
    (map (fun q => snd q * f (fst (fst (fst q))) (snd (fst (fst q))) (snd (fst q))) (combine P W)).
Definition sumR (W : list R) : R := fold_right Rplus 0 W.

Definition sph_target (l : nat) : R := if Nat.eqb l 0 then sqrt (4 * PI) else 0.

(* the property C02 for one grid, over the reals *)
Definition grid_exact (d n : nat) (P : list (R * R * R)) (W : list R) : Prop :=
  length P = n /\ length W = n /\
  List.Forall (fun p => let x := fst (fst p) in let y := snd (fst p) in let z := snd p in
                   Rabs (x * x + y * y + z * z - 1) <= tol_sphere) P /\
  Rabs (sumR W - 4 * PI) <= tol_int /\
  forall (l : nat) (m : Z), (l <= d)%nat -> (- Z.of_nat l <= m <= Z.of_nat l)%Z ->
    Rabs (quad (Ylm l m) P W - sph_target l) <= tol_int.

Lemma mk_pts_quad mode s sw f : forall ps ws pts, mk_pts ps ws = Some pts ->
  quad f (real_pts s ps) (map (fun w => nf mode * (phi w / tsc sw)) ws) =
  Sum (fun p => nf mode * pw p * f (px p) (py p) (pz p)) (map (real_pt s sw) pts).
Proof.
  induction ps as [|[[x y] z] ps IH]; intros [|w ws] pts H; cbn [mk_pts] in H; try discriminate.
  - injection H as <-. reflexivity.
  - destruct (mk_pts ps ws) as [r|] eqn:E; [|discriminate]. injection H as <-.
    specialize (IH ws r E). unfold quad in *. cbn [real_pts map combine fold_right fst snd].
    fold (real_pts s ps). rewrite IH. rewrite Sum_cons. cbn [real_pt px py pz pw]. ring.
Qed.

Lemma mk_pts_sum mode sw : forall ps ws pts, mk_pts ps ws = Some pts ->
  sumR (map (fun w => nf mode * (phi w / tsc sw)) ws) = nf mode * (phi (sum_list BOps (map pw pts)) / tsc sw).
Proof.
  induction ps as [|[[x y] z] ps IH]; intros [|w ws] pts H; cbn [mk_pts] in H; try discriminate.
  - injection H as <-. cbn. unfold phi. cbn. unfold Rdiv. ring.
  - destruct (mk_pts ps ws) as [r|] eqn:E; [|discriminate]. injection H as <-.
    specialize (IH ws r E). cbn [map sumR fold_right sum_list pw]. fold (sumR (map (fun w0 => nf mode * (phi w0 / tsc sw)) ws)).
    rewrite IH. change (oadd BOps w (sum_list BOps (map pw r))) with (oadd BOps w (sum_list BOps (map pw r))).
    rewrite phi_add. cbn [oadd ROps]. unfold Rdiv. ring.
Qed.

Lemma mk_pts_len {A} : forall (ps : list (A * A * A)) ws pts, mk_pts ps ws = Some pts ->
  length ws = length ps /\ length pts = length ps.
Proof.
  induction ps as [|[[x y] z] ps IH]; intros [|w ws] pts H; cbn [mk_pts] in H; try discriminate.
  - injection H as <-. split; reflexivity.
  - destruct (mk_pts ps ws) as [r|] eqn:E; [|discriminate]. injection H as <-.
    destruct (IH ws r E). cbn. split; congruence.
Qed.

Lemma mk_pts_sphere s : forall ps ws pts, mk_pts ps ws = Some pts ->
  forallb (on_sphere_ok s) pts = true -> (0 <= s)%Z ->
  List.Forall (fun p => let x := fst (fst p) in let y := snd (fst p) in let z := snd p in
                   Rabs (x * x + y * y + z * z - 1) <= tol_sphere) (real_pts s ps).
Proof.
  induction ps as [|[[x y] z] ps IH]; intros [|w ws] pts H Hs Hs0; cbn [mk_pts] in H; try discriminate.
  - constructor.
  - destruct (mk_pts ps ws) as [r|] eqn:E; [|discriminate]. injection H as <-.
    cbn [forallb] in Hs. apply andb_true_iff in Hs as [H1 H2].
    cbn [real_pts map]. constructor; [|apply (IH ws r E H2 Hs0)].
    apply (on_sphere_ok_R s _ Hs0) in H1. exact H1.
Qed.

(* ================================================================== reading the checks off the triangle *)
Lemma row_ok_nth mode s sw m : forall row l0, row_ok mode s sw l0 m row = true ->
  forall i c s', nth_error row i = Some (c, s') -> (l0 + i <> 0)%nat ->
  lm_ok mode s sw (l0 + i) m c = true /\ lm_ok mode s sw (l0 + i) m s' = true.
Proof.
  induction row as [|[c0 s0] row IH]; intros l0 H i c s' Hn Hne; [destruct i; discriminate|].
  cbn [row_ok] in H. apply andb_true_iff in H as [H1 H2].
  destruct i as [|i].
  - cbn in Hn. injection Hn as <- <-. rewrite Nat.add_0_r in *.
    destruct (Nat.eqb l0 0) eqn:E; [apply Nat.eqb_eq in E; lia|]. now apply andb_true_iff in H1.
  - cbn in Hn. replace (l0 + S i)%nat with (S l0 + i)%nat in * by lia. apply (IH _ H2 _ _ _ Hn Hne).
Qed.

Lemma tri_ok_nth mode s sw : forall tri m0, tri_ok mode s sw m0 tri = true ->
  forall i row, nth_error tri i = Some row -> row_ok mode s sw (m0 + i) (m0 + i) row = true.
Proof.
  induction tri as [|r0 tri IH]; intros m0 H i row Hn; [destruct i; discriminate|].
  cbn [tri_ok] in H. apply andb_true_iff in H as [H1 H2].
  destruct i as [|i].
  - cbn in Hn. injection Hn as <-. now rewrite Nat.add_0_r.
  - cbn in Hn. replace (m0 + S i)%nat with (S m0 + i)%nat by lia. apply (IH _ H2 _ _ Hn).
Qed.

Lemma phi_bpow2_double s : (0 <= s)%Z -> phi (bpow2 (2 * s)) = tsc s * tsc s.
Proof.
  intros H. unfold phi, bpow2, bz. rewrite BigZ.spec_pow, !BigZ.spec_of_Z. now apply tsc_double.
Qed.

Lemma option_map_Some {X Y} (g : X -> Y) o v : option_map g o = Some v -> exists x, o = Some x /\ g x = v.
Proof. destruct o as [x|]; cbn; [|discriminate]. intros H. exists x. split; [reflexivity|congruence]. Qed.

(* the entries of the checker's triangle are the integer-scaled sums *)
Lemma tri_entries d s pts l m : (0 <= s)%Z -> (m <= l)%nat -> (l <= d)%nat ->
  exists row c s', nth_error (s_tri BOps 0 (bpow2 (2 * s)) (tri_sum BOps d pts)) m = Some row /\
                   nth_error row (l - m) = Some (c, s') /\
                   phi c = SlmR (tsc s * tsc s) (map (map_pt phi) pts) l m false /\
                   phi s' = SlmR (tsc s * tsc s) (map (map_pt phi) pts) l m true.
Proof.
  intros Hs Hml Hld.
  pose proof (m_s_tri BOps ROps phi phi_0 phi_sub phi_mul phi_Z 0 (bpow2 (2 * s)) (tri_sum BOps d pts)) as E.
  rewrite (m_tri_sum BOps ROps phi phi_0 phi_1 phi_add phi_sub phi_mul) in E.
  rewrite phi_bpow2_double in E by exact Hs. rewrite s_tri_sum_closed in E.
  set (TB := s_tri BOps 0 (bpow2 (2 * s)) (tri_sum BOps d pts)) in *.
  assert (E1 := f_equal (fun t => nth_error t m) E). cbv beta in E1.
  rewrite nth_error_map, nth_error_map_seq in E1 by lia.
  apply option_map_Some in E1 as (row & Er & E1).
  assert (E2 := f_equal (fun t => nth_error t (l - m)) E1). cbv beta in E2.
  rewrite nth_error_map, nth_error_map_seq in E2 by lia.
  apply option_map_Some in E2 as ([c s'] & Ec & E2).
  replace (m + (l - m))%nat with l in E2 by lia. unfold pmap in E2. cbn [fst snd] in E2.
  assert (E3 : phi c = SlmR (tsc s * tsc s) (map (map_pt phi) pts) l m false) by congruence.
  assert (E4 : phi s' = SlmR (tsc s * tsc s) (map (map_pt phi) pts) l m true) by congruence.
  exists row, c, s'. repeat split; assumption.
Qed.

(* ================================================================== de-scaling and the link to Y_lm *)
Lemma Slm_scale s sw pts l m neg : (0 <= s)%Z -> (0 <= sw)%Z -> (m <= l)%nat ->
  SlmR (tsc s * tsc s) (map (map_pt phi) pts) l m neg =
  tsc sw * tsc s ^ l * SlmR 1 (map (real_pt s sw) pts) l m neg.
Proof.
  intros Hs Hw Hml. pose proof (tsc_pos s Hs) as Ts. pose proof (tsc_pos sw Hw) as Tw.
  unfold SlmR. rewrite !Sum_map, <- Sum_scal. apply Sum_ext. intros p.
  unfold csR, uR, map_pt, real_pt. cbn [px py pz pw].
  set (t := tsc s) in *. set (tw := tsc sw) in *.
  set (x := phi (px p) / t). set (y := phi (py p) / t). set (z := phi (pz p) / t). set (w := phi (pw p) / tw).
  replace (phi (px p)) with (t * x) by (unfold x; field; lra).
  replace (phi (py p)) with (t * y) by (unfold y; field; lra).
  replace (phi (pz p)) with (t * z) by (unfold z; field; lra).
  replace (phi (pw p)) with (tw * w) by (unfold w; field; lra).
  rewrite cs_hom. replace (t * t) with (t * t * 1) by ring.
  destruct (u_hom t z 1 (Z.of_nat m) (l - m)) as [H1 _]. rewrite H1.
  replace (t ^ l) with (t ^ m * t ^ (l - m)) by (rewrite <- pow_add; f_equal; lia).
  unfold pick. destruct neg; cbn [fst snd]; ring.
Qed.

Lemma quad_Ylm nfv ptsT l mz : (Z.abs_nat mz <= l)%nat ->
  Sum (fun p => nfv * pw p * Ylm l mz (px p) (py p) (pz p)) ptsT =
  nfv * (cnorm l (Z.abs_nat mz) * SlmR 1 ptsT l (Z.abs_nat mz) (mz <? 0)%Z).
Proof.
  intros Hml. set (m := Z.abs_nat mz) in *. unfold SlmR. rewrite <- !Sum_scal. apply Sum_ext. intros p.
  unfold Ylm, cnorm, uR, csR. fold m. rewrite u_pair_Uq.
  pose proof (LQ_Uq (l - m) m (pz p)) as E. replace (m + (l - m))%nat with l in E by lia.
  pose proof (fact_pos (l - m)) as F.
  assert (E' : LQ l m (pz p) = dfact_odd m * fst (Uq (l - m) m (pz p)) / INR (fact (l - m))).
  { rewrite <- E. field. lra. }
  rewrite E'. field. lra.
Qed.

Lemma Sum_pw s sw pts : Sum pw (map (real_pt s sw) pts) = phi (sum_list BOps (map pw pts)) / tsc sw.
Proof.
  induction pts as [|p r IH].
  - cbn. unfold phi. cbn. unfold Rdiv. ring.
  - cbn [map sum_list]. rewrite Sum_cons, IH, phi_add. cbn [real_pt pw oadd ROps]. unfold Rdiv. ring.
Qed.

Lemma cnorm_00 : cnorm 0 0 = / sqrt (4 * PI).
Proof.
  pose proof (cnorm_sq 0 0) as E. pose proof (cnorm_nonneg 0 0) as N. pose proof PI_RGT_0 as P.
  change (IZR (kappa_num 0 0)) with 1 in E. change (IZR (kappa_den 0 0)) with 4 in E.
  assert (Q : 0 < sqrt (4 * PI)) by (apply sqrt_lt_R0; lra).
  assert (Q2 : sqrt (4 * PI) * sqrt (4 * PI) = 4 * PI) by (apply sqrt_sqrt; lra).
  set (q := sqrt (4 * PI)) in *. set (c := cnorm 0 0) in *.
  assert (Hc : (c * q) * (c * q) = 1).
  { replace (c * q * (c * q)) with (c * c * (q * q)) by ring. rewrite E, Q2. field. lra. }
  assert (Hcq : c * q = 1).
  { assert (0 <= c * q) by (apply Rmult_le_pos; lra). nra. }
  apply Rmult_eq_reg_r with q; [|lra]. rewrite Hcq. field. lra.
Qed.

(* ================================================================== soundness of the checker *)
Theorem grid_ok_sound_lemma mode d n s sw ps ws :
  grid_ok mode d n s sw ps ws = true ->
  grid_exact d n (real_pts s ps) (real_wts mode sw n ws).
Proof.
  unfold grid_ok. intros H.
  apply andb_true_iff in H as [H Hm]. apply andb_true_iff in H as [H Hw]. apply andb_true_iff in H as [Hn Hs].
  apply Nat.eqb_eq in Hn. apply Z.leb_le in Hs, Hw.
  destruct (mk_pts ps (expand_weights n ws)) as [pts|] eqn:Epts; [|discriminate].
  apply andb_true_iff in Hm as [Hm Htri]. apply andb_true_iff in Hm as [Hsph Hsum].
  destruct (mk_pts_len _ _ _ Epts) as [Lw Lp].
  unfold grid_exact, real_wts.
  split; [unfold real_pts; now rewrite map_length|].
  split; [rewrite map_length; congruence|].
  split; [apply (mk_pts_sphere s _ _ _ Epts Hsph Hs)|].
  assert (HW : Rabs (nf mode * Sum pw (map (real_pt s sw) pts) - 4 * PI) <= tol_int).
  { rewrite Sum_pw. apply wsum_ok_R; assumption. }
  split.
  { rewrite (mk_pts_sum mode sw _ _ _ Epts). apply wsum_ok_R; assumption. }
  intros l mz Hld Hmz.
  rewrite (mk_pts_quad mode s sw (Ylm l mz) _ _ _ Epts).
  assert (Hml : (Z.abs_nat mz <= l)%nat) by lia.
  rewrite quad_Ylm by exact Hml.
  destruct l as [|l'].
  - (* l = 0: the weight sum *)
    assert (mz = 0%Z) by lia. subst mz. cbn [Z.abs_nat Z.ltb Z.compare sph_target Nat.eqb].
    rewrite cnorm_00.
    assert (ES : SlmR 1 (map (real_pt s sw) pts) 0 0 false = Sum pw (map (real_pt s sw) pts)).
    { unfold SlmR. apply Sum_ext. intros p. unfold csR, uR. cbn. ring. }
    rewrite ES. set (A := Sum pw (map (real_pt s sw) pts)) in *.
    pose proof PI_RGT_0 as P.
    assert (Q1 : 1 <= sqrt (4 * PI)).
    { rewrite <- sqrt_1. apply sqrt_le_1_alt. pose proof PI_bounds as [Plo _].
      unfold pi_lo_num, pi_den in Plo. lra. }
    assert (Q2 : sqrt (4 * PI) * sqrt (4 * PI) = 4 * PI) by (apply sqrt_sqrt; lra).
    set (q := sqrt (4 * PI)) in *.
    replace (nf mode * (/ q * A) - q) with ((nf mode * A - 4 * PI) * / q) by (rewrite <- Q2; field; lra).
    rewrite Rabs_mult, (Rabs_pos_eq (/ q)) by (left; apply Rinv_0_lt_compat; lra).
    assert (Tpos : 0 <= tol_int) by (unfold tol_int; left; apply Rinv_0_lt_compat; apply pow_lt; lra).
    assert (Iq : / q <= 1) by (rewrite <- Rinv_1; apply Rinv_le_contravar; lra).
    assert (0 < / q) by (apply Rinv_0_lt_compat; lra).
    pose proof (Rabs_pos (nf mode * A - 4 * PI)). nra.
  - (* l >= 1: a harmonic that must integrate to 0 *)
    set (l := S l') in *. set (m := Z.abs_nat mz) in *.
    cbn [sph_target Nat.eqb]. rewrite Rminus_0_r.
    destruct (tri_entries d s pts l m Hs Hml Hld) as (row & c & s' & Er & Ec & Ephc & Ephs).
    pose proof (tri_ok_nth _ _ _ _ _ Htri _ _ Er) as Hrow. cbn [Nat.add] in Hrow.
    destruct (row_ok_nth _ _ _ _ _ _ Hrow _ _ _ Ec ltac:(lia)) as [Hc Hs'].
    replace (m + (l - m))%nat with l in Hc, Hs' by lia.
    rewrite (Slm_scale s sw pts l m false Hs Hw Hml) in Ephc. rewrite (Slm_scale s sw pts l m true Hs Hw Hml) in Ephs.
    destruct (mz <? 0)%Z.
    + apply (lm_ok_R mode s sw l m s' _ Hs Hw Hs' Ephs).
    + apply (lm_ok_R mode s sw l m c _ Hs Hw Hc Ephc).
Qed.

(* ================================================================== refutation of a grid *)
Lemma Rabs_gt_of_sq x y : 0 <= y -> y * y < x * x -> y < Rabs x.
Proof. intros Hy H. rewrite <- (Rabs_pos_eq y Hy). apply Rsqr_lt_abs_0. exact H. Qed.

Lemma lm_bad_R mode s sw l m St S :
  (0 <= s)%Z -> (0 <= sw)%Z -> lm_bad mode s sw l m St = true ->
  phi St = tsc sw * tsc s ^ l * S ->
  tol_int < Rabs (nf mode * (cnorm l m * S)).
Proof.
  intros Hs Hw Hbad HS. apply lm_bad_Z in Hbad. cbv zeta in Hbad.
  pose proof (tsc_pos s Hs) as Ts. pose proof (tsc_pos sw Hw) as Tw.
  set (T := tsc sw * tsc s ^ l) in *.
  assert (HT : 0 < T) by (unfold T; apply Rmult_lt_0_compat; [exact Tw|apply pow_lt; exact Ts]).
  pose proof (kappa_den_pos l m) as Kd. pose proof (kappa_num_nonneg l m) as Kn.
  pose proof pi_hi_gt as Phi. pose proof pi_lo_lt as Plo. pose proof pi_den_pos as Pd. pose proof PI_RGT_0 as Ppos.
  assert (E9 : 0 < 10 ^ 9) by (apply pow_lt; lra).
  apply Rabs_gt_of_sq; [unfold tol_int; left; apply Rinv_0_lt_compat; exact E9|].
  replace (nf mode * (cnorm l m * S) * (nf mode * (cnorm l m * S)))
    with (nf mode * nf mode * (cnorm l m * cnorm l m) * (S * S)) by ring.
  rewrite cnorm_sq. unfold tol_int.
  set (kn := IZR (kappa_num l m)) in *. set (kd := IZR (kappa_den l m)) in *.
  assert (HSS : 0 <= S * S) by nra.
  assert (HkS : 0 <= kn * (S * S)) by (apply Rmult_le_pos; assumption).
  assert (Hpos : 0 < kd * PI * (10 ^ 9 * 10 ^ 9))
    by (apply Rmult_lt_0_compat; [apply Rmult_lt_0_compat; lra|apply Rmult_lt_0_compat; exact E9]).
  destruct mode; apply IZR_lt in Hbad;
    rewrite ?mult_IZR, tsc_lm, IZR_tol_int in Hbad by assumption;
    fold T in Hbad; fold kn in Hbad; fold kd in Hbad; fold (phi St) in Hbad; rewrite HS in Hbad; cbn [nf].
  - assert (H1 : kd * IZR pi_den < 16 * (kn * (S * S) * 10 ^ 9 * 10 ^ 9) * IZR pi_lo_num).
    { apply Rmult_lt_reg_r with (T * T); [nra|]. lra. }
    assert (H2 : kd < 16 * (kn * (S * S) * 10 ^ 9 * 10 ^ 9) * PI).
    { apply Rmult_lt_reg_r with (IZR pi_den); [exact Pd|].
      apply Rlt_le_trans with (16 * (kn * (S * S) * 10 ^ 9 * 10 ^ 9) * IZR pi_lo_num); [exact H1|].
      assert (0 <= 16 * (kn * (S * S) * 10 ^ 9 * 10 ^ 9)) by nra. nra. }
    apply Rmult_lt_reg_r with (kd * PI * (10 ^ 9 * 10 ^ 9)); [exact Hpos|].
    replace (4 * PI * (4 * PI) * (kn / (kd * PI)) * (S * S) * (kd * PI * (10 ^ 9 * 10 ^ 9)))
      with (16 * (kn * (S * S) * 10 ^ 9 * 10 ^ 9) * PI * PI) by (field; lra).
    replace (/ 10 ^ 9 * / 10 ^ 9 * (kd * PI * (10 ^ 9 * 10 ^ 9))) with (kd * PI) by (field; lra).
    apply Rmult_lt_compat_r; lra.
  - assert (H1 : kd * IZR pi_hi_num < kn * (S * S) * 10 ^ 9 * 10 ^ 9 * IZR pi_den).
    { apply Rmult_lt_reg_r with (T * T); [nra|]. lra. }
    assert (H2 : kd * PI < kn * (S * S) * 10 ^ 9 * 10 ^ 9).
    { apply Rmult_lt_reg_r with (IZR pi_den); [exact Pd|].
      apply Rle_lt_trans with (kd * IZR pi_hi_num); [nra|exact H1]. }
    apply Rmult_lt_reg_r with (kd * PI * (10 ^ 9 * 10 ^ 9)); [exact Hpos|].
    replace (1 * 1 * (kn / (kd * PI)) * (S * S) * (kd * PI * (10 ^ 9 * 10 ^ 9)))
      with (kn * (S * S) * 10 ^ 9 * 10 ^ 9) by (field; lra).
    replace (/ 10 ^ 9 * / 10 ^ 9 * (kd * PI * (10 ^ 9 * 10 ^ 9))) with (kd * PI) by (field; lra).
    exact H2.
Qed.

Lemma wsum_bad_R mode sw Sw : (0 <= sw)%Z -> wsum_bad mode sw Sw = true ->
  tol_int < Rabs (nf mode * (phi Sw / tsc sw) - 4 * PI).
Proof.
  intros Hw Hbad. apply wsum_bad_Z in Hbad. cbv zeta in Hbad.
  pose proof (tsc_pos sw Hw) as Tw. pose proof pi_den_pos as Pd. pose proof PI_RGT_0 as Ppos.
  pose proof pi_hi_gt as Phi. pose proof pi_lo_lt as Plo.
  assert (E9 : 0 < 10 ^ 9) by (apply pow_lt; lra).
  set (x := phi Sw / tsc sw). assert (Hx : phi Sw = x * tsc sw) by (unfold x; field; lra).
  unfold tol_int. destruct mode; cbn [nf].
  - apply IZR_lt in Hbad. rewrite !mult_IZR, abs_IZR, minus_IZR, IZR_tol_int in Hbad.
    fold (phi Sw) in Hbad. fold (tsc sw) in Hbad. rewrite Hx in Hbad.
    replace (x * tsc sw - tsc sw) with ((x - 1) * tsc sw) in Hbad by ring.
    rewrite Rabs_mult, (Rabs_pos_eq (tsc sw)) in Hbad by lra.
    replace (4 * PI * x - 4 * PI) with (4 * PI * (x - 1)) by ring.
    rewrite Rabs_mult, (Rabs_pos_eq (4 * PI)) by lra.
    pose proof (Rabs_pos (x - 1)) as Ha. set (a := Rabs (x - 1)) in *.
    assert (H1 : IZR pi_den < 4 * IZR pi_lo_num * a * 10 ^ 9).
    { apply Rmult_lt_reg_r with (tsc sw); [exact Tw|]. lra. }
    apply Rmult_lt_reg_r with (10 ^ 9 * IZR pi_den); [apply Rmult_lt_0_compat; lra|].
    replace (/ 10 ^ 9 * (10 ^ 9 * IZR pi_den)) with (IZR pi_den) by (field; lra).
    apply Rlt_le_trans with (4 * IZR pi_lo_num * a * 10 ^ 9); [exact H1|]. nra.
  - replace (1 * x) with x by ring.
    destruct Hbad as [H|H]; apply IZR_lt in H.
    + rewrite !mult_IZR in H. rewrite minus_IZR in H. rewrite !mult_IZR, IZR_tol_int in H.
      fold (phi Sw) in H. fold (tsc sw) in H. rewrite Hx in H.
      assert (G : 4 * IZR pi_hi_num * 10 ^ 9 < (x * 10 ^ 9 - 1) * IZR pi_den).
      { apply Rmult_lt_reg_r with (tsc sw); [exact Tw|]. lra. }
      assert (G' : 4 * PI * 10 ^ 9 < x * 10 ^ 9 - 1).
      { apply Rmult_lt_reg_r with (IZR pi_den); [exact Pd|]. nra. }
      apply Rlt_le_trans with (x - 4 * PI); [|apply Rle_abs].
      apply Rmult_lt_reg_r with (10 ^ 9); [exact E9|].
      replace (/ 10 ^ 9 * 10 ^ 9) with 1 by (field; lra). lra.
    + rewrite !mult_IZR in H. rewrite plus_IZR in H. rewrite !mult_IZR, IZR_tol_int in H.
      fold (phi Sw) in H. fold (tsc sw) in H. rewrite Hx in H.
      assert (G : (x * 10 ^ 9 + 1) * IZR pi_den < 4 * IZR pi_lo_num * 10 ^ 9).
      { apply Rmult_lt_reg_r with (tsc sw); [exact Tw|]. lra. }
      assert (G' : x * 10 ^ 9 + 1 < 4 * PI * 10 ^ 9).
      { apply Rmult_lt_reg_r with (IZR pi_den); [exact Pd|]. nra. }
      rewrite <- Rabs_Ropp. apply Rlt_le_trans with (- (x - 4 * PI)); [|apply Rle_abs].
      apply Rmult_lt_reg_r with (10 ^ 9); [exact E9|].
      replace (/ 10 ^ 9 * 10 ^ 9) with 1 by (field; lra). lra.
Qed.

Lemma phi_S_lm s l m neg pts : (0 <= s)%Z ->
  phi (S_lm s l m neg pts) = SlmR (tsc s * tsc s) (map (map_pt phi) pts) l m neg.
Proof.
  intros Hs. unfold S_lm, SlmR.
  rewrite (m_sum_list BOps ROps phi phi_0 phi_add). rewrite map_map, Sum_map. unfold Sum. f_equal.
  apply map_ext. intros p.
  change (phi (omul BOps (omul BOps (pw p) (if neg then snd (cs_pow BOps m (px p) (py p)) else fst (cs_pow BOps m (px p) (py p))))
                     (fst (u_pair BOps (l - m) (Z.of_nat m) (pz p) (bpow2 (2 * s))))) =
          pw (map_pt phi p) * pick neg (csR m (map_pt phi p)) * fst (uR (l - m) (Z.of_nat m) (tsc s * tsc s) (map_pt phi p))).
  rewrite !phi_mul. cbn [omul ROps]. unfold csR, uR, map_pt. cbn [px py pz pw].
  pose proof (m_cs_pow BOps ROps phi phi_0 phi_1 phi_add phi_sub phi_mul m (px p) (py p)) as Ecs.
  pose proof (m_u_pair BOps ROps phi phi_0 phi_1 phi_sub phi_mul phi_Z (l - m) (Z.of_nat m) (pz p) (bpow2 (2 * s))) as Eu.
  rewrite phi_bpow2_double in Eu by exact Hs.
  rewrite <- Ecs, <- Eu. unfold pmap, pick. destruct neg; reflexivity.
Qed.

Definition signed (m : nat) (neg : bool) : Z := if neg then (- Z.of_nat m)%Z else Z.of_nat m.

Theorem grid_bad_lm_sound_lemma mode n s sw l m neg ps ws :
  grid_bad_lm mode n s sw l m neg ps ws = true ->
  (1 <= l)%nat /\ (- Z.of_nat l <= signed m neg <= Z.of_nat l)%Z /\
  tol_int < Rabs (quad (Ylm l (signed m neg)) (real_pts s ps) (real_wts mode sw n ws) - sph_target l).
Proof.
  unfold grid_bad_lm. intros H.
  apply andb_true_iff in H as [H Hb]. apply andb_true_iff in H as [H Hneg]. apply andb_true_iff in H as [H Hml].
  apply andb_true_iff in H as [H Hl]. apply andb_true_iff in H as [Hs Hw].
  apply Z.leb_le in Hs, Hw. apply Nat.leb_le in Hl, Hml.
  destruct (mk_pts ps (expand_weights n ws)) as [pts|] eqn:Epts; [|discriminate].
  assert (Hm1 : neg = true -> (1 <= m)%nat).
  { intros ->. cbn [negb orb] in Hneg. now apply Nat.leb_le in Hneg. }
  split; [exact Hl|]. split; [unfold signed; destruct neg; lia|].
  unfold real_wts. rewrite (mk_pts_quad mode s sw _ _ _ _ Epts).
  assert (Ea : Z.abs_nat (signed m neg) = m) by (unfold signed; destruct neg; lia).
  assert (En : (signed m neg <? 0)%Z = neg).
  { unfold signed. destruct neg; [specialize (Hm1 eq_refl); apply Z.ltb_lt; lia|apply Z.ltb_ge; lia]. }
  rewrite quad_Ylm by (rewrite Ea; exact Hml). rewrite Ea, En.
  destruct l as [|l']; [lia|]. cbn [sph_target Nat.eqb]. rewrite Rminus_0_r.
  apply (lm_bad_R mode s sw (S l') m _ _ Hs Hw Hb).
  rewrite phi_S_lm by exact Hs. apply Slm_scale; assumption.
Qed.

Theorem grid_bad_wsum_sound_lemma mode n sw ps ws :
  grid_bad_wsum mode n sw ps ws = true ->
  tol_int < Rabs (sumR (real_wts mode sw n ws) - 4 * PI).
Proof.
  unfold grid_bad_wsum. intros H. apply andb_true_iff in H as [Hw Hb]. apply Z.leb_le in Hw.
  destruct (mk_pts ps (expand_weights n ws)) as [pts|] eqn:Epts; [|discriminate].
  unfold real_wts. rewrite (mk_pts_sum mode sw _ _ _ Epts). apply wsum_bad_R; assumption.
Qed.

(* a refuted grid is not exact (for any advertised degree d >= l) *)
Corollary bad_lm_not_exact mode d n s sw l m neg ps ws :
  grid_bad_lm mode n s sw l m neg ps ws = true -> (l <= d)%nat ->
  ~ grid_exact d n (real_pts s ps) (real_wts mode sw n ws).
Proof.
  intros Hb Hld (_ & _ & _ & _ & Hq). destruct (grid_bad_lm_sound_lemma _ _ _ _ _ _ _ _ _ Hb) as (Hl & Hm & Hgt).
  specialize (Hq l (signed m neg) Hld Hm). lra.
Qed.

Corollary bad_wsum_not_exact mode d n s sw ps ws :
  grid_bad_wsum mode n sw ps ws = true -> ~ grid_exact d n (real_pts s ps) (real_wts mode sw n ws).
Proof.
  intros Hb (_ & _ & _ & Hs & _). pose proof (grid_bad_wsum_sound_lemma _ _ _ _ _ Hb). lra.
Qed.

(* ================================================================== statements used by C02_props.v *)
Lemma legendre_def_lemma : forall z,
  Legendre 0 z = 1 /\ Legendre 1 z = z /\
  forall l, INR (S (S l)) * Legendre (S (S l)) z = (2 * INR (S l) + 1) * z * Legendre (S l) z - INR (S l) * Legendre l z.
Proof. intros z. split; [apply Legendre_0|split; [apply Legendre_1|intros l; apply Legendre_bonnet]]. Qed.

Lemma integer_recurrence_lemma : forall n m z,
  INR (fact n) * Derive_n (Legendre (m + n)) m z = dfact_odd m * fst (u_pair ROps n (Z.of_nat m) z 1).
Proof. intros n m z. rewrite LQ_Derive_n, u_pair_Uq. apply LQ_Uq. Qed.

Example example_two_point_lemma :
  grid_ok Times4Pi 1 2 0 1 ((0%bigZ, 0%bigZ, 1%bigZ) :: (0%bigZ, 0%bigZ, (-1)%bigZ) :: nil) (1%bigZ :: nil) = true /\
  grid_bad_lm Times4Pi 2 0 1 2 0 false ((0%bigZ, 0%bigZ, 1%bigZ) :: (0%bigZ, 0%bigZ, (-1)%bigZ) :: nil) (1%bigZ :: nil) = true.
Proof. split; vm_compute; reflexivity. Qed.

(* ================================================================== evaluation of Ylm at rational points
   (used by the harness to validate the definition of Ylm against the library's own real spherical
   harmonics, grid.utils.generate_real_spherical_harmonics, with the interval tactic) *)
Lemma cnorm_sqrt l m : cnorm l m = sqrt (IZR (kappa_num l m) / (IZR (kappa_den l m) * PI)).
Proof.
  rewrite <- cnorm_sq. symmetry. apply sqrt_square. apply cnorm_nonneg.
Qed.

(* the integer harmonic at an integer point (X, Y, Z) with denominator D *)
Definition Hz (l m : nat) (neg : bool) (X Y Zc D : Z) : Z :=
  ((if neg then snd (cs_pow ZOps m X Y) else fst (cs_pow ZOps m X Y)) *
   fst (u_pair ZOps (l - m) (Z.of_nat m) Zc (D * D)))%Z.

Lemma IZR_0' : IZR (o0 ZOps) = o0 ROps. Proof. reflexivity. Qed.
Lemma IZR_1' : IZR (o1 ZOps) = o1 ROps. Proof. reflexivity. Qed.
Lemma IZR_add' x y : IZR (oadd ZOps x y) = oadd ROps (IZR x) (IZR y). Proof. apply plus_IZR. Qed.
Lemma IZR_sub' x y : IZR (osub ZOps x y) = osub ROps (IZR x) (IZR y). Proof. apply minus_IZR. Qed.
Lemma IZR_mul' x y : IZR (omul ZOps x y) = omul ROps (IZR x) (IZR y). Proof. apply mult_IZR. Qed.
Lemma IZR_Z' z : IZR (oZ ZOps z) = oZ ROps z. Proof. reflexivity. Qed.

Theorem Ylm_rational_lemma l m neg X Y Zc D : (m <= l)%nat -> (neg = true -> (1 <= m)%nat) -> (0 < D)%Z ->
  Ylm l (signed m neg) (IZR X / IZR D) (IZR Y / IZR D) (IZR Zc / IZR D) =
  sqrt (IZR (kappa_num l m) / (IZR (kappa_den l m) * PI)) * (IZR (Hz l m neg X Y Zc D) / IZR D ^ l).
Proof.
  intros Hml Hneg HD. assert (Dp : 0 < IZR D) by (apply IZR_lt; exact HD).
  assert (Ea : Z.abs_nat (signed m neg) = m) by (unfold signed; destruct neg; lia).
  assert (En : (signed m neg <? 0)%Z = neg).
  { unfold signed. destruct neg; [specialize (Hneg eq_refl); apply Z.ltb_lt; lia|apply Z.ltb_ge; lia]. }
  unfold Ylm. rewrite Ea, En. rewrite <- cnorm_sqrt. unfold cnorm.
  pose proof (LQ_Uq (l - m) m (IZR Zc / IZR D)) as E. replace (m + (l - m))%nat with l in E by lia.
  pose proof (fact_pos (l - m)) as F.
  assert (E' : LQ l m (IZR Zc / IZR D) = dfact_odd m * fst (Uq (l - m) m (IZR Zc / IZR D)) / INR (fact (l - m))).
  { rewrite <- E. field. lra. }
  rewrite E', <- u_pair_Uq.
  unfold Hz.
  pose proof (m_cs_pow ZOps ROps IZR IZR_0' IZR_1' IZR_add' IZR_sub' IZR_mul' m X Y) as Ecs.
  pose proof (m_u_pair ZOps ROps IZR IZR_0' IZR_1' IZR_sub' IZR_mul' IZR_Z' (l - m) (Z.of_nat m) Zc (D * D)%Z) as Eu.
  rewrite mult_IZR in Eu.
  set (x := IZR X / IZR D). set (y := IZR Y / IZR D). set (z := IZR Zc / IZR D).
  replace (IZR X) with (IZR D * x) in Ecs by (unfold x; field; lra).
  replace (IZR Y) with (IZR D * y) in Ecs by (unfold y; field; lra).
  replace (IZR Zc) with (IZR D * z) in Eu by (unfold z; field; lra).
  replace (IZR D * IZR D) with (IZR D * IZR D * 1) in Eu by ring.
  rewrite cs_hom in Ecs. destruct (u_hom (IZR D) z 1 (Z.of_nat m) (l - m)) as [H1 _].
  assert (Ef : IZR (fst (u_pair ZOps (l - m) (Z.of_nat m) Zc (D * D)%Z)) = IZR D ^ (l - m) * fst (u_pair ROps (l - m) (Z.of_nat m) z 1)).
  { rewrite <- H1. rewrite <- Eu. reflexivity. }
  clear Eu.
  assert (Ec : IZR (fst (cs_pow ZOps m X Y)) = IZR D ^ m * fst (cs_pow ROps m x y))
    by (change (IZR (fst (cs_pow ZOps m X Y))) with (fst (pmap IZR (cs_pow ZOps m X Y))); now rewrite Ecs).
  assert (Es : IZR (snd (cs_pow ZOps m X Y)) = IZR D ^ m * snd (cs_pow ROps m x y))
    by (change (IZR (snd (cs_pow ZOps m X Y))) with (snd (pmap IZR (cs_pow ZOps m X Y))); now rewrite Ecs).
  rewrite mult_IZR, Ef.
  replace (IZR D ^ l) with (IZR D ^ m * IZR D ^ (l - m)) by (rewrite <- pow_add; f_equal; lia).
  assert (P1 : IZR D ^ m <> 0) by (apply pow_nonzero; lra).
  assert (P2 : IZR D ^ (l - m) <> 0) by (apply pow_nonzero; lra).
  unfold pick. destruct neg; [rewrite Es|rewrite Ec]; field; repeat split; lra.
Qed.
