(* C02 — Legendre polynomials, their derivatives, and the fixed-order recurrence, over R.

   LQ l m z  is defined by Bonnet's recurrence differentiated m times (definitionally for m = 0:
   LQ l 0 = P_l, the Legendre polynomial with P_0 = 1, P_1 = z, (l+1) P_(l+1) = (2l+1) z P_l - l P_(l-1)).
   Proved here, for every l and m:
     LQ_is_derive    : LQ l (m+1) is the derivative of LQ l m, hence LQ l m = d^m/dz^m P_l
     LQ_fixed_order  : (l+1-m) LQ (l+1) m = (2l+1) z LQ l m - (l+m) LQ (l-1) m
     LQ_diag, LQ_above : LQ m m = (2m-1)!!, LQ l m = 0 for m > l
   which is what makes the division-free integer recurrence of C02_model.v correct. *)
From Coq Require Import Reals Lra Lia Arith.
From Coquelicot Require Import Coquelicot.
Open Scope R_scope.

Fixpoint LQ (l : nat) (m : nat) (z : R) {struct l} : R :=
  match l with
  | O => match m with O => 1 | _ => 0 end
  | S k =>
      match k with
      | O => match m with O => z | S O => 1 | _ => 0 end
      | S j => ((2 * INR k + 1) * (z * LQ k m z + INR m * LQ k (pred m) z) - INR k * LQ j m z) / INR (S k)
      end
  end.

(* the Legendre polynomial itself *)
Definition Legendre (l : nat) (z : R) : R := LQ l 0 z.

Lemma LQ_SS j m z :
  LQ (S (S j)) m z =
  ((2 * INR (S j) + 1) * (z * LQ (S j) m z + INR m * LQ (S j) (pred m) z) - INR (S j) * LQ j m z) / INR (S (S j)).
Proof. reflexivity. Qed.

Lemma Legendre_0 z : Legendre 0 z = 1.
Proof. reflexivity. Qed.
Lemma Legendre_1 z : Legendre 1 z = z.
Proof. reflexivity. Qed.
(* Bonnet's recurrence *)
Lemma Legendre_bonnet l z :
  INR (S (S l)) * Legendre (S (S l)) z = (2 * INR (S l) + 1) * z * Legendre (S l) z - INR (S l) * Legendre l z.
Proof.
  unfold Legendre. rewrite LQ_SS. cbn [pred]. change (INR 0) with 0.
  assert (H : INR (S (S l)) <> 0) by (apply not_0_INR; discriminate).
  field. exact H.
Qed.

(* uniform one-step unfolding, valid for l >= 1 (for l = 1 the LQ (l-2) term has coefficient 0) *)
Lemma LQ_step k m z :
  INR (S k) * LQ (S k) m z =
  (2 * INR k + 1) * (z * LQ k m z + INR m * LQ k (pred m) z) - INR k * LQ (pred k) m z.
Proof.
  destruct k as [|j].
  - change (INR 0) with 0. change (INR 1) with 1. cbn [LQ pred].
    destruct m as [|[|m']]; cbn [pred].
    + change (INR 0) with 0. ring.
    + change (INR 1) with 1. ring.
    + destruct m'; ring.
  - rewrite LQ_SS. cbn [pred].
    assert (H : INR (S (S j)) <> 0) by (apply not_0_INR; discriminate).
    field. exact H.
Qed.

(* ------------------------------------------------------------------ derivative *)
Lemma step_derive (q1 q2 q3 : R -> R) (a b c mm d1 d2 d3 z : R) :
  c <> 0 -> is_derive q1 z d1 -> is_derive q2 z d2 -> is_derive q3 z d3 ->
  is_derive (fun t => (a * (t * q1 t + mm * q2 t) - b * q3 t) / c) z
            ((a * (q1 z + z * d1 + mm * d2) - b * d3) / c).
Proof.
  intros Hc D1 D2 D3.
  auto_derive.
  { repeat split; try (eexists; eassumption); auto. }
  replace (Derive (fun x : R => q1 x) z) with d1 by (symmetry; apply is_derive_unique; exact D1).
  replace (Derive (fun x : R => q2 x) z) with d2 by (symmetry; apply is_derive_unique; exact D2).
  replace (Derive (fun x : R => q3 x) z) with d3 by (symmetry; apply is_derive_unique; exact D3).
  field. exact Hc.
Qed.

Lemma is_derive_ext_val (f : R -> R) (z d d' : R) : is_derive f z d -> @eq R d d' -> is_derive f z d'.
Proof. intros H <-. exact H. Qed.

Lemma LQ_is_derive l : forall m (z : R), is_derive (fun t => LQ l m t) z (LQ l (S m) z).
Proof.
  enough (H : (forall m (z : R), is_derive (fun t => LQ l m t) z (LQ l (S m) z)) /\
              (forall m (z : R), is_derive (fun t => LQ (S l) m t) z (LQ (S l) (S m) z))) by apply H.
  induction l as [|l [IH0 IH1]].
  - split; intros m z.
    + cbn [LQ]. destruct m; apply (is_derive_const (V := R_NormedModule)).
    + cbn [LQ]. destruct m as [|[|m']].
      * apply (is_derive_id z).
      * apply (is_derive_const (V := R_NormedModule)).
      * apply (is_derive_const (V := R_NormedModule)).
  - split; [exact IH1|]. intros m z.
    apply (is_derive_ext (fun t =>
      ((2 * INR (S l) + 1) * (t * LQ (S l) m t + INR m * LQ (S l) (pred m) t) - INR (S l) * LQ l m t) / INR (S (S l)))).
    { intros t. rewrite LQ_SS. reflexivity. }
    assert (Hn : INR (S (S l)) <> 0) by (apply not_0_INR; discriminate).
    pose proof (IH1 m z) as D1. pose proof (IH1 (pred m) z) as D2. pose proof (IH0 m z) as D3.
    pose proof (step_derive (fun t => LQ (S l) m t) (fun t => LQ (S l) (pred m) t) (fun t => LQ l m t)
                  (2 * INR (S l) + 1) (INR (S l)) (INR (S (S l))) (INR m) _ _ _ z Hn D1 D2 D3) as D.
    eapply is_derive_ext_val; [exact D|]. clear D D1 D2 D3.
    rewrite (LQ_SS l (S m) z). cbn [pred].
    destruct m as [|m'].
    + cbn [pred]. change (INR 0) with 0. change (INR 1) with 1. field. exact Hn.
    + cbn [pred]. rewrite (S_INR (S m')). field. exact Hn.
Qed.

Lemma LQ_Derive_n l m z : Derive_n (Legendre l) m z = LQ l m z.
Proof.
  revert z. induction m as [|m IH]; intros z.
  - reflexivity.
  - cbn [Derive_n]. rewrite (Derive_ext _ (fun t => LQ l m t)) by exact IH.
    apply is_derive_unique. apply LQ_is_derive.
Qed.

(* ------------------------------------------------------------------ pure algebra used below *)
Lemma algA (n m z X1 X2 X3 X4 : R) :
  n + 1 <> 0 ->
  (n + 1) * X1 = (2 * n + 1) * (z * X2 + (m + 1) * X3) - n * X4 ->
  z * X2 - X4 = (n - m) * X3 ->
  X1 - X4 = (2 * n + 1) * X3.
Proof.
  intros Hn St B. apply Rmult_eq_reg_l with (n + 1); [|exact Hn].
  replace ((n + 1) * (X1 - X4)) with ((n + 1) * X1 - (n + 1) * X4) by ring. rewrite St.
  replace (z * X2) with ((n - m) * X3 + X4) by lra. ring.
Qed.

Lemma algF (n m z Y1 Y2 Y3 Y5 : R) :
  (n + 1) * Y1 = (2 * n + 1) * (z * Y2 + (m + 1) * Y3) - n * Y5 ->
  Y1 - Y5 = (2 * n + 1) * Y3 ->
  (n + 1 - (m + 1)) * Y1 = (2 * n + 1) * z * Y2 - (n + (m + 1)) * Y5.
Proof.
  intros St A.
  replace ((2 * n + 1) * (z * Y2 + (m + 1) * Y3)) with ((2 * n + 1) * z * Y2 + (m + 1) * ((2 * n + 1) * Y3)) in St by ring.
  rewrite <- A in St. lra.
Qed.

Lemma algB (k m z W1 W2 W3 W4 W5 W6 W7 : R) :
  W1 - W5 = (2 * (k + 1) + 1) * W4 ->
  z * W5 - W7 = (k - m) * W6 ->
  W2 - W7 = (2 * k + 1) * W6 ->
  (k + 1 + 1 - m) * W3 = (2 * (k + 1) + 1) * z * W4 - (k + 1 + m) * W6 ->
  z * W1 - W2 = (k + 1 + 1 - m) * W3.
Proof.
  intros A B A' F.
  assert (E : z * W1 = z * W5 + (2 * (k + 1) + 1) * z * W4).
  { replace W1 with (W5 + (2 * (k + 1) + 1) * W4) by lra. ring. }
  lra.
Qed.

(* ------------------------------------------------------------------ the three-term identities *)
Lemma LQ_0_S m z : LQ 0 (S m) z = 0.
Proof. reflexivity. Qed.

(* (B)_n :  z Q_n^(m+1) - Q_(n-1)^(m+1) = (n - m) Q_n^m
   (A)_n :  Q_(n+1)^(m+1) - Q_(n-1)^(m+1) = (2n+1) Q_n^m          (Q_(-1) read as Q_0^(m+1) = 0) *)
Definition idB (n : nat) : Prop :=
  forall m z, z * LQ n (S m) z - LQ (pred n) (S m) z = (INR n - INR m) * LQ n m z.
Definition idA (n : nat) : Prop :=
  forall m z, LQ (S n) (S m) z - LQ (pred n) (S m) z = (2 * INR n + 1) * LQ n m z.

Lemma idA_of_idB n : idB n -> idA n.
Proof.
  intros B m z.
  pose proof (LQ_step n (S m) z) as St. cbn [pred] in St. rewrite !S_INR in St.
  apply (algA (INR n) (INR m) z _ (LQ n (S m) z) _ _).
  - pose proof (pos_INR n). lra.
  - exact St.
  - apply B.
Qed.

(* fixed-order recurrence from (A)_n *)
Lemma LQ_fixed_of_idA n : idA n ->
  forall m z, (INR n + 1 - INR m) * LQ (S n) m z = (2 * INR n + 1) * z * LQ n m z - (INR n + INR m) * LQ (pred n) m z.
Proof.
  intros A m z. destruct m as [|m].
  - pose proof (LQ_step n 0 z) as St. cbn [pred] in St. rewrite S_INR in St. change (INR 0) with 0 in *. lra.
  - pose proof (LQ_step n (S m) z) as St. cbn [pred] in St. rewrite !S_INR in St. rewrite S_INR.
    apply (algF (INR n) (INR m) z _ _ (LQ n m z) _ St). apply A.
Qed.

Lemma idAB n : (idB n /\ idA n) /\ (idB (S n) /\ idA (S n)).
Proof.
  induction n as [|k [[B0 A0] [B1 A1]]].
  - assert (B0 : idB 0).
    { intros m z. cbn [pred]. rewrite !LQ_0_S. change (INR 0) with 0.
      destruct m; cbn [LQ]; [change (INR 0) with 0|]; ring. }
    assert (B1 : idB 1).
    { intros m z. cbn [pred]. rewrite LQ_0_S. change (INR 1) with 1.
      destruct m as [|[|m]]; cbn [LQ].
      - change (INR 0) with 0. ring.
      - change (INR 1) with 1. ring.
      - ring. }
    split; split; auto using idA_of_idB.
  - split; [split; assumption|].
    assert (B2 : idB (S (S k))).
    { intros m z. cbn [pred].
      pose proof (A1 m z) as HA. cbn [pred] in HA.
      pose proof (B0 m z) as HB.
      pose proof (A0 m z) as HA'.
      pose proof (LQ_fixed_of_idA _ A1 m z) as HF. cbn [pred] in HF.
      rewrite !S_INR in *.
      apply (algB (INR k) (INR m) z _ _ _ (LQ (S k) m z) (LQ k (S m) z) (LQ k m z) (LQ (pred k) (S m) z)); assumption. }
    split; auto using idA_of_idB.
Qed.

Theorem LQ_fixed_order n m z :
  (INR n + 1 - INR m) * LQ (S n) m z = (2 * INR n + 1) * z * LQ n m z - (INR n + INR m) * LQ (pred n) m z.
Proof. apply LQ_fixed_of_idA. apply (idAB n). Qed.

Theorem LQ_raise n m z : LQ (S n) (S m) z - LQ (pred n) (S m) z = (2 * INR n + 1) * LQ n m z.
Proof. apply (idAB n). Qed.

(* ------------------------------------------------------------------ vanishing above the diagonal, diagonal value *)
Lemma LQ_above : forall l m z, (l < m)%nat -> LQ l m z = 0.
Proof.
  intros l. induction l as [l IH] using lt_wf_ind. intros m z Hlm.
  destruct l as [|n]; [destruct m; [lia|reflexivity]|].
  destruct m as [|m]; [lia|].
  pose proof (LQ_raise n m z) as E.
  assert (E1 : LQ n m z = 0) by (apply IH; lia).
  assert (E2 : LQ (pred n) (S m) z = 0) by (apply IH; lia).
  rewrite E1, E2 in E. lra.
Qed.

Fixpoint dfact_odd (m : nat) : R :=      (* (2m-1)!! *)
  match m with O => 1 | S k => (2 * INR k + 1) * dfact_odd k end.

Lemma LQ_diag m z : LQ m m z = dfact_odd m.
Proof.
  induction m as [|m IH]; [reflexivity|].
  pose proof (LQ_raise m m z) as E.
  assert (E2 : LQ (pred m) (S m) z = 0) by (apply LQ_above; lia).
  rewrite E2, IH in E. cbn [dfact_odd]. lra.
Qed.

(* ------------------------------------------------------------------ the division-free recurrence
   Uq n m z = (U_(m+n)^m, U_(m+n-1)^m):  U_m^m = 1, U_(m-1)^m = 0,
   U_(l+1)^m = (2l+1) z U_l^m - (l+m)(l-m) U_(l-1)^m   with l = m + n *)
Fixpoint Uq (n m : nat) (z : R) : R * R :=
  match n with
  | O => (1, 0)
  | S k => let u := Uq k m z in
           ((2 * INR (m + k) + 1) * z * fst u - (INR (m + k) + INR m) * (INR (m + k) - INR m) * snd u, fst u)
  end.

Theorem LQ_Uq n m z : INR (fact n) * LQ (m + n) m z = dfact_odd m * fst (Uq n m z).
Proof.
  enough (H : INR (fact n) * LQ (m + n) m z = dfact_odd m * fst (Uq n m z) /\
              INR (fact (S n)) * LQ (m + S n) m z = dfact_odd m * fst (Uq (S n) m z)) by apply H.
  induction n as [|k [IH0 IH1]].
  - assert (E0 : INR (fact 0) * LQ (m + 0) m z = dfact_odd m * fst (Uq 0 m z)).
    { rewrite Nat.add_0_r, LQ_diag. cbn. ring. }
    split; [exact E0|].
    replace (m + 1)%nat with (S m) by lia.
    pose proof (LQ_fixed_order m m z) as F.
    assert (Z0 : (INR m + INR m) * LQ (pred m) m z = 0).
    { destruct m as [|m']; [change (INR 0) with 0; ring|]. rewrite LQ_above by (cbn; lia). ring. }
    rewrite LQ_diag in F. cbn [Uq fst snd fact]. rewrite Nat.add_0_r. change (INR (1 * 1)) with 1. lra.
  - split; [exact IH1|].
    replace (m + S (S k))%nat with (S (m + S k)) by lia.
    pose proof (LQ_fixed_order (m + S k) m z) as F.
    replace (pred (m + S k)) with (m + k)%nat in F by lia.
    cbn [Uq fst snd]. cbn [Uq fst snd] in IH1.
    set (u := Uq k m z) in *.
    assert (Ef : INR (fact (S (S k))) = (INR k + 1 + 1) * INR (fact (S k))).
    { change (fact (S (S k))) with (S (S k) * fact (S k))%nat. rewrite mult_INR, !S_INR. ring. }
    assert (Ef1 : INR (fact (S k)) = (INR k + 1) * INR (fact k)).
    { change (fact (S k)) with (S k * fact k)%nat. rewrite mult_INR, S_INR. ring. }
    replace (m + S k)%nat with (S (m + k)) in * by lia.
    rewrite !S_INR, !plus_INR in *.
    set (L1 := LQ (S (S (m + k))) m z) in *. set (L2 := LQ (S (m + k)) m z) in *. set (L3 := LQ (m + k)%nat m z) in *.
    rewrite Ef.
    replace ((INR k + 1 + 1) * INR (fact (S k)) * L1) with (INR (fact (S k)) * ((INR m + INR k + 1 + 1 - INR m) * L1)) by ring.
    rewrite F.
    replace (INR (fact (S k)) * ((2 * (INR m + INR k + 1) + 1) * z * L2 - (INR m + INR k + 1 + INR m) * L3))
      with ((2 * (INR m + INR k + 1) + 1) * z * (INR (fact (S k)) * L2) - (INR m + INR k + 1 + INR m) * (INR k + 1) * (INR (fact k) * L3))
      by (rewrite Ef1; ring).
    rewrite IH1, IH0. ring.
Qed.
