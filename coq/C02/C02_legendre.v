(* C02 — Legendre polynomials, their derivatives, and the fixed-order recurrence, over R.

   LQ l m z  is defined by Bonnet's recurrence differentiated m times (definitionally for m = 0:
   LQ l 0 = P_l, the Legendre polynomial with P_0 = 1, P_1 = z, (l+1) P_(l+1) = (2l+1) z P_l - l P_(l-1)).
   Proved here, for every l and m:
     LQ_is_derive    : LQ l (m+1) is the derivative of LQ l m, hence LQ l m = d^m/dz^m P_l
     LQ_fixed_order  : (l+1-m) LQ (l+1) m = (2l+1) z LQ l m - (l+m) LQ (l-1) m
     LQ_diag, LQ_above : LQ m m = (2m-1)!!, LQ l m = 0 for m > l
   which is what makes the division-free integer recurrence of C02_model.v correct. *)
From Coq Require Import Reals Lra Lia Arith.
From Coquelicot Require Import Coquelicot.
Open Scope R_scope.

Fixpoint LQ (l : nat) (m : nat) (z : R) {struct l} : R :=
  match l with
  | O => match m with O => 1 | _ => 0 end
  | S k =>
      match k with
      | O => match m with O => z | S O => 1 | _ => 0 end
      | S j => ((2 * INR k + 1) * (z * LQ k m z + INR m * LQ k (pred m) z) - INR k * LQ j m z) / INR (S k)
      end
  end.

(* the Legendre polynomial itself *)
Definition Legendre (l : nat) (z : R) : R := LQ l 0 z.

Lemma LQ_SS j m z :
  LQ (S (S j)) m z =
  ((2 * INR (S j) + 1) * (z * LQ (S j) m z + INR m * LQ (S j) (pred m) z) - INR (S j) * LQ j m z) / INR (S (S j)).
Proof. reflexivity. Qed.

Lemma Legendre_0 z : Legendre 0 z = 1.
Proof. reflexivity. Qed.
Lemma Legendre_1 z : Legendre 1 z = z.
Proof. reflexivity. Qed.
(* Bonnet's recurrence *)
Lemma Legendre_bonnet l z :
  INR (S (S l)) * Legendre (S (S l)) z = (2 * INR (S l) + 1) * z * Legendre (S l) z - INR (S l) * Legendre l z.
Proof.
  unfold Legendre. rewrite LQ_SS. cbn [pred]. change (INR 0) with 0.
  assert (H : INR (S (S l)) <> 0) by (apply not_0_INR; discriminate).
  field. exact H.
Qed.

(* uniform one-step unfolding, valid for l >= 1 (for l = 1 the LQ (l-2) term has coefficient 0) *)
Lemma LQ_step k m z :
  INR (S k) * LQ (S k) m z =
  (2 * INR k + 1) * (z * LQ k m z + INR m * LQ k (pred m) z) - INR k * LQ (pred k) m z.
Proof.
  destruct k as [|j].
  - change (INR 0) with 0. change (INR 1) with 1. cbn [LQ pred].
    destruct m as [|[|m']]; cbn [pred].
    + change (INR 0) with 0. ring.
    + change (INR 1) with 1. ring.
    + destruct m'; ring.
  - rewrite LQ_SS. cbn [pred].
    assert (H : INR (S (S j)) <> 0) by (apply not_0_INR; discriminate).
    field. exact H.
Qed.

(* ------------------------------------------------------------------ derivative *)
Lemma step_derive (q1 q2 q3 : R -> R) (a b c mm d1 d2 d3 z : R) :
  c <> 0 -> is_derive q1 z d1 -> is_derive q2 z d2 -> is_derive q3 z d3 ->
  is_derive (fun t => (a * (t * q1 t + mm * q2 t) - b * q3 t) / c) z
            ((a * (q1 z + z * d1 + mm * d2) - b * d3) / c).
Proof.
  intros Hc D1 D2 D3.
  auto_derive.
  { repeat split; try (eexists; eassumption); auto. }
  replace (Derive (fun x : R => q1 x) z) with d1 by (symmetry; apply is_derive_unique; exact D1).
  replace (Derive (fun x : R => q2 x) z) with d2 by (symmetry; apply is_derive_unique; exact D2).
  replace (Derive (fun x : R => q3 x) z) with d3 by (symmetry; apply is_derive_unique; exact D3).
  field. exact Hc.
Qed.

Lemma is_derive_ext_val (f : R -> R) (z d d' : R) : is_derive f z d -> @eq R d d' -> is_derive f z d'.
Proof. intros H <-. exact H. Qed.

Lemma LQ_is_derive l : forall m (z : R), is_derive (fun t => LQ l m t) z (LQ l (S m) z).
Proof.
  enough (H : (forall m (z : R), is_derive (fun t => LQ l m t) z (LQ l (S m) z)) /\
              (forall m (z : R), is_derive (fun t => LQ (S l) m t) z (LQ (S l) (S m) z))) by apply H.
  induction l as [|l [IH0 IH1]].
  - split; intros m z.
    + cbn [LQ]. destruct m; apply (is_derive_const (V := R_NormedModule)).
    + cbn [LQ]. destruct m as [|[|m']].
      * apply (is_derive_id z).
      * apply (is_derive_const (V := R_NormedModule)).
      * apply (is_derive_const (V := R_NormedModule)).
  - split; [exact IH1|]. intros m z.
    apply (is_derive_ext (fun t =>
      ((2 * INR (S l) + 1) * (t * LQ (S l) m t + INR m * LQ (S l) (pred m) t) - INR (S l) * LQ l m t) / INR (S (S l)))).
    { intros t. rewrite LQ_SS. reflexivity. }
    assert (Hn : INR (S (S l)) <> 0) by (apply not_0_INR; discriminate).
    pose proof (IH1 m z) as D1. pose proof (IH1 (pred m) z) as D2. pose proof (IH0 m z) as D3.
    pose proof (step_derive (fun t => LQ (S l) m t) (fun t => LQ (S l) (pred m) t) (fun t => LQ l m t)
                  (2 * INR (S l) + 1) (INR (S l)) (INR (S (S l))) (INR m) _ _ _ z Hn D1 D2 D3) as D.
    eapply is_derive_ext_val; [exact D|]. clear D D1 D2 D3.
    rewrite (LQ_SS l (S m) z). cbn [pred].
    destruct m as [|m'].
    + cbn [pred]. change (INR 0) with 0. change (INR 1) with 1. field. exact Hn.
    + cbn [pred]. rewrite (S_INR (S m')). field. exact Hn.
Qed.

Lemma LQ_Derive_n l m z : Derive_n (Legendre l) m z = LQ l m z.
Proof.
  revert z. induction m as [|m IH]; intros z.
  - reflexivity.
  - cbn [Derive_n]. rewrite (Derive_ext _ (fun t => LQ l m t)) by exact IH.
    apply is_derive_unique. apply LQ_is_derive.
Qed.
