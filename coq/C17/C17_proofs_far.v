(* C17: far field.  r*V(r) is within an explicit Gaussian-small distance of the total charge Q (1 for the normalised
   densities, the documented constant for the unnormalised ones), hence r*V -> Q as r -> infinity.
   Rests on the exact Gaussian integral of C17_gauss.v (erf_far, erf_lim). *)
From Coq Require Import Reals Lra.
From Coquelicot Require Import Coquelicot.
From P Require Import C17_gen C17_erf C17_gauss C17_proofs.
Open Scope R_scope.

Lemma sq_sqrt_mul a r : 0 < a -> (sqrt a * r) ^ 2 = a * r ^ 2.
Proof. intros Ha. replace ((sqrt a * r) ^ 2) with (sqrt a * sqrt a * r ^ 2) by ring. rewrite sqrt_sqrt; lra. Qed.

Lemma s_far_lemma a r : 0 < a -> 0 < r ->
  Rabs (r * cg_s_main erf a r - 1) <= 4 / PI * exp (- (a * r ^ 2)).
Proof.
  intros Ha Hr. rewrite rV_s.
  assert (Hx : 0 <= sqrt a * r) by (apply Rmult_le_pos; [apply sqrt_pos|lra]).
  destruct (erf_far _ Hx) as [F0 F1]. rewrite (sq_sqrt_mul a r Ha) in F1.
  replace (erf (sqrt a * r) - 1) with (- (1 - erf (sqrt a * r))) by ring.
  rewrite Rabs_Ropp, Rabs_pos_eq; assumption.
Qed.

Lemma s_far_lim_lemma a : 0 < a -> is_lim (fun r => r * cg_s_main erf a r) p_infty 1.
Proof.
  intros Ha. apply (is_lim_ext (fun r => erf (sqrt a * r))); [intros r; symmetry; apply rV_s|].
  apply (is_lim_comp erf (fun r => sqrt a * r) p_infty 1 p_infty).
  - apply erf_lim.
  - evar_last. apply is_lim_scal_l. apply is_lim_id. simpl.
    destruct (Rle_dec 0 (sqrt a)) as [H|H]; [|exfalso; apply H, sqrt_pos].
    destruct (Rle_lt_or_eq_dec 0 (sqrt a) H) as [_|E]; [reflexivity|].
    exfalso. pose proof (sqrt_lt_R0 a Ha). lra.
  - exists 0. intros y _ E; discriminate E.
Qed.

Lemma s_far_unnorm_lemma a r : 0 < a -> 0 < r ->
  Rabs (r * cg_s_main_unnorm erf a r - Rpower (PI / a) (3 / 2)) <= Rpower (PI / a) (3 / 2) * (4 / PI * exp (- (a * r ^ 2))).
Proof.
  intros Ha Hr. destruct (s_unnorm_lemma a r) as [-> _].
  set (Q := Rpower (PI / a) (3 / 2)). assert (HQ : 0 < Q) by apply exp_pos.
  replace (r * (Q * cg_s_main erf a r) - Q) with (Q * (r * cg_s_main erf a r - 1)) by ring.
  rewrite Rabs_mult, (Rabs_pos_eq Q); [|lra]. apply Rmult_le_compat_l; [lra|]. apply s_far_lemma; assumption.
Qed.

(* p type: the Gaussian tail term K e^(-a r^2) of the generated formula (whatever its rational coefficient c, |c| <= 2) is negligible too *)
Lemma p_far_lemma a r : 0 < a -> 0 < r ->
  Rabs (r * cg_p_main erf a r - 1) <= (4 / PI + 2 * sqrt a * r) * exp (- (a * r ^ 2)).
Proof.
  intros Ha Hr.
  assert (PsP : 1 < sqrt PI).
  { rewrite <- sqrt_1. apply sqrt_lt_1; [lra|apply Rlt_le, PI_RGT_0|]. pose proof PI2_3_2. unfold PI2 in *. lra. }
  assert (Psa : 0 < sqrt a) by (apply sqrt_lt_R0; lra).
  set (E := exp (- (a * r ^ 2))). assert (HE : 0 < E) by apply exp_pos.
  replace (r * cg_p_main erf a r - 1) with ((r * cg_s_main erf a r - 1) + r * (cg_p_main erf a r - cg_s_main erf a r)) by ring.
  eapply Rle_trans; [apply Rabs_triang|].
  replace ((4 / PI + 2 * sqrt a * r) * E) with (4 / PI * E + 2 * sqrt a * r * E) by ring.
  apply Rplus_le_compat; [apply s_far_lemma; assumption|].
  unfold cg_p_main, cg_s_main.
  (* whatever the rational coefficient c of the generated tail term c * (sqrt a / sqrt pi) * e^(-a r^2) is, |c| <= 2 suffices *)
  repeat match goal with |- context [exp ?z] => replace (exp z) with E by (unfold E; f_equal; ring) end.
  set (K := sqrt a / sqrt PI).
  assert (HK : 0 < K < sqrt a).
  { unfold K. split; [apply Rdiv_lt_0_compat; lra|]. apply Rmult_lt_reg_r with (sqrt PI); [lra|]. unfold Rdiv. rewrite Rmult_assoc, Rinv_l; nra. }
  assert (HrE : 0 < r * E) by (apply Rmult_lt_0_compat; lra).
  assert (H1 : 0 < r * E * K) by (apply Rmult_lt_0_compat; lra).
  assert (H2 : r * E * K < r * E * sqrt a) by (apply Rmult_lt_compat_l; lra).
  set (A := erf (sqrt a * r) / r).
  apply Rabs_le. split; nra.
Qed.

(* unnormalised p type: total charge 3/2 pi^(3/2) / a^(5/2) (the documented constant factor) *)
Lemma p_far_unnorm_lemma a r : 0 < a -> 0 < r ->
  let Q := 3 / 2 * Rpower PI (3 / 2) / Rpower a (5 / 2) in
  Rabs (r * cg_p_main_unnorm erf a r - Q) <= Q * ((4 / PI + 2 * sqrt a * r) * exp (- (a * r ^ 2))).
Proof.
  intros Ha Hr Q.
  assert (HQ : 0 < Q).
  { unfold Q. apply Rdiv_lt_0_compat; [|apply exp_pos]. apply Rmult_lt_0_compat; [lra|apply exp_pos]. }
  assert (E : cg_p_main_unnorm erf a r = Q * cg_p_main erf a r) by reflexivity.
  rewrite E.
  replace (r * (Q * cg_p_main erf a r) - Q) with (Q * (r * cg_p_main erf a r - 1)) by ring.
  rewrite Rabs_mult, (Rabs_pos_eq Q); [|lra]. apply Rmult_le_compat_l; [lra|]. apply p_far_lemma; assumption.
Qed.
