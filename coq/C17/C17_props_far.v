(* C17 property theorems (statements only): far field, r*V(r) -> total charge. *)
From Coq Require Import Reals.
From Coquelicot Require Import Coquelicot.
From P Require Import C17_gen C17_erf C17_gauss C17_proofs C17_proofs_far.
Open Scope R_scope.

(* erf, DEFINED as 2/sqrt(pi) int_0^x e^(-t^2) dt, tends to 1 (the Gaussian integral is proved, not assumed) *)
Theorem erf_tends_to_one : is_lim erf p_infty 1 /\ forall x, 0 <= x -> 0 <= 1 - erf x <= 4 / PI * exp (- x ^ 2).
Proof. exact (conj erf_lim erf_far). Qed.
Print Assumptions erf_tends_to_one.

(* s type: r*V(r) -> 1 = total charge of the normalised density, with an explicit Gaussian bound for every r > 0 *)
Theorem s_far_field : forall a, 0 < a ->
  is_lim (fun r => r * cg_s_main erf a r) p_infty 1 /\
  forall r, 0 < r -> Rabs (r * cg_s_main erf a r - 1) <= 4 / PI * exp (- (a * r ^ 2)).
Proof. intros a Ha. exact (conj (s_far_lim_lemma a Ha) (fun r Hr => s_far_lemma a r Ha Hr)). Qed.
Print Assumptions s_far_field.

(* unnormalised s type: total charge (pi/a)^(3/2) *)
Theorem s_far_field_unnormalised : forall a r, 0 < a -> 0 < r ->
  Rabs (r * cg_s_main_unnorm erf a r - Rpower (PI / a) (3 / 2)) <= Rpower (PI / a) (3 / 2) * (4 / PI * exp (- (a * r ^ 2))).
Proof. exact s_far_unnorm_lemma. Qed.
Print Assumptions s_far_field_unnormalised.

(* p type: r*V(r) is within (4/pi + 2 sqrt(a) r) e^(-a r^2) of 1 for every r > 0 *)
Theorem p_far_field : forall a r, 0 < a -> 0 < r ->
  Rabs (r * cg_p_main erf a r - 1) <= (4 / PI + 2 * sqrt a * r) * exp (- (a * r ^ 2)).
Proof. exact p_far_lemma. Qed.
Print Assumptions p_far_field.

(* unnormalised p type: total charge 3/2 pi^(3/2) / a^(5/2) *)
Theorem p_far_field_unnormalised : forall a r, 0 < a -> 0 < r ->
  let Q := 3 / 2 * Rpower PI (3 / 2) / Rpower a (5 / 2) in
  Rabs (r * cg_p_main_unnorm erf a r - Q) <= Q * ((4 / PI + 2 * sqrt a * r) * exp (- (a * r ^ 2))).
Proof. exact p_far_unnorm_lemma. Qed.
Print Assumptions p_far_field_unnormalised.
