(* C17: closed-form Coulomb potentials.  Works on the terms regenerated from src/grid/coulomb.py (C17_gen.v).
   The first derivative of r*V(r) is COMPUTED by auto_derive into an existential (no formula is typed by hand),
   so the proofs do not depend on the syntactic shape of the generated terms. *)
From Coq Require Import Reals Lra.
From Coquelicot Require Import Coquelicot.
From P Require Import C17_gen C17_erf.
Open Scope R_scope.

(* documented charge densities *)
Definition rho_s (a r : R) : R := (a / PI) * sqrt (a / PI) * exp (- a * r ^ 2).                    (* (a/pi)^(3/2) e^(-a r^2) *)
Definition rho_p (a r : R) : R := 2 / 3 * (a ^ 2 * sqrt a) / (PI * sqrt PI) * r ^ 2 * exp (- a * r ^ 2).  (* 2/3 a^(5/2)/pi^(3/2) r^2 e^(-a r^2) *)

Lemma rho_s_doc a : 0 < a -> (a / PI) * sqrt (a / PI) = Rpower (a / PI) (3 / 2).
Proof.
  intros Ha. assert (H : 0 < a / PI) by (apply Rdiv_lt_0_compat; [lra|apply PI_RGT_0]).
  replace (3 / 2) with (1 + / 2) by field. rewrite Rpower_plus, Rpower_1, Rpower_sqrt; auto.
Qed.

Lemma exp_sq a r : 0 < a -> exp (- (sqrt a * r * (sqrt a * r * 1))) = exp (- a * r ^ 2).
Proof. intros Ha. f_equal. replace (sqrt a * r * (sqrt a * r * 1)) with (sqrt a * sqrt a * r ^ 2) by ring.
  rewrite sqrt_sqrt; [ring|lra]. Qed.

Ltac poisson_finish a r Ha :=
  rewrite ?(exp_sq a r Ha); rewrite ?sqrt_div_alt; [|apply PI_RGT_0 ..];
  replace (- a * (r * (r * 1))) with (- a * r ^ 2) by ring;
  let HsP := fresh "HsP" in let Hsa := fresh "Hsa" in let PsP := fresh "PsP" in let Psa := fresh "Psa" in
  assert (HsP : sqrt PI * sqrt PI = PI) by (apply sqrt_sqrt, Rlt_le, PI_RGT_0);
  assert (Hsa : sqrt a * sqrt a = a) by (apply sqrt_sqrt; lra);
  assert (PsP : 0 < sqrt PI) by (apply sqrt_lt_R0, PI_RGT_0);
  assert (Psa : 0 < sqrt a) by (apply sqrt_lt_R0; lra);
  set (E := exp (- a * r ^ 2)) in *;
  set (J := RInt (fun x : R => exp (- (x * (x * 1)))) 0 (sqrt a * r)) in *;
  set (sP := sqrt PI) in *; set (sa := sqrt a) in *;
  rewrite <- ?HsP; rewrite <- ?Hsa; field; repeat split; lra.

Ltac d1_sig := eexists; intros a t Ha Ht; unfold cg_s_main, cg_p_main, cg_s_main_unnorm, cg_p_main_unnorm, erf; auto_derive;
  [ destruct (gauss_side a t) as [G1 G2]; repeat split; try assumption; lra | reflexivity ].

(* ---------------- s type ---------------- *)
Lemma s_d1_sig : {D1 : R -> R -> R | forall a t, 0 < a -> 0 < t -> is_derive (fun s => s * cg_s_main erf a s) t (D1 a t)}.
Proof. d1_sig. Defined.
Definition s_D1 := proj1_sig s_d1_sig.

Lemma s_poisson_lemma a r : 0 < a -> 0 < r ->
  (forall t, 0 < t -> is_derive (fun s => s * cg_s_main erf a s) t (s_D1 a t)) /\
  is_derive (s_D1 a) r (-4 * PI * r * rho_s a r).
Proof.
  intros Ha Hr. split; [intros t Ht; exact (proj2_sig s_d1_sig a t Ha Ht)|].
  unfold s_D1, rho_s; cbv [proj1_sig s_d1_sig]. auto_derive.
  - destruct (gauss_side a r) as [G1 G2]. repeat split; try assumption; try lra. apply Rgt_not_eq; nra.
  - poisson_finish a r Ha.
Qed.

(* the small-r value is the limit of V at 0: it is the derivative at 0 of r*V(r) = erf(sqrt(a) r) (and erf 0 = 0) *)
Lemma rV_s a r : r * cg_s_main erf a r = erf (sqrt a * r).
Proof.
  unfold cg_s_main. destruct (Req_dec r 0) as [->|Hr].
  - rewrite Rmult_0_l, Rmult_0_r, erf_0. reflexivity.
  - field. exact Hr.
Qed.
Lemma s_limit0_lemma a r0 : 0 < a ->
  is_derive (fun r => r * cg_s_main erf a r) 0 (cg_s_small erf a r0) /\ 0 * cg_s_main erf a 0 = 0.
Proof.
  intros Ha. split; [|ring].
  apply (is_derive_ext (fun r => erf (sqrt a * r))); [intros t; symmetry; apply rV_s|].
  unfold cg_s_small. evar_last.
  - apply (is_derive_comp erf (fun r => sqrt a * r) 0).
    + apply is_derive_erf.
    + auto_derive; [exact I|reflexivity].
  - unfold scal; simpl; unfold mult; simpl.
    replace (- (sqrt a * 0 * (sqrt a * 0 * 1))) with 0 by ring. rewrite exp_0.
    field. apply Rgt_not_eq, sqrt_lt_R0, PI_RGT_0.
Qed.

Lemma s_unnorm_lemma a r : cg_s_main_unnorm erf a r = Rpower (PI / a) (3 / 2) * cg_s_main erf a r /\
  cg_s_small_unnorm erf a r = Rpower (PI / a) (3 / 2) * cg_s_small erf a r.
Proof. split; reflexivity. Qed.

(* unnormalised density e^(-a r^2) = (pi/a)^(3/2) * normalised density *)
Lemma s_unnorm_density a r : 0 < a -> Rpower (PI / a) (3 / 2) * rho_s a r = exp (- a * r ^ 2).
Proof.
  intros Ha. unfold rho_s. rewrite (rho_s_doc a Ha).
  rewrite <- Rmult_assoc. rewrite Rpower_mult_distr.
  - replace (PI / a * (a / PI)) with 1 by (field; split; [apply Rgt_not_eq, PI_RGT_0|lra]).
    unfold Rpower. rewrite ln_1, Rmult_0_r, exp_0. ring.
  - apply Rdiv_lt_0_compat; [apply PI_RGT_0|lra].
  - apply Rdiv_lt_0_compat; [lra|apply PI_RGT_0].
Qed.

(* ---------------- p type ---------------- *)
Lemma p_d1_sig : {D1 : R -> R -> R | forall a t, 0 < a -> 0 < t -> is_derive (fun s => s * cg_p_main erf a s) t (D1 a t)}.
Proof. d1_sig. Defined.
Definition p_D1 := proj1_sig p_d1_sig.

Lemma p_unnorm_lemma a r :
  cg_p_main_unnorm erf a r = 3 / 2 * Rpower PI (3 / 2) / Rpower a (5 / 2) * cg_p_main erf a r /\
  cg_p_small_unnorm erf a r = 3 / 2 * Rpower PI (3 / 2) / Rpower a (5 / 2) * cg_p_small erf a r.
Proof. split; reflexivity. Qed.

(* ---------------- superposition ---------------- *)
From Coq Require Import List.
Import ListNotations.
(* coulomb_potential: V starts at 0 and accumulates c * V_s(|p - centre|, alpha) over s functions, then p functions *)
Definition accumulate (V : R -> R -> R) (terms : list (R * R * R)) (v0 : R) : R :=   (* (coefficient, alpha, distance) *)
  fold_left (fun v t => let '(c, al, d) := t in v + c * V al d) terms v0.
Definition potential (Vs Vp : R -> R -> R) (ts tp : list (R * R * R)) : R := accumulate Vp tp (accumulate Vs ts 0).
Definition term_sum (V : R -> R -> R) (terms : list (R * R * R)) : R :=
  fold_right Rplus 0 (map (fun t => let '(c, al, d) := t in c * V al d) terms).
Lemma accumulate_sum V terms v0 : accumulate V terms v0 = v0 + term_sum V terms.
Proof.
  revert v0. induction terms as [|[[c al] d] terms IH]; intros v0; unfold accumulate, term_sum in *; simpl; [ring|].
  rewrite IH. ring.
Qed.
Lemma superposition_lemma Vs Vp ts tp : potential Vs Vp ts tp = term_sum Vs ts + term_sum Vp tp.
Proof. unfold potential. rewrite !accumulate_sum. ring. Qed.

(* ---------------- shipped parameter table ---------------- *)
From Coq Require Import ZArith Bool.
Definition params_okb : bool :=
  forallb (fun e : list (Z * Z) * list (Z * Z) => let (cs, als) := e in
     Nat.eqb (length cs) (length als) && negb (Nat.eqb (length als) 0) &&
     forallb (fun q : Z * Z => (0 <? fst q)%Z && (0 <? snd q)%Z) als) gauss_params.
Lemma params_wellformed_lemma : params_okb = true /\ gauss_params <> [].
Proof. split; [vm_compute; reflexivity|discriminate]. Qed.

Example nonvacuous : 0 < 3 / 2 /\ 0 < 5 / 4.
Proof. lra. Qed.
