(* erf as a definite integral, and its derivative (no oracle needed). *)
From Coq Require Import Reals Lra ssreflect.
From Coquelicot Require Import Coquelicot.
Open Scope R_scope.

Definition erf (x : R) : R := 2 / sqrt PI * RInt (fun t => exp (- t ^ 2)) 0 x.

Lemma erf_0 : erf 0 = 0.
Proof. unfold erf. rewrite RInt_point. unfold zero; simpl. ring. Qed.

Lemma gauss_cont t : continuous (fun t => exp (- t ^ 2)) t.
Proof. apply (ex_derive_continuous (fun t => exp (- t ^ 2))). auto_derive. exact I. Qed.

Lemma is_derive_erf x : is_derive erf x (2 / sqrt PI * exp (- x ^ 2)).
Proof.
  unfold erf.
  apply (is_derive_scal (fun y => RInt (fun t => exp (- t ^ 2)) 0 y) x (2 / sqrt PI) (exp (- x ^ 2))).
  apply (is_derive_RInt (fun t => exp (- t ^ 2)) (fun y => RInt (fun t => exp (- t ^ 2)) 0 y) 0 x).
  - apply filter_forall. intros y. apply: RInt_correct. apply: ex_RInt_continuous. intros z _. apply gauss_cont.
  - apply gauss_cont.
Qed.

Lemma gauss_side a r : ex_RInt (fun x : R => exp (- (x * (x * 1)))) 0 (sqrt a * r) /\
  locally (sqrt a * r) (fun x : R => continuity_pt (fun x0 : R => exp (- (x0 * (x0 * 1)))) x).
Proof.
  split.
  - apply: ex_RInt_continuous. intros z _. apply (ex_derive_continuous (fun t => exp (- (t * (t * 1))))). auto_derive. exact I.
  - apply filter_forall. intros x. apply continuity_pt_filterlim.
    apply (ex_derive_continuous (fun t => exp (- (t * (t * 1))))). auto_derive. exact I.
Qed.

