(* p-type Poisson identity: positive statement (holds iff the code's formula is the potential of the documented density). *)
From Coq Require Import Reals Lra.
From Coquelicot Require Import Coquelicot.
From P Require Import C17_gen C17_erf C17_proofs.
Open Scope R_scope.

Lemma p_poisson_lemma a r : 0 < a -> 0 < r ->
  (forall t, 0 < t -> is_derive (fun s => s * cg_p_main erf a s) t (p_D1 a t)) /\
  is_derive (p_D1 a) r (-4 * PI * r * rho_p a r).
Proof.
  intros Ha Hr. split; [intros t Ht; exact (proj2_sig p_d1_sig a t Ha Ht)|].
  unfold p_D1, rho_p; cbv [proj1_sig p_d1_sig]. auto_derive.
  - destruct (gauss_side a r) as [G1 G2]. repeat split; try assumption; try lra. apply Rgt_not_eq; nra.
  - poisson_finish a r Ha.
Qed.
