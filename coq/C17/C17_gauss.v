(* The Gaussian integral, exactly:  (int_0^x e^(-t^2) dt)^2 + int_0^1 e^(-x^2 (1+t^2)) / (1+t^2) dt = PI/4  for every x,
   hence 0 <= 1 - erf x <= 4/PI * e^(-x^2) for x >= 0 and erf -> 1 at +infinity.  No axiom beyond the reals. *)
From Coq Require Import Reals Lra ssreflect.
From Coquelicot Require Import Coquelicot.
From P Require Import C17_erf.
Open Scope R_scope.

Definition gI (x : R) : R := RInt (fun t => exp (- t ^ 2)) 0 x.
Definition gG (x : R) : R := RInt (fun t => exp (- (x ^ 2 * (1 + t ^ 2))) / (1 + t ^ 2)) 0 1.

Lemma erf_gI x : erf x = 2 / sqrt PI * gI x.
Proof. reflexivity. Qed.

Lemma ex_gI a b : ex_RInt (fun t => exp (- t ^ 2)) a b.
Proof. apply: ex_RInt_continuous. intros z _. apply gauss_cont. Qed.

Lemma is_derive_gI x : is_derive gI x (exp (- x ^ 2)).
Proof.
  unfold gI.
  apply (is_derive_RInt (fun t => exp (- t ^ 2)) (fun y => RInt (fun t => exp (- t ^ 2)) 0 y) 0 x).
  - apply filter_forall. intros y. apply: RInt_correct. apply ex_gI.
  - apply gauss_cont.
Qed.

Lemma cont_exp x : continuity_pt exp x.
Proof. apply derivable_continuous_pt, derivable_pt_exp. Qed.

Lemma one_plus_sq_pos t : 0 < 1 + t * (t * 1).
Proof. nra. Qed.

Ltac c2d := repeat first
  [ apply continuity_2d_pt_mult | apply continuity_2d_pt_plus | apply continuity_2d_pt_opp
  | apply continuity_2d_pt_const | apply continuity_2d_pt_id1 | apply continuity_2d_pt_id2
  | apply continuity_2d_pt_inv | apply (continuity_1d_2d_pt_comp exp); [apply cont_exp|] ].


Lemma gG_deriv_value x :
  RInt (fun x0 : R => - (1 * ((1 + 1) * (x * 1)) * (1 + x0 * (x0 * 1))) * exp (- (x * (x * 1) * (1 + x0 * (x0 * 1)))) * / (1 + x0 * (x0 * 1))) 0 1
  = -2 * exp (- x ^ 2) * gI x.
Proof.
  rewrite (RInt_ext _ (fun t => scal (-2 * exp (- x ^ 2)) (scal x (exp (- (x * t + 0) ^ 2))))).
  - rewrite RInt_scal.
    + rewrite (RInt_comp_lin (fun u => exp (- u ^ 2)) x 0 0 1); [|apply ex_gI].
      unfold gI, scal; simpl; unfold mult; simpl.
      replace (x * 0 + 0) with 0 by ring. replace (x * 1 + 0) with x by ring. reflexivity.
    + apply: ex_RInt_continuous. intros z _. unfold scal; simpl; unfold mult; simpl.
      apply (ex_derive_continuous (fun t => x * exp (- (x * t + 0) ^ 2))). auto_derive. exact I.
  - intros t _. unfold scal; simpl; unfold mult; simpl.
    replace (- (x * (x * 1) * (1 + t * (t * 1)))) with (- (x * (x * 1)) + - ((x * t + 0) * ((x * t + 0) * 1))) by ring.
    rewrite exp_plus. field. apply Rgt_not_eq. nra.
Qed.

Lemma ex_gG_integrand x0 : ex_RInt (fun x1 : R => exp (- (x0 * (x0 * 1) * (1 + x1 * (x1 * 1)))) * / (1 + x1 * (x1 * 1))) 0 1.
Proof.
  apply: ex_RInt_continuous. intros z _.
  apply (ex_derive_continuous (fun x1 => exp (- (x0 * (x0 * 1) * (1 + x1 * (x1 * 1)))) * / (1 + x1 * (x1 * 1)))).
  auto_derive. apply Rgt_not_eq, one_plus_sq_pos.
Qed.

Lemma is_derive_gG x : is_derive gG x (- 2 * exp (- x ^ 2) * gI x).
Proof.
  unfold gG. auto_derive.
  - split; [|split; [|exact I]].
    + apply filter_forall. intros x0. apply ex_gG_integrand.
    + intros t _. c2d. apply Rgt_not_eq, one_plus_sq_pos.
  - apply gG_deriv_value.
Qed.

Definition gF (x : R) : R := gI x ^ 2 + gG x.

Lemma is_derive_gF x : is_derive gF x 0.
Proof.
  unfold gF. evar_last.
  - apply: is_derive_plus; [|apply is_derive_gG].
    apply (is_derive_pow gI 2 x). apply is_derive_gI.
  - unfold plus, scal, one; simpl; unfold mult; simpl. ring.
Qed.

Lemma gF_const x : gF x = gF 0.
Proof.
  destruct (MVT_gen gF 0 x (fun _ => 0)) as [c [_ Hc]].
  - intros y _. apply is_derive_gF.
  - intros y _. apply continuity_pt_filterlim. apply (ex_derive_continuous gF). exists 0. apply is_derive_gF.
  - lra.
Qed.

Lemma gF_0 : gF 0 = PI / 4.
Proof.
  unfold gF, gI. rewrite RInt_point. unfold zero; simpl.
  replace (0 * (0 * 1)) with 0 by ring. rewrite Rplus_0_l.
  rewrite <- atan_1. unfold gG.
  apply is_RInt_unique.
  replace (atan 1) with (minus (atan 1) (atan 0)) by (rewrite atan_0; unfold minus, plus, opp; simpl; ring).
  apply (is_RInt_derive atan (fun t => exp (- (0 ^ 2 * (1 + t ^ 2))) / (1 + t ^ 2))).
  - intros t _. evar_last. apply is_derive_atan.
    replace (- (0 ^ 2 * (1 + t ^ 2))) with 0 by ring. rewrite exp_0. unfold Rsqr. field. nra.
  - intros t _. apply (ex_derive_continuous (fun t => exp (- (0 ^ 2 * (1 + t ^ 2))) / (1 + t ^ 2))). auto_derive. nra.
Qed.


Lemma ex_gG x : ex_RInt (fun t => exp (- (x ^ 2 * (1 + t ^ 2))) / (1 + t ^ 2)) 0 1.
Proof.
  apply: ex_RInt_continuous. intros z _.
  apply (ex_derive_continuous (fun t => exp (- (x ^ 2 * (1 + t ^ 2))) / (1 + t ^ 2))). auto_derive. nra.
Qed.

Lemma gG_bounds x : 0 <= gG x <= exp (- x ^ 2).
Proof.
  unfold gG. split.
  - apply RInt_ge_0; [lra|apply ex_gG|]. intros t _.
    apply Rlt_le, Rdiv_lt_0_compat; [apply exp_pos|nra].
  - replace (exp (- x ^ 2)) with (RInt (fun _ => exp (- x ^ 2)) 0 1)
      by (rewrite RInt_const; unfold scal; simpl; unfold mult; simpl; ring).
    apply RInt_le; [lra|apply ex_gG|apply ex_RInt_const|]. intros t _.
    assert (H1 : exp (- (x ^ 2 * (1 + t ^ 2))) <= exp (- x ^ 2)).
    { destruct (Req_dec (x ^ 2 * (1 + t ^ 2)) (x ^ 2)) as [->|Hne]; [lra|].
      apply Rlt_le, exp_increasing. nra. }
    assert (H2 : 0 < exp (- (x ^ 2 * (1 + t ^ 2)))) by apply exp_pos.
    apply (Rle_trans _ (exp (- (x ^ 2 * (1 + t ^ 2))) / 1)); [|lra].
    unfold Rdiv. apply Rmult_le_compat_l; [lra|]. apply Rinv_le_contravar; nra.
Qed.

Lemma gI_sq x : gI x ^ 2 = PI / 4 - gG x.
Proof. generalize (gF_const x). rewrite gF_0. unfold gF. lra. Qed.

Lemma gI_nonneg x : 0 <= x -> 0 <= gI x.
Proof. intros Hx. apply RInt_ge_0; [exact Hx|apply ex_gI|]. intros t _. apply Rlt_le, exp_pos. Qed.

Lemma erf_sq x : erf x ^ 2 = 1 - 4 / PI * gG x.
Proof.
  rewrite erf_gI. replace ((2 / sqrt PI * gI x) ^ 2) with (4 / (sqrt PI * sqrt PI) * gI x ^ 2).
  - rewrite sqrt_sqrt; [|apply Rlt_le, PI_RGT_0]. rewrite gI_sq. field. apply Rgt_not_eq, PI_RGT_0.
  - field. apply Rgt_not_eq, sqrt_lt_R0, PI_RGT_0.
Qed.

Lemma erf_nonneg x : 0 <= x -> 0 <= erf x.
Proof.
  intros Hx. rewrite erf_gI. apply Rmult_le_pos; [|apply gI_nonneg, Hx].
  apply Rlt_le, Rdiv_lt_0_compat; [lra|apply sqrt_lt_R0, PI_RGT_0].
Qed.

(* the far-field bound: for x >= 0, erf x is within 4/PI e^(-x^2) below 1 *)
Lemma erf_far x : 0 <= x -> 0 <= 1 - erf x <= 4 / PI * exp (- x ^ 2).
Proof.
  intros Hx. pose proof (erf_sq x) as Hs. pose proof (gG_bounds x) as [G0 G1]. pose proof (erf_nonneg x Hx) as E0.
  assert (P4 : 0 < 4 / PI) by (apply Rdiv_lt_0_compat; [lra|apply PI_RGT_0]).
  assert (Hq : 0 <= 4 / PI * gG x <= 4 / PI * exp (- x ^ 2)) by (split; nra).
  assert (E1 : erf x <= 1) by nra.
  split; [lra|]. nra.
Qed.

Lemma erf_lim : is_lim erf p_infty 1.
Proof.
  apply is_lim_spec. intros eps. simpl.
  (* choose M with 4/PI * exp(-M^2) < eps: M >= 1 and exp(-M) small *)
  assert (P4 : 0 < 4 / PI) by (apply Rdiv_lt_0_compat; [lra|apply PI_RGT_0]).
  assert (Hl : is_lim (fun x => 4 / PI * exp (- x)) p_infty 0).
  { evar_last. apply is_lim_scal_l. apply (is_lim_comp exp (fun x => - x) p_infty 0 m_infty).
    - apply is_lim_exp_m.
    - evar_last. apply is_lim_opp. apply is_lim_id. reflexivity.
    - exists 0. intros y _ H; discriminate H.
    - simpl. f_equal. ring. }
  apply is_lim_spec in Hl. destruct (Hl eps) as [M HM]. simpl in HM.
  exists (Rmax M 1). intros x Hx.
  assert (x1 : 1 < x) by (apply Rle_lt_trans with (2 := Hx), Rmax_r).
  assert (xM : M < x) by (apply Rle_lt_trans with (2 := Hx), Rmax_l).
  destruct (erf_far x) as [F0 F1]; [lra|].
  specialize (HM x xM). rewrite Rminus_0_r in HM. rewrite Rabs_pos_eq in HM; [|apply Rlt_le, Rmult_lt_0_compat; [exact P4|apply exp_pos]].
  replace (erf x - 1) with (- (1 - erf x)) by ring. rewrite Rabs_Ropp. rewrite Rabs_pos_eq; [|exact F0].
  apply Rle_lt_trans with (1 := F1). apply Rle_lt_trans with (2 := HM).
  apply Rmult_le_compat_l; [lra|]. 
  destruct (Req_dec (x ^ 2) x) as [e|ne]; [rewrite e; lra|]. apply Rlt_le, exp_increasing. nra.
Qed.
