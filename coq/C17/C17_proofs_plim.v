From Coq Require Import Reals Lra.
From Coquelicot Require Import Coquelicot.
From P Require Import C17_gen C17_erf C17_proofs.
Open Scope R_scope.

Lemma rV_split a (G : R -> R) t : erf (sqrt a * t) + t * G t = t * (erf (sqrt a * t) / t + G t).
Proof.
  destruct (Req_dec t 0) as [->|Ht].
  - rewrite !Rmult_0_r, erf_0, !Rmult_0_l, Rplus_0_r. reflexivity.
  - field. exact Ht.
Qed.

(* the small-r value of the p-type function is the limit of its main branch at 0 (derivative at 0 of r*V(r)) *)
Lemma p_limit0_lemma a r0 : 0 < a ->
  is_derive (fun r => r * cg_p_main erf a r) 0 (cg_p_small erf a r0) /\ 0 * cg_p_main erf a 0 = 0.
Proof.
  intros Ha. split; [|ring]. unfold cg_p_main, cg_p_small.
  match goal with |- is_derive (fun r => r * (erf (sqrt a * r) / r + @?G r)) 0 _ =>
    apply (is_derive_ext (fun r => erf (sqrt a * r) + r * G r)); [intros t; exact (rV_split a G t)|] end.
  evar_last.
    - apply (is_derive_plus (fun r => erf (sqrt a * r)) _ 0).
      + apply (is_derive_comp erf (fun r => sqrt a * r) 0); [apply is_derive_erf|auto_derive; [exact I|reflexivity]].
      + auto_derive; [exact I|reflexivity].
    - unfold plus, scal; simpl; unfold mult; simpl.
      replace (- (sqrt a * 0 * (sqrt a * 0 * 1))) with 0 by ring.
      replace (- a * (0 * (0 * 1))) with 0 by ring. rewrite ?exp_0.
      field. apply Rgt_not_eq, sqrt_lt_R0, PI_RGT_0.
Qed.
