(* p type Poisson identity; separate file: fails alone when the p formula is not the documented density's potential. *)
From Coq Require Import Reals.
From Coquelicot Require Import Coquelicot.
From P Require Import C17_gen C17_erf C17_proofs C17_proofs_p.
Open Scope R_scope.

Theorem p_poisson : forall a r, 0 < a -> 0 < r ->
  (forall t, 0 < t -> is_derive (fun s => s * cg_p_main erf a s) t (p_D1 a t)) /\
  is_derive (p_D1 a) r (-4 * PI * r * rho_p a r).
Proof. exact p_poisson_lemma. Qed.
Print Assumptions p_poisson.
