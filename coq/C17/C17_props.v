(* C17 property theorems (statements only). *)
From Coq Require Import Reals List.
From Coquelicot Require Import Coquelicot.
From P Require Import C17_gen C17_erf C17_proofs C17_proofs_plim.
Open Scope R_scope.

(* s type: r*V(r) is twice differentiable on r > 0 and (r V)'' = -4 pi r rho(r), rho = (a/pi)^(3/2) e^(-a r^2), for all a > 0 *)
Theorem s_poisson : forall a r, 0 < a -> 0 < r ->
  (forall t, 0 < t -> is_derive (fun s => s * cg_s_main erf a s) t (s_D1 a t)) /\
  is_derive (s_D1 a) r (-4 * PI * r * rho_s a r).
Proof. exact s_poisson_lemma. Qed.
Print Assumptions s_poisson.

Theorem s_density_documented : forall a, 0 < a -> (a / PI) * sqrt (a / PI) = Rpower (a / PI) (3 / 2).
Proof. exact rho_s_doc. Qed.
Print Assumptions s_density_documented.

(* the value used below the small-r threshold is the limit of V at 0 *)
Theorem s_limit0 : forall a r0, 0 < a ->
  is_derive (fun r => r * cg_s_main erf a r) 0 (cg_s_small erf a r0) /\ 0 * cg_s_main erf a 0 = 0.
Proof. exact s_limit0_lemma. Qed.
Print Assumptions s_limit0.

Theorem p_limit0 : forall a r0, 0 < a ->
  is_derive (fun r => r * cg_p_main erf a r) 0 (cg_p_small erf a r0) /\ 0 * cg_p_main erf a 0 = 0.
Proof. exact p_limit0_lemma. Qed.
Print Assumptions p_limit0.

(* unnormalised variants: documented constant factors, and the factor is the one relating the two densities *)
Theorem s_unnormalised_factor : forall a r,
  cg_s_main_unnorm erf a r = Rpower (PI / a) (3 / 2) * cg_s_main erf a r /\
  cg_s_small_unnorm erf a r = Rpower (PI / a) (3 / 2) * cg_s_small erf a r.
Proof. exact s_unnorm_lemma. Qed.
Print Assumptions s_unnormalised_factor.

Theorem s_unnormalised_density : forall a r, 0 < a -> Rpower (PI / a) (3 / 2) * rho_s a r = exp (- a * r ^ 2).
Proof. exact s_unnorm_density. Qed.
Print Assumptions s_unnormalised_density.

Theorem p_unnormalised_factor : forall a r,
  cg_p_main_unnorm erf a r = 3 / 2 * Rpower PI (3 / 2) / Rpower a (5 / 2) * cg_p_main erf a r /\
  cg_p_small_unnorm erf a r = 3 / 2 * Rpower PI (3 / 2) / Rpower a (5 / 2) * cg_p_small erf a r.
Proof. exact p_unnorm_lemma. Qed.
Print Assumptions p_unnormalised_factor.

(* multi-centre routine = coefficient-weighted sum over all s and p functions *)
Theorem superposition : forall Vs Vp ts tp, potential Vs Vp ts tp = term_sum Vs ts + term_sum Vp tp.
Proof. exact superposition_lemma. Qed.
Print Assumptions superposition.

(* every shipped parameter set: matching non-empty arrays, positive exponents *)
Theorem params_wellformed : params_okb = true /\ gauss_params <> nil.
Proof. exact params_wellformed_lemma. Qed.
Print Assumptions params_wellformed.
