(* Compiled to explain a failure of p_poisson: the generated p-type formula is NOT the potential of the documented density. *)
From Coq Require Import Reals Lra.
From Coquelicot Require Import Coquelicot.
From Interval Require Import Tactic.
From P Require Import C17_gen C17_erf C17_proofs.
Open Scope R_scope.

Lemma p_poisson_refuted_lemma : exists a r, 0 < a /\ 0 < r /\
  ~ exists U1 : R -> R, (forall t, 0 < t -> is_derive (fun s => s * cg_p_main erf a s) t (U1 t)) /\
                        is_derive U1 r (-4 * PI * r * rho_p a r).
Proof.
  exists 1, 1. split; [lra|]. split; [lra|]. intros [U1 [H1 H2]].
  assert (HU : is_derive (p_D1 1) 1 (-4 * PI * 1 * rho_p 1 1)).
  { apply (is_derive_ext_loc U1); [|exact H2].
    exists (mkposreal (1/2) ltac:(lra)). intros t Ht. apply Rabs_lt_between' in Ht. simpl in Ht.
    assert (0 < t) by lra. rewrite <- (is_derive_unique _ _ _ (H1 t H)).
    apply is_derive_unique. exact (proj2_sig p_d1_sig 1 t ltac:(lra) H). }
  revert HU. unfold p_D1, rho_p; cbv [proj1_sig p_d1_sig]. intros HU.
  assert (HD : exists l, is_derive (fun t => proj1_sig p_d1_sig 1 t) 1 l /\ l - (-4 * PI * 1 * rho_p 1 1) <> 0).
  { eexists. split.
    - cbv [proj1_sig p_d1_sig]. auto_derive.
      + destruct (gauss_side 1 1) as [G1 G2]. repeat split; try assumption; try lra.
      + reflexivity.
    - unfold rho_p. rewrite ?sqrt_1.
      generalize (RInt (fun x : R => exp (- (x * (x * 1)))) 0 (1 * 1)). intros J.
      match goal with |- ?e <> 0 => assert (E : e = - 4 * exp (-1) / sqrt PI) end.
      { repeat match goal with |- context [exp ?x] => lazymatch x with (-1) => fail | _ => replace x with (-1) by ring end end.
        assert (HsP : sqrt PI * sqrt PI = PI) by (apply sqrt_sqrt, Rlt_le, PI_RGT_0).
        assert (PsP : 0 < sqrt PI) by (apply sqrt_lt_R0, PI_RGT_0).
        set (sP := sqrt PI) in *. rewrite <- HsP. field. lra. }
      rewrite E. apply Rlt_not_eq. interval. }
  destruct HD as [l [Hl Hne]]. apply Hne.
  cbv [proj1_sig p_d1_sig] in Hl.
  assert (El : l = -4 * PI * 1 * rho_p 1 1).
  { rewrite <- (is_derive_unique _ _ _ Hl). apply is_derive_unique. exact HU. }
  rewrite El. ring.
Qed.
