(* C05 property theorem about the angular degree/size tables regenerated from /repo on every run. *)
From Coq Require Import String List ZArith Bool.
From VLib Require Import Tables.
From P Require Import C05_model C05_gen C05_proofs_tables.
Import ListNotations.

(* the shipped degree/size tables of the four angular methods are ascending, non-empty, mutually inverse *)
Theorem angular_tables_ok : forall m, tables_okb dtab ntab m = true.
Proof. exact gen_tables_ok. Qed.
Print Assumptions angular_tables_ok.

