(* C05 property theorems (statements only; proofs are in C05_proofs.v).
   `o : NumOps T` with `ring_theory ...` = any commutative ring (R is an instance: R_is_ring); theorems without that
   hypothesis hold for any record of operations.  The section variables of the model are universally quantified:
   dtab/ntab = degree/size tables, ang = the unit angular grids, rot = SciPy's Rotation.random(seed).as_matrix().
   A list of resolved shells `sh` = (r_i, w_i, degree_i, sphere_i) is arbitrary: every number of shells, every degree
   sequence, every angular grid. *)
From Coq Require Import String List ZArith Bool Reals Ring_theory Sorted.
From VLib Require Import Tables.
From P Require Import C05_model C05_model_exec C05_proofs.
Import ListNotations.
Local Open Scope nat_scope.

Theorem R_is_ring : ring_theory (zero ROps) (one ROps) (add ROps) (mul ROps) (sub ROps) (opp ROps) eq.
Proof. exact R_ring_lemma. Qed.
Print Assumptions R_is_ring.

(* ---- the constructor builds the grid of the resolved shells: radius and weight of the radial grid, the least
   supported degree not below the request, that degree's angular grid *)
Theorem init_shells : forall (T : Type) (o : NumOps T) dtab ntab (ang : method -> Z -> sphere) (rot : Z -> mat)
  m rg spec c rotate g,
  tables_okb dtab ntab m = true -> rg_wf rg ->
  atomgrid_init o dtab ntab ang rot m rg spec c rotate = Some g ->
  rg_okb o rg = true /\ rot_okb rg rotate = true /\
  exists degs sh, requested ntab m (length (rg_pts rg)) spec = Some degs /\ length degs = length (rg_pts rg) /\
    shells_of dtab ang m rg degs = Some sh /\ g = atomgrid_of o rot m rg c rotate sh /\
    shells_match o dtab ang m rg sh /\
    forall k, k < length sh ->
      angular dtab ang m (nth k degs 0%Z) = Some (sh_deg (nth k sh (shell0 o)), sh_sph (nth k sh (shell0 o))).
Proof. exact @init_shells_lemma. Qed.
Print Assumptions init_shells.

(* ... and it succeeds whenever the radial grid and the seed are valid and the requests resolvable *)
Theorem init_succeeds : forall (T : Type) (o : NumOps T) dtab ntab (ang : method -> Z -> sphere) (rot : Z -> mat)
  m rg spec c rotate degs, rg_wf rg ->
  rg_okb o rg = true -> rot_okb rg rotate = true ->
  requested ntab m (length (rg_pts rg)) spec = Some degs -> length degs = length (rg_pts rg) ->
  (forall d, In d degs -> resolve_degree dtab m d <> None) ->
  exists sh, shells_of dtab ang m rg degs = Some sh /\
             atomgrid_init o dtab ntab ang rot m rg spec c rotate = Some (atomgrid_of o rot m rg c rotate sh).
Proof. exact @init_total. Qed.
Print Assumptions init_succeeds.

(* ---- the shell index table delimits the shells *)
Theorem indices_delimit : forall (T : Type) (o : NumOps T) (rot : Z -> mat) rotate (sh : list shell),
  shells_wf sh ->
  let idx := all_idx sh in
  length idx = S (length sh) /\ nth 0 idx 0%Z = 0%Z /\
  nth (length sh) idx 0%Z = Z.of_nat (length (all_pts o rot rotate sh)) /\
  length (all_pts o rot rotate sh) = length (all_wts o sh) /\
  forall i, i < length sh ->
    (0 <= nth i idx 0)%Z /\
    nth (S i) idx 0%Z = (nth i idx 0 + sh_size (nth i sh (shell0 o)))%Z /\
    slice (all_pts o rot rotate sh) (nth i idx 0%Z) (nth (S i) idx 0%Z) = shell_pts o rot rotate i (nth i sh (shell0 o)) /\
    slice (all_wts o sh) (nth i idx 0%Z) (nth (S i) idx 0%Z) = shell_wts o (nth i sh (shell0 o)).
Proof. exact @indices_delimit_lemma. Qed.
Print Assumptions indices_delimit.

(* ---- point j of shell i is  centre + r_i * (p_j . M_i)  and its weight  w_a * w_i * r_i^2 *)
Theorem shell_points_weights : forall (T : Type) (o : NumOps T) (rot : Z -> mat) m rg center rotate (sh : list shell) i j,
  shells_wf sh -> i < length sh -> j < length (s_pts (sh_sph (nth i sh (shell0 o)))) ->
  let g := atomgrid_of o rot m rg center rotate sh in
  let s := nth i sh (shell0 o) in
  let k := (Z.to_nat (nth i (ag_idx g) 0%Z) + j)%nat in
  k < length (ag_points o g) /\
  nth k (ag_points o g) (zero o, zero o, zero o) =
    vadd o (vscale o (rot_shell o rot rotate i (nth j (s_pts (sh_sph s)) (zero o, zero o, zero o))) (sh_r s)) center /\
  nth k (ag_wts g) (zero o) = mul o (mul o (nth j (s_wts (sh_sph s)) (zero o)) (sh_w s)) (mul o (sh_r s) (sh_r s)).
Proof. exact @shell_points_weights_lemma. Qed.
Print Assumptions shell_points_weights.

(* ---- for an integrand g(r) * A(direction) the grid sum is  sum_i w_i r_i^2 g(r_i) * sum_a w_a A(a . M_i) *)
Theorem factorise : forall (T : Type) (o : NumOps T),
  ring_theory (zero o) (one o) (add o) (mul o) (sub o) (opp o) eq ->
  forall (rot : Z -> mat) m rg center rotate (sh : list shell) (F : vec -> T) (g : T -> T) (A : vec -> T),
  shells_wf sh ->
  (forall i s p, nth_error sh i = Some s -> In p (s_pts (sh_sph s)) ->
     F (vadd o (vscale o (rot_shell o rot rotate i p) (sh_r s)) center) =
     mul o (g (sh_r s)) (A (rot_shell o rot rotate i p))) ->
  let G := atomgrid_of o rot m rg center rotate sh in
  integrate o G (map F (ag_points o G)) = radial_sum o rot rotate 0 sh g A.
Proof. exact @factorise_lemma. Qed.
Print Assumptions factorise.

(* ---- rot_orth: an orthogonal matrix keeps |p|; scaling by r multiplies |.|^2 by r^2; so a shell's points lie at
   squared distance r_i^2 |p|^2 from the centre, with and without rotation, for every seed *)
Theorem rotation_keeps_radii : forall (T : Type) (o : NumOps T),
  ring_theory (zero o) (one o) (add o) (mul o) (sub o) (opp o) eq ->
  forall (rot : Z -> mat), (forall seed, orthogonal o (rot seed)) ->
  (forall M p, orthogonal o M -> normsq o (vecmat o p M) = normsq o p) /\
  (forall rotate i (s : shell),
     map (normsq o) (shell_pts o rot rotate i s) =
     map (fun p => mul o (mul o (sh_r s) (sh_r s)) (normsq o p)) (s_pts (sh_sph s))) /\
  (forall rotate rotate' (sh : list shell),
     map (normsq o) (all_pts o rot rotate sh) = map (normsq o) (all_pts o rot rotate' sh)).
Proof. exact @rotation_keeps_radii_full. Qed.
Print Assumptions rotation_keeps_radii.

(* at the reals: a unit direction rotated and scaled by r >= 0 lies at distance r *)
Theorem radius_R : forall (M : mat) (p : vec) (r : R),
  orthogonal ROps M -> normsq ROps p = 1%R -> (0 <= r)%R ->
  sqrt (normsq ROps (vscale ROps (vecmat ROps p M) r)) = r /\ sqrt (normsq ROps (vscale ROps p r)) = r.
Proof. exact radius_R_lemma. Qed.
Print Assumptions radius_R.

(* ---- weights, index table, degrees do not depend on seed or centre; the centre-relative points not on the centre *)
Theorem rotation_centre_keep_weights : forall (T : Type) (o : NumOps T) (rot : Z -> mat) m rg c c' r r' (sh : list shell),
  ag_wts (atomgrid_of o rot m rg c r sh) = ag_wts (atomgrid_of o rot m rg c' r' sh) /\
  ag_idx (atomgrid_of o rot m rg c r sh) = ag_idx (atomgrid_of o rot m rg c' r' sh) /\
  ag_degs (atomgrid_of o rot m rg c r sh) = ag_degs (atomgrid_of o rot m rg c' r' sh) /\
  ag_pts0 (atomgrid_of o rot m rg c r sh) = ag_pts0 (atomgrid_of o rot m rg c' r sh).
Proof. exact @rotation_centre_independent. Qed.
Print Assumptions rotation_centre_keep_weights.

(* ---- moving the centre by d translates every point by d *)
Theorem translate : forall (T : Type) (o : NumOps T),
  ring_theory (zero o) (one o) (add o) (mul o) (sub o) (opp o) eq ->
  forall (rot : Z -> mat) m rg c d rotate (sh : list shell),
  ag_points o (atomgrid_of o rot m rg (vadd o c d) rotate sh) =
  map (fun p => vadd o p d) (ag_points o (atomgrid_of o rot m rg c rotate sh)).
Proof. exact @translate_lemma. Qed.
Print Assumptions translate.

(* ---- get_shell_grid(i): exactly shell i's weights (r_sq=True; without r_i^2 for r_sq=False), its points relative
   to the centre, rotated with the same seed + i *)
Theorem shell_grid_consistent : forall (T : Type) (o : NumOps T) dtab (ang : method -> Z -> sphere) (rot : Z -> mat)
  m rg c rotate (sh : list shell) i,
  shells_wf sh -> shells_match o dtab ang m rg sh -> i < length sh ->
  let g := atomgrid_of o rot m rg c rotate sh in
  let a := nth i (ag_idx g) 0%Z in let b := nth (S i) (ag_idx g) 0%Z in
  let r := nth i (rg_pts rg) (zero o) in
  exists sg sg', get_shell_grid o dtab ang rot g (Z.of_nat i) true = Some sg /\
    get_shell_grid o dtab ang rot g (Z.of_nat i) false = Some sg' /\
    s_wts sg = slice (ag_wts g) a b /\
    map (fun p => vadd o p c) (s_pts sg) = slice (ag_points o g) a b /\
    s_pts sg = slice (ag_pts0 g) a b /\
    s_pts sg' = s_pts sg /\
    map (fun w => mul o w (mul o r r)) (s_wts sg') = s_wts sg.
Proof. exact @shell_grid_lemma. Qed.
Print Assumptions shell_grid_consistent.

(* ---- sector lookup: position = #{sectors with r > r_s} never exceeds the number of sectors, so one more degree
   than sectors suffices and every radial point gets one of the given degrees *)
Theorem sector_lookup_in_range : forall (T : Type) (o : NumOps T) (rpts rsec : list T) (dsec : list Z),
  length dsec = S (length rsec) ->
  exists l, find_degrees o rpts rsec dsec = Some l /\ length l = length rpts /\
    forall k, k < length rpts ->
      position o rsec (nth k rpts (zero o)) < length dsec /\
      nth k l 0%Z = nth (position o rsec (nth k rpts (zero o))) dsec 0%Z /\ In (nth k l 0%Z) dsec.
Proof. exact @sector_lookup_lemma. Qed.
Print Assumptions sector_lookup_in_range.

(* with ascending sector radii (at R): sectors below the position lie strictly below r, the others not *)
Theorem sector_position_sorted : forall (rsec : list R) (r : R), StronglySorted Rle rsec ->
  let p := position ROps rsec r in
  (forall j, j < p -> (nth j rsec 0 < r)%R) /\ (forall j, p <= j < length rsec -> (r <= nth j rsec 0)%R).
Proof. exact position_sorted_R_lemma. Qed.
Print Assumptions sector_position_sorted.

(* _generate_degree_from_radius: radial point k gets the resolved degree of sector position(r_k; radius * r_sectors) *)
Theorem pruned_lookup : forall (T : Type) (o : NumOps T) dtab m (rpts : list T) radius rsec dsec l,
  degree_from_radius o dtab m rpts radius rsec dsec = Some l ->
  length dsec = S (length rsec) /\ length l = length rpts /\
  forall k, k < length rpts ->
    let p := position o (map (fun s => mul o s radius) rsec) (nth k rpts (zero o)) in
    p < length dsec /\ exists s', resolve_degree dtab m (nth p dsec 0%Z) = Some (nth k l 0%Z, s').
Proof. exact @pruned_lookup_lemma. Qed.
Print Assumptions pruned_lookup.

(* ---- never coarser: shell k uses the least supported degree not below the request (C12's rule) *)
Theorem never_coarser : forall (T : Type) (o : NumOps T) dtab ntab (ang : method -> Z -> sphere) (rot : Z -> mat)
  m rg spec c rotate g degs, tables_okb dtab ntab m = true -> rg_wf rg ->
  atomgrid_init o dtab ntab ang rot m rg spec c rotate = Some g ->
  requested ntab m (length (rg_pts rg)) spec = Some degs ->
  length (ag_degs g) = length (rg_pts rg) /\
  forall k, k < length (rg_pts rg) ->
    exists s', In (nth k (ag_degs g) 0%Z, s') (dtab m) /\ (nth k degs 0 <= nth k (ag_degs g) 0)%Z /\
      forall d'' s'', In (d'', s'') (dtab m) -> (nth k degs 0 <= d'')%Z -> (nth k (ag_degs g) 0 <= d'')%Z.
Proof. exact @never_coarser_lemma. Qed.
Print Assumptions never_coarser.

(* size requests: the degree chosen has the least supported size not below the requested size *)
Theorem sizes_never_coarser : forall dtab ntab m sizes ds, tables_okb dtab ntab m = true ->
  convert ntab m sizes = Some ds ->
  length ds = length sizes /\
  forall k, k < length sizes -> exists s', In (nth k ds 0%Z, s') (dtab m) /\ (nth k sizes 0 <= s')%Z /\
    forall d'' s'', In (d'', s'') (dtab m) -> (nth k sizes 0 <= s'')%Z -> (s' <= s'')%Z.
Proof. exact convert_spec. Qed.
Print Assumptions sizes_never_coarser.

(* ---- presets: a tabulated (preset, element) that passes the decidable condition builds for EVERY radial grid (of the
   prescribed size where one is prescribed), centre, seed and method; no shell coarser than tabulated *)
Theorem preset_ok_builds : forall (T : Type) (o : NumOps T) dtab ntab (ang : method -> Z -> sphere) (rot : Z -> mat)
  cfg (tabs : ptables) m preset atnum row rg c rotate,
  tables_okb dtab ntab m = true -> rg_wf rg -> rg_okb o rg = true -> rot_okb rg rotate = true ->
  find_row tabs preset atnum = Some row ->
  preset_okb o dtab ntab cfg tabs m preset atnum row = true ->
  (count_branch cfg preset atnum = true ->
   get_rgrid_size cfg tabs preset atnum = Some (Z.of_nat (length (rg_pts rg)))) ->
  exists g, from_preset o dtab ntab ang rot cfg tabs m atnum preset rg c rotate = Some g /\
    length (ag_degs g) = length (rg_pts rg) /\
    forall k, k < length (rg_pts rg) ->
      exists s', In (nth k (ag_degs g) 0%Z, s') (dtab m) /\
                 (tabulated_size o cfg row preset atnum (rg_pts rg) k <= s')%Z.
Proof. exact @preset_ok_builds_lemma. Qed.
Print Assumptions preset_ok_builds.

(* ---- the two ways a tabulated element cannot be built (whatever the tables and branch constants are, as long as
   they have the stated shape — whether the current source has it is decided on every run) *)
(* a shell-count row [c] / [size] sent down the sector-radius branch: raises for every radial grid reaching beyond r = c *)
Theorem count_row_in_radius_branch_refuted : forall (T : Type) (o : NumOps T) dtab ntab (ang : method -> Z -> sphere)
  (rot : Z -> mat) cfg (tabs : ptables) m preset atnum cnt npt rg c rotate,
  count_branch cfg preset atnum = false ->
  find_row tabs preset atnum = Some (PRow (RadI [cnt]) [npt]) ->
  (exists r, In r (rg_pts rg) /\ ltb o (ofZ o cnt) r = true) ->
  from_preset o dtab ntab ang rot cfg tabs m atnum preset rg c rotate = None.
Proof. exact @count_row_in_radius_branch_lemma. Qed.
Print Assumptions count_row_in_radius_branch_refuted.

(* a shell-count row with a positive count but no size at the same position raises for every radial grid *)
Theorem short_npt_refuted : forall (T : Type) (o : NumOps T) dtab ntab (ang : method -> Z -> sphere) (rot : Z -> mat)
  cfg (tabs : ptables) m preset atnum row rg c rotate,
  count_branch cfg preset atnum = true -> find_row tabs preset atnum = Some row -> sector_sizes row = None ->
  from_preset o dtab ntab ang rot cfg tabs m atnum preset rg c rotate = None.
Proof. exact @short_npt_lemma. Qed.
Print Assumptions short_npt_refuted.

(* ---- the light-weight degrees/indices shadow used for the large preset grids is the model's *)
Theorem light_agrees : forall (T : Type) (o : NumOps T) dtab ntab (ang : method -> Z -> sphere) (rot : Z -> mat)
  m rg spec c rotate g,
  tables_okb dtab ntab m = true -> rg_wf rg ->
  (forall d s, In (d, s) (dtab m) -> Z.of_nat (length (s_pts (ang m d))) = s) ->
  atomgrid_init o dtab ntab ang rot m rg spec c rotate = Some g ->
  light_init dtab ntab m (length (rg_pts rg)) spec = Some (ag_degs g, ag_idx g).
Proof. exact @light_init_agrees. Qed.
Print Assumptions light_agrees.

Theorem light_builds : forall (T : Type) (o : NumOps T) dtab ntab (ang : method -> Z -> sphere) (rot : Z -> mat)
  m rg spec c rotate r, rg_wf rg -> rg_okb o rg = true -> rot_okb rg rotate = true ->
  light_init dtab ntab m (length (rg_pts rg)) spec = Some r ->
  exists g, atomgrid_init o dtab ntab ang rot m rg spec c rotate = Some g.
Proof. exact @light_init_builds. Qed.
Print Assumptions light_builds.
