(* C05 — non-vacuity: the hypotheses of the theorems are satisfiable on non-trivial instances (exact integer data:
   an octahedron and a cube as "angular grids", signed permutation matrices as exactly orthogonal rotations). *)
From Coq Require Import String List ZArith Bool Lia Ring Ring_theory ZArithRing.
From VLib Require Import Tables.
From P Require Import C05_model C05_model_exec C05_proofs.
Import ListNotations.
Open Scope Z_scope.

Definition ZOps : NumOps Z := MkOps Z 0 1 Z.add Z.mul Z.sub Z.opp Z.ltb (fun z => z).
Lemma Z_ring : ring_theory (zero ZOps) (one ZOps) (add ZOps) (mul ZOps) (sub ZOps) (opp ZOps) eq.
Proof. exact InitialRing.Zth. Qed.

Definition ex_dtab (m : method) : table := [(3, 6); (5, 8)].
Definition ex_ntab (m : method) : table := [(6, 3); (8, 5)].
Definition octa : @sphere Z := Sph [(1,0,0);(-1,0,0);(0,1,0);(0,-1,0);(0,0,1);(0,0,-1)] [1;1;1;1;1;1].
Definition cube : @sphere Z :=
  Sph [(1,1,1);(1,1,-1);(1,-1,1);(1,-1,-1);(-1,1,1);(-1,1,-1);(-1,-1,1);(-1,-1,-1)] [3;3;3;3;3;3;3;3].
Definition ex_ang (m : method) (d : Z) : @sphere Z := if d =? 3 then octa else cube.
Definition ex_rot (s : Z) : @mat Z := if Z.even s then ((0,1,0),(-1,0,0),(0,0,1)) else ((0,0,1),(1,0,0),(0,1,0)).
Definition ex_rg : @rgrid Z := RG [0; 1; 2] [1; 1; 3].

Example ex_tables_ok : forall m, tables_okb ex_dtab ex_ntab m = true.
Proof. intros []; reflexivity. Qed.

Example ex_rot_orth : forall s, orthogonal ZOps (ex_rot s).
Proof. intros s. unfold ex_rot. destruct (Z.even s); reflexivity. Qed.

Example ex_ang_wf : forall m d, sph_wf (ex_ang m d).
Proof. intros m d. unfold ex_ang. destruct (d =? 3); reflexivity. Qed.

(* three shells (one at r = 0), requests 3, 4 (resolved to 5) and 0 (resolved to 3), centre (5,0,-1), seed 7 *)
Example ex_init :
  exists g, atomgrid_init ZOps ex_dtab ex_ntab ex_ang ex_rot Lebedev ex_rg (Degrees [3; 4; 0]) (5, 0, -1) 7 = Some g /\
    ag_idx g = [0; 6; 14; 20] /\ ag_degs g = [3; 5; 3] /\
    nth 6 (ag_points ZOps g) (0, 0, 0) = (5 + -1, 0 + 1, -1 + 1) /\ nth 6 (ag_wts g) 0 = 3 /\
    nth 14 (ag_points ZOps g) (0, 0, 0) = (5, 0, -1 + 2) /\ nth 14 (ag_wts g) 0 = 1 * 3 * (2 * 2).
Proof. eexists. split; [vm_compute; reflexivity|]. vm_compute. repeat split. Qed.

(* the hypothesis of `factorise` holds for F(x) = |x - centre|^2 = g(r) * A(direction) with g(r) = r^2, A(q) = |q|^2 *)
Example ex_factorise : forall c rotate (sh : list (@shell Z)), shells_wf sh ->
  let G := atomgrid_of ZOps ex_rot Lebedev ex_rg c rotate sh in
  integrate ZOps G (map (fun x => normsq ZOps (vadd ZOps x (vscale ZOps c (-1)))) (ag_points ZOps G)) =
  radial_sum ZOps ex_rot rotate 0 sh (fun r => r * r) (normsq ZOps).
Proof.
  intros c rotate sh W. apply (factorise_lemma ZOps Z_ring); [exact W|].
  intros i s p _ _. destruct c as [[cx cy] cz]. destruct (rot_shell ZOps ex_rot rotate i p) as [[x y] z].
  unfold normsq, dot, vadd, vscale, vx, vy, vz. cbn [fst snd mul add ZOps]. ring.
Qed.

(* sector lookup: a radius equal to a sector bound stays in the inner sector *)
Example ex_find_degrees : find_degrees ZOps [0; 2; 3; 9] [2; 5] [11; 22; 33] = Some [11; 11; 22; 33].
Proof. reflexivity. Qed.

(* presets: a sector-radius row and a shell-count row, both buildable; a shell-count row in the radius branch and a
   row with fewer sizes than counts, both unbuildable *)
Definition ex_cfg : pcfg := PCfg ["cnt"%string] "mix"%string 19 ["cnt"%string; "mix"%string] "mix"%string None.
Definition ex_tabs : @ptables Z :=
  [("rad"%string, PTab [(1, PRow (RadF [2; 5]) [6; 8; 6])] None);
   ("cnt"%string, PTab [(1, PRow (RadI [2; 1]) [6; 7]); (2, PRow (RadI [1; 1; 1]) [6; 8])] None);
   ("mix"%string, PTab [(19, PRow (RadI [50]) [8]); (20, PRow (RadI [3]) [8])] (Some [3]))].
Example ex_presets_ok :
  preset_okb ZOps ex_dtab ex_ntab ex_cfg ex_tabs Lebedev "rad" 1 (PRow (RadF [2; 5]) [6; 8; 6]) = true /\
  preset_okb ZOps ex_dtab ex_ntab ex_cfg ex_tabs Lebedev "cnt" 1 (PRow (RadI [2; 1]) [6; 7]) = true /\
  preset_okb ZOps ex_dtab ex_ntab ex_cfg ex_tabs Lebedev "mix" 20 (PRow (RadI [3]) [8]) = true /\
  bad_rows ZOps ex_dtab ex_ntab ex_cfg ex_tabs Lebedev = [("cnt"%string, 2); ("mix"%string, 19)] /\
  option_map (fun g => (ag_degs g, ag_idx g))
    (from_preset ZOps ex_dtab ex_ntab ex_ang ex_rot ex_cfg ex_tabs Lebedev 1 "cnt" ex_rg (0, 0, 0) 0)
    = Some ([3; 3; 5], [0; 6; 12; 20]).
Proof. vm_compute. repeat split. Qed.

Example ex_refuted_hyps :
  count_branch ex_cfg "mix" 19 = false /\ find_row ex_tabs "mix"%string 19 = Some (PRow (RadI [50]) [8]) /\
  count_branch ex_cfg "cnt" 2 = true /\ sector_sizes (PRow (T:=Z) (RadI [1; 1; 1]) [6; 8]) = None /\
  from_preset ZOps ex_dtab ex_ntab ex_ang ex_rot ex_cfg ex_tabs Lebedev 19 "mix" (RG [1; 64] [1; 1]) (0, 0, 0) 0 = None /\
  (exists g, from_preset ZOps ex_dtab ex_ntab ex_ang ex_rot ex_cfg ex_tabs Lebedev 19 "mix" (RG [1; 32] [1; 1]) (0, 0, 0) 0 = Some g).
Proof. repeat split; try reflexivity. eexists. vm_compute. reflexivity. Qed.

(* get_shell_grid on the example grid *)
Example ex_shell_grid :
  match atomgrid_init ZOps ex_dtab ex_ntab ex_ang ex_rot Lebedev ex_rg (Degrees [3; 4; 0]) (5, 0, -1) 7 with
  | Some g => option_map (fun s => (s_pts s, s_wts s)) (get_shell_grid ZOps ex_dtab ex_ang ex_rot g 2 true)
              = Some (slice (ag_pts0 g) 14 20, slice (ag_wts g) 14 20) /\
              get_shell_grid ZOps ex_dtab ex_ang ex_rot g 3 true = None /\
              get_shell_grid ZOps ex_dtab ex_ang ex_rot g (-1) true = None
  | None => False
  end.
Proof. vm_compute. repeat split. Qed.
