(* C05 property theorems about the tables regenerated from /repo on every run (proofs in C05_proofs_data.v). *)
From Coq Require Import String List ZArith Bool.
From Bignums Require Import BigQ.
From VLib Require Import Tables.
From P Require Import C05_model C05_model_exec C05_proofs C05_gen C05_proofs_data.
Import ListNotations.
Local Open Scope nat_scope.

(* every tabulated (preset, element), for every angular method, passes the decidable build condition — except the
   listed pair ("sg_3", 14) *)
Theorem presets_bad_rows_listed : forall m,
  forallb (fun pz => pz_mem pz listed_bad) (bad_rows QOps dtab ntab impl_cfg preset_tables m) = true.
Proof. exact bad_rows_listed. Qed.
Print Assumptions presets_bad_rows_listed.

(* hence: every shipped preset builds a grid for every element it tabulates other than that one, for every radial
   grid (of the size the preset prescribes where it prescribes one), centre, rotation seed, angular method, angular
   data and rotation oracle, with no shell coarser than tabulated *)
Theorem presets_build_partial :
  forall (ang : method -> Z -> sphere) (rot : Z -> mat) m preset atnum row rg c rotate,
  find_row preset_tables preset atnum = Some row -> ~ In (preset, atnum) listed_bad ->
  rg_wf rg -> rg_okb QOps rg = true -> rot_okb rg rotate = true ->
  (count_branch impl_cfg preset atnum = true ->
   get_rgrid_size impl_cfg preset_tables preset atnum = Some (Z.of_nat (length (rg_pts rg)))) ->
  exists g, from_preset QOps dtab ntab ang rot impl_cfg preset_tables m atnum preset rg c rotate = Some g /\
    length (ag_degs g) = length (rg_pts rg) /\
    forall k, k < length (rg_pts rg) ->
      exists s', In (nth k (ag_degs g) 0%Z, s') (dtab m) /\
                 (tabulated_size QOps impl_cfg row preset atnum (rg_pts rg) k <= s')%Z.
Proof. exact presets_build_partial_lemma. Qed.
Print Assumptions presets_build_partial.
