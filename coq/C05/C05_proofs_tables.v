(* C05 — the angular degree/size tables regenerated from /repo (C05_gen.v) are well-formed. *)
From Coq Require Import String List ZArith Bool.
From VLib Require Import Tables.
From P Require Import C05_model C05_gen.

Lemma gen_tables_ok : forall m, tables_okb dtab ntab m = true.
Proof. intros []; vm_compute; reflexivity. Qed.
