(* C05 — executable model of grid.atomgrid.AtomGrid (src/grid/atomgrid.py): __init__, _generate_atomic_grid,
   points, get_shell_grid, integrate (basegrid.Grid.integrate), from_pruned, _generate_degree_from_radius,
   _find_degrees_for_radial_points, from_preset (branch logic) and _get_rgrid_size.

   Hand-written, generic in the number type through a record of operations: the theorems (C05_proofs.v /
   C05_props.v) are stated for every commutative ring (so at R), the correspondence with the implementation is
   executed at exact rationals (Bignums.BigQ) by vm_compute.

   Inputs that are data / black boxes for this property:
     * the degree <-> size tables of the angular methods (C05_gen.v, regenerated from angular.py on every run) and
       the resolution rule VLib.Tables.resolve (property C12);
     * the unit angular grids  ang m d  (points and weights of AngularGrid(degree=d, method=m), d supported);
     * the SciPy call  rot s = Rotation.random(random_state=s).as_matrix().
   No proofs in this file. *)
From Coq Require Import String List ZArith Bool.
From VLib Require Import Tables.
Import ListNotations.

Record NumOps (T : Type) := MkOps {
  zero : T; one : T; add : T -> T -> T; mul : T -> T -> T; sub : T -> T -> T; opp : T -> T;
  ltb : T -> T -> bool;      (* x < y *)
  ofZ : Z -> T }.
Arguments zero {T} _.
Arguments one {T} _.
Arguments add {T} _ _ _.
Arguments mul {T} _ _ _.
Arguments sub {T} _ _ _.
Arguments opp {T} _ _.
Arguments ltb {T} _ _ _.
Arguments ofZ {T} _ _.

Inductive method := Lebedev | Spherical | Maxdet | AhrensBeylkin.

(* ------------------------------------------------------------------ list helpers *)
Fixpoint traverse {A B} (f : A -> option B) (l : list A) : option (list B) :=
  match l with
  | [] => Some []
  | x :: t => match f x with
              | None => None
              | Some y => match traverse f t with None => None | Some r => Some (y :: r) end
              end
  end.

Fixpoint count {A} (f : A -> bool) (l : list A) : nat :=
  match l with [] => O | x :: t => (if f x then 1 else 0) + count f t end.

(* [acc; acc+x0; acc+x0+x1; ...] : one more element than the list *)
Fixpoint prefix (acc : Z) (l : list Z) : list Z :=
  acc :: match l with [] => [] | x :: t => prefix (acc + x) t end.

Definition slice {A} (l : list A) (a b : Z) : list A :=               (* l[a:b] for 0 <= a <= b *)
  firstn (Z.to_nat b - Z.to_nat a) (skipn (Z.to_nat a) l).

Fixpoint map2 {A B C} (f : A -> B -> C) (a : list A) (b : list B) : list C :=
  match a, b with x :: r, y :: s => f x y :: map2 f r s | _, _ => [] end.

Fixpoint zmem (x : Z) (l : list Z) : bool := match l with [] => false | y :: t => (x =? y)%Z || zmem x t end.
Fixpoint zdedupe (l : list Z) : list Z :=
  match l with [] => [] | x :: t => if zmem x t then zdedupe t else x :: zdedupe t end.

Definition zsum (l : list Z) : Z := fold_right Z.add 0%Z l.

Section Model.
Context {T : Type} (o : NumOps T).
Local Notation "x + y" := (add o x y).
Local Notation "x * y" := (mul o x y).
Local Notation "0" := (zero o).
Local Notation "1" := (one o).

Definition sum (l : list T) : T := fold_right (add o) 0 l.

(* ------------------------------------------------------------------ 3-vectors and 3x3 matrices *)
Definition vec := (T * T * T)%type.
Definition mat := (vec * vec * vec)%type.                 (* the three ROWS *)
Definition vx (v : vec) : T := fst (fst v).
Definition vy (v : vec) : T := snd (fst v).
Definition vz (v : vec) : T := snd v.
Definition row0 (M : mat) : vec := fst (fst M).
Definition row1 (M : mat) : vec := snd (fst M).
Definition row2 (M : mat) : vec := snd M.
Definition col0 (M : mat) : vec := (vx (row0 M), vx (row1 M), vx (row2 M)).
Definition col1 (M : mat) : vec := (vy (row0 M), vy (row1 M), vy (row2 M)).
Definition col2 (M : mat) : vec := (vz (row0 M), vz (row1 M), vz (row2 M)).
Definition vadd (a b : vec) : vec := (vx a + vx b, vy a + vy b, vz a + vz b).
Definition vscale (p : vec) (r : T) : vec := (vx p * r, vy p * r, vz p * r).         (* points * r *)
Definition dot (a b : vec) : T := vx a * vx b + vy a * vy b + vz a * vz b.
Definition normsq (v : vec) : T := dot v v.
Definition vecmat (p : vec) (M : mat) : vec := (dot p (col0 M), dot p (col1 M), dot p (col2 M)).   (* p @ M *)
Definition transpose (M : mat) : mat := (col0 M, col1 M, col2 M).
Definition matmul (A B : mat) : mat := (vecmat (row0 A) B, vecmat (row1 A) B, vecmat (row2 A) B).
Definition ident : mat := ((1, 0, 0), (0, 1, 0), (0, 0, 1)).
Definition orthogonal (M : mat) : Prop := matmul M (transpose M) = ident.

(* ------------------------------------------------------------------ data of the property *)
Record sphere := Sph { s_pts : list vec; s_wts : list T }.             (* a (scaled) AngularGrid *)
Record rgrid := RG { rg_pts : list T; rg_wts : list T }.               (* OneDGrid *)
Definition sph_wf (s : sphere) : Prop := length (s_pts s) = length (s_wts s).      (* Grid.__init__ *)
Definition rg_wf (g : rgrid) : Prop := length (rg_pts g) = length (rg_wts g).

Variable dtab : method -> table.      (* X_DEGREES : degree -> size *)
Variable ntab : method -> table.      (* X_NPOINTS : size -> degree *)
Variable ang : method -> Z -> sphere. (* unit angular grid of a SUPPORTED degree *)
Variable rot : Z -> mat.              (* Rotation.random(random_state=s).as_matrix() *)

(* AngularGrid._get_degree_and_size: (degree, size) *)
Definition resolve_degree (m : method) (d : Z) : option (Z * Z) := resolve (dtab m) d.
Definition resolve_size (m : method) (s : Z) : option (Z * Z) :=
  match resolve (ntab m) s with Some (s', d') => Some (d', s') | None => None end.
(* AngularGrid.convert_angular_sizes_to_degrees *)
Definition convert (m : method) (sizes : list Z) : option (list Z) :=
  traverse (fun s => option_map fst (resolve_size m s)) sizes.
(* AngularGrid(degree=d, method=m): the degree actually used and the grid *)
Definition angular (m : method) (d : Z) : option (Z * sphere) :=
  match resolve_degree m d with Some (d', _) => Some (d', ang m d') | None => None end.

(* ------------------------------------------------------------------ AtomGrid._generate_atomic_grid *)
(* one resolved shell: radius, radial weight, actual degree, unit angular grid *)
Definition shell := (T * T * Z * sphere)%type.
Definition sh_r (s : shell) : T := fst (fst (fst s)).
Definition sh_w (s : shell) : T := snd (fst (fst s)).
Definition sh_deg (s : shell) : Z := snd (fst s).
Definition sh_sph (s : shell) : sphere := snd s.
Definition sh_size (s : shell) : Z := Z.of_nat (length (s_pts (sh_sph s))).       (* len(points) *)

(* `if rotate != 0: rot_mt = R.random(random_state=rotate + i).as_matrix(); points = points @ rot_mt` *)
Definition rot_shell (rotate : Z) (i : nat) (p : vec) : vec :=
  if (rotate =? 0)%Z then p else vecmat p (rot (rotate + Z.of_nat i)).
(* `points = points * rgrid[i].points` *)
Definition shell_pts (rotate : Z) (i : nat) (s : shell) : list vec :=
  map (fun p => vscale (rot_shell rotate i p) (sh_r s)) (s_pts (sh_sph s)).
(* `weights = weights * rgrid[i].weights * rgrid[i].points ** 2` *)
Definition shell_wts (s : shell) : list T :=
  map (fun wa => (wa * sh_w s) * (sh_r s * sh_r s)) (s_wts (sh_sph s)).

Fixpoint build_pts (rotate : Z) (i : nat) (l : list shell) : list (list vec) :=
  match l with [] => [] | s :: t => shell_pts rotate i s :: build_pts rotate (S i) t end.
Definition all_pts (rotate : Z) (l : list shell) : list vec := concat (build_pts rotate O l).     (* np.vstack *)
Definition all_wts (l : list shell) : list T := concat (map shell_wts l).                        (* np.hstack *)
Definition all_idx (l : list shell) : list Z := prefix 0%Z (map sh_size l).                       (* indices *)

(* the loop head: AngularGrid(degree=deg_i, method=method) for every radial point *)
Definition shells_of (m : method) (rg : rgrid) (degs : list Z) : option (list shell) :=
  traverse (fun rwd => match angular m (snd rwd) with
                       | Some (d', sp) => Some (fst (fst rwd), snd (fst rwd), d', sp)
                       | None => None
                       end)
           (combine (combine (rg_pts rg) (rg_wts rg)) degs).

(* ------------------------------------------------------------------ AtomGrid *)
Record atomgrid := AG {
  ag_rg : rgrid; ag_center : vec; ag_rot : Z; ag_meth : method;
  ag_pts0 : list vec;    (* _points : relative to the centre *)
  ag_wts : list T;       (* weights *)
  ag_idx : list Z;       (* indices *)
  ag_degs : list Z }.    (* degrees *)

Inductive degspec := Degrees (l : list Z) | Sizes (l : list Z).      (* `sizes`, when given, wins *)

(* `if len(degrees) == 1: degrees = np.ones(rgrid.size, dtype=int) * degrees` *)
Definition expand (n : nat) (degs : list Z) : list Z :=
  match degs with [d] => repeat d n | _ => degs end.

(* _input_type_check (the radial part): a non-empty grid of non-negative radii *)
Definition rg_okb (rg : rgrid) : bool :=
  negb (Nat.eqb (length (rg_pts rg)) 0) && forallb (fun r => negb (ltb o r 0)) (rg_pts rg).
(* `0 <= rotate < 2**32 - len(rgrid.points)` *)
Definition rot_okb (rg : rgrid) (rotate : Z) : bool :=
  ((0 <=? rotate) && (rotate <? 2 ^ 32 - Z.of_nat (length (rg_pts rg))))%Z.

Definition atomgrid_of (m : method) (rg : rgrid) (center : vec) (rotate : Z) (sh : list shell) : atomgrid :=
  AG rg center rotate m (all_pts rotate sh) (all_wts sh) (all_idx sh) (map sh_deg sh).

(* AtomGrid(rgrid, degrees, sizes=..., center=..., rotate=..., method=...) ; None = the call raises *)
Definition atomgrid_init (m : method) (rg : rgrid) (spec : degspec) (center : vec) (rotate : Z) : option atomgrid :=
  if negb (rg_okb rg) then None
  else if negb (rot_okb rg rotate) then None
  else match (match spec with Sizes s => convert m s | Degrees d => Some d end) with
       | None => None
       | Some degs0 =>
           let degs := expand (length (rg_pts rg)) degs0 in
           if negb (Nat.eqb (length degs) (length (rg_pts rg))) then None
           else match shells_of m rg degs with
                | None => None
                | Some sh => Some (atomgrid_of m rg center rotate sh)
                end
       end.

(* points property: `self._points + self._center` *)
Definition ag_points (g : atomgrid) : list vec := map (fun p => vadd p (ag_center g)) (ag_pts0 g).

(* Grid.integrate(values) = einsum("i,i", weights, values) *)
Definition integrate (g : atomgrid) (vals : list T) : T := sum (map2 (mul o) (ag_wts g) vals).

(* get_shell_grid(index, r_sq) *)
Definition get_shell_grid (g : atomgrid) (index : Z) (r_sq : bool) : option sphere :=
  if ((0 <=? index) && (index <? Z.of_nat (length (ag_degs g))))%Z then
    let i := Z.to_nat index in
    match angular (ag_meth g) (nth i (ag_degs g) 0%Z) with
    | None => None
    | Some (_, sp) =>
        let r := nth i (rg_pts (ag_rg g)) 0 in
        let w := nth i (rg_wts (ag_rg g)) 0 in
        Some (Sph (map (fun p => vscale (rot_shell (ag_rot g) i p) r) (s_pts sp))
                  (map (fun wa => if r_sq then (wa * w) * (r * r) else wa * w) (s_wts sp)))
    end
  else None.

(* ------------------------------------------------------------------ pruned grids *)
(* _find_degrees_for_radial_points: position = sum(r > r_sectors) ; d_sectors[position] (IndexError = None) *)
Definition position (rsec : list T) (r : T) : nat := count (fun s => ltb o s r) rsec.
Definition find_degrees (rpts rsec : list T) (dsec : list Z) : option (list Z) :=
  traverse (fun r => nth_error dsec (position rsec r)) rpts.

(* _generate_degree_from_radius *)
Definition degree_from_radius (m : method) (rpts : list T) (radius : T) (rsec : list T) (dsec : list Z)
  : option (list Z) :=
  let rsec' := map (fun s => s * radius) rsec in
  if negb (Z.of_nat (length dsec) - Z.of_nat (length rsec) =? 1)%Z then None
  else match traverse (fun d => option_map fst (resolve_degree m d)) dsec with
       | None => None
       | Some matched => find_degrees rpts rsec' matched
       end.

(* AtomGrid.from_pruned(rgrid, radius, r_sectors, d_sectors, s_sectors=..., center, rotate, method) *)
Definition from_pruned (m : method) (rg : rgrid) (radius : T) (rsec : list T) (spec : degspec)
                       (center : vec) (rotate : Z) : option atomgrid :=
  match (match spec with Sizes s => convert m s | Degrees d => Some d end) with
  | None => None
  | Some dsec =>
      if negb (rg_okb rg) then None
      else match degree_from_radius m (rg_pts rg) radius rsec dsec with
           | None => None
           | Some degs => atomgrid_init m rg (Degrees degs) center rotate
           end
  end.

(* ------------------------------------------------------------------ presets *)
(* one element of a prune_grid_<preset>.npz file: "<Z>_rad" (float sector radii OR integer shell counts) and
   "<Z>_npt" (angular sizes) *)
Inductive radcol := RadF (l : list T) | RadI (l : list Z).
Record prow := PRow { pr_rad : radcol; pr_npt : list Z }.
Record ptable := PTab { pt_rows : list (Z * prow); pt_rpoints : option (list Z) }.     (* "r_points" if present *)
Definition ptables := list (string * ptable).

(* the constants of the branch test of from_preset, extracted from the source on every run:
     if preset in COUNT: ... elif preset == THR_PRESET and atnum > THR: ... else: ...            *)
Record pcfg := PCfg { count_presets : list string; thr_preset : string; thr : Z;
                      size_presets : list string;      (* the list in _get_rgrid_size *)
                      size_special : string;           (* the preset that reads "r_points" there *)
                      conv_method : option method }.   (* `method=` handed to convert_angular_sizes_to_degrees in the
                                                          sector-radius route: None = the caller's method *)
Definition conv (cfg : pcfg) (m : method) : method := match conv_method cfg with Some m' => m' | None => m end.

Fixpoint lookup_str {A} (k : string) (l : list (string * A)) : option A :=
  match l with [] => None | (k', v) :: t => if String.eqb k k' then Some v else lookup_str k t end.
Fixpoint lookup_z {A} (k : Z) (l : list (Z * A)) : option A :=
  match l with [] => None | (k', v) :: t => if (k =? k')%Z then Some v else lookup_z k t end.
Definition find_row (tabs : ptables) (preset : string) (atnum : Z) : option prow :=
  match lookup_str preset tabs with Some t => lookup_z atnum (pt_rows t) | None => None end.

Definition count_branch (cfg : pcfg) (preset : string) (atnum : Z) : bool :=
  existsb (String.eqb preset) (count_presets cfg) || (String.eqb preset (thr_preset cfg) && (thr cfg <? atnum)%Z).

(* `[npt[idx] for idx in range(len(rad)) for _ in range(rad[idx])]` ; range(<float>) is a TypeError *)
Fixpoint sector_sizes_aux (counts : list Z) (idx : nat) (npt : list Z) : option (list Z) :=
  match counts with
  | [] => Some []
  | c :: t =>
      match (if (c <=? 0)%Z then Some [] else option_map (fun s => repeat s (Z.to_nat c)) (nth_error npt idx)) with
      | None => None
      | Some here => match sector_sizes_aux t (S idx) npt with None => None | Some r => Some (here ++ r) end
      end
  end.
Definition sector_sizes (row : prow) : option (list Z) :=
  match pr_rad row with
  | RadI counts => sector_sizes_aux counts O (pr_npt row)
  | RadF [] => Some []
  | RadF (_ :: _) => None
  end.
Definition rad_as_T (r : radcol) : list T := match r with RadF l => l | RadI l => map (ofZ o) l end.

(* the degree request that from_preset hands to the constructor *)
Definition preset_spec (cfg : pcfg) (m : method) (row : prow) (preset : string) (atnum : Z) (rpts : list T)
  : option degspec :=
  if count_branch cfg preset atnum then option_map Sizes (sector_sizes row)
  else match convert (conv cfg m) (pr_npt row) with
       | None => None
       | Some degs => option_map Degrees (find_degrees rpts (rad_as_T (pr_rad row)) degs)
       end.

(* AtomGrid.from_preset(atnum, preset, rgrid, center, rotate, method) with an explicit radial grid *)
Definition from_preset (cfg : pcfg) (tabs : ptables) (m : method) (atnum : Z) (preset : string) (rg : rgrid)
                       (center : vec) (rotate : Z) : option atomgrid :=
  if negb (rg_okb rg) then None
  else match find_row tabs preset atnum with
       | None => None
       | Some row => match preset_spec cfg m row preset atnum (rg_pts rg) with
                     | None => None
                     | Some spec => atomgrid_init m rg spec center rotate
                     end
       end.

(* _get_rgrid_size(preset, atnum) for one atomic number (sum of an integer column) *)
Definition get_rgrid_size (cfg : pcfg) (tabs : ptables) (preset : string) (atnum : Z) : option Z :=
  if negb (existsb (String.eqb preset) (size_presets cfg)) then None
  else match lookup_str preset tabs with
       | None => None
       | Some t =>
           if String.eqb preset (size_special cfg) then option_map zsum (pt_rpoints t)
           else match lookup_z atnum (pt_rows t) with
                | Some (PRow (RadI counts) _) => Some (zsum counts)
                | _ => None
                end
       end.

(* ---- the decidable build condition of one tabulated (preset, atnum) *)
Definition resolvableb (m : method) (sizes : list Z) : bool :=
  forallb (fun s => match resolve_size m s with Some _ => true | None => false end) (zdedupe sizes).
(* sector-radius route: the tabulated size s is converted to a degree with method conv(m) and that degree is realised
   with method m; the shell must not be coarser than s *)
Definition size_okb (cfg : pcfg) (m : method) (s : Z) : bool :=
  match resolve_size (conv cfg m) s with
  | Some (d, _) => match resolve_degree m d with Some (_, s') => (s <=? s')%Z | None => false end
  | None => false
  end.
Definition preset_okb (cfg : pcfg) (tabs : ptables) (m : method) (preset : string) (atnum : Z) (row : prow) : bool :=
  if count_branch cfg preset atnum then
    match sector_sizes row with
    | None => false
    | Some ss => resolvableb m ss && negb (Nat.eqb (length ss) 0) &&
                 match get_rgrid_size cfg tabs preset atnum with
                 | Some n => (n =? Z.of_nat (length ss))%Z
                 | None => false
                 end
    end
  else Nat.eqb (length (pr_npt row)) (S (length (rad_as_T (pr_rad row)))) &&
       forallb (size_okb cfg m) (zdedupe (pr_npt row)).

(* the size the table asks for at shell k of a radial grid *)
Definition tabulated_size (cfg : pcfg) (row : prow) (preset : string) (atnum : Z) (rpts : list T) (k : nat) : Z :=
  if count_branch cfg preset atnum then nth k (match sector_sizes row with Some ss => ss | None => [] end) 0%Z
  else nth (position (rad_as_T (pr_rad row)) (nth k rpts 0)) (pr_npt row) 0%Z.

Definition all_rows (tabs : ptables) : list (string * Z * prow) :=
  flat_map (fun pt => map (fun zr => (fst pt, fst zr, snd zr)) (pt_rows (snd pt))) tabs.
Definition bad_rows (cfg : pcfg) (tabs : ptables) (m : method) : list (string * Z) :=
  map (fun x => (fst (fst x), snd (fst x)))
      (filter (fun x => negb (preset_okb cfg tabs m (fst (fst x)) (snd (fst x)) (snd x))) (all_rows tabs)).

(* ------------------------------------------------------------------ specification side *)
Definition shell0 : shell := (0, 0, 0%Z, Sph [] []).
(* sum over the nodes a of one shell of  w_a * A(direction of a) , directions rotated like the shell *)
Definition angular_sum (rotate : Z) (i : nat) (s : shell) (A : vec -> T) : T :=
  sum (map2 (fun wa p => wa * A (rot_shell rotate i p)) (s_wts (sh_sph s)) (s_pts (sh_sph s))).
(* sum_i  (w_i r_i^2 g(r_i)) * angular_sum_i *)
Fixpoint radial_sum (rotate : Z) (i : nat) (l : list shell) (g : T -> T) (A : vec -> T) : T :=
  match l with
  | [] => 0
  | s :: t => ((sh_w s * (sh_r s * sh_r s)) * g (sh_r s)) * angular_sum rotate i s A + radial_sum rotate (S i) t g A
  end.
(* the two tables of a method are strictly ascending, non-empty, mutually inverse, degrees non-negative (checked by vm_compute on the
   regenerated tables; property C12) *)
Definition tables_okb (m : method) : bool :=
  strictly_sortedb (keys (dtab m)) && strictly_sortedb (keys (ntab m)) &&
  same_pairs (swap_table (ntab m)) (dtab m) &&
  negb (Nat.eqb (length (dtab m)) 0) && negb (Nat.eqb (length (ntab m)) 0) &&
  forallb (fun k => (0 <=? k)%Z) (keys (dtab m)).

End Model.

Arguments Sph {T} _ _.
Arguments RG {T} _ _.
Arguments s_pts {T} _.
Arguments s_wts {T} _.
Arguments rg_pts {T} _.
Arguments rg_wts {T} _.
Arguments sph_wf {T} _.
Arguments rg_wf {T} _.
Arguments RadF {T} _.
Arguments RadI {T} _.
Arguments PRow {T} _ _.
Arguments PTab {T} _ _.
Arguments pr_rad {T} _.
Arguments pr_npt {T} _.
Arguments pt_rows {T} _.
Arguments pt_rpoints {T} _.
Arguments find_row {T} _ _ _.
Arguments all_rows {T} _.
Arguments sector_sizes {T} _.
Arguments count_branch _ _ _ : assert.
Arguments ag_rg {T} _.
Arguments ag_center {T} _.
Arguments ag_rot {T} _.
Arguments ag_meth {T} _.
Arguments ag_pts0 {T} _.
Arguments ag_wts {T} _.
Arguments ag_idx {T} _.
Arguments ag_degs {T} _.
Arguments sh_deg {T} _.
Arguments sh_sph {T} _.
Arguments sh_size {T} _.
Arguments sh_r {T} _.
Arguments sh_w {T} _.
Arguments vx {T} _.
Arguments vy {T} _.
Arguments vz {T} _.
