(* C05 — facts about the tables regenerated from /repo on every run (C05_gen.v): the angular degree/size tables are
   well-formed, and every tabulated (preset, element) passes the decidable build condition except the listed ones. *)
From Coq Require Import String List ZArith Bool Lia.
From Bignums Require Import BigQ.
From VLib Require Import Tables.
From P Require Import C05_model C05_model_exec C05_proofs C05_gen C05_proofs_tables.
Import ListNotations.
Local Open Scope nat_scope.

(* the (preset, element) pairs that do not build at the current commit (potassium/SG-1 was fixed upstream) *)
Definition listed_bad : list (string * Z) := [("sg_3"%string, 14%Z)].
Definition pz_eqb (a b : string * Z) : bool := String.eqb (fst a) (fst b) && Z.eqb (snd a) (snd b).
Definition pz_mem (a : string * Z) (l : list (string * Z)) : bool := existsb (pz_eqb a) l.

Lemma pz_mem_in a l : pz_mem a l = true -> In a l.
Proof.
  unfold pz_mem. rewrite existsb_exists. intros [b [Hb E]]. unfold pz_eqb in E.
  apply andb_prop in E as [E1 E2]. apply String.eqb_eq in E1. apply Z.eqb_eq in E2.
  destruct a, b; cbn in *; subst; exact Hb.
Qed.

Lemma bad_rows_listed : forall m,
  forallb (fun pz => pz_mem pz listed_bad) (bad_rows QOps dtab ntab impl_cfg preset_tables m) = true.
Proof. intros []; vm_cast_no_check (eq_refl true). Qed.

Lemma tabulated_count : length (all_rows preset_tables) <> 0.
Proof. vm_compute. discriminate. Qed.

(* every tabulated (preset, element) other than the listed ones builds, for every angular method, every radial grid
   (of the prescribed size where the preset prescribes one), centre, seed, angular data and rotation oracle *)
Lemma presets_build_partial_lemma :
  forall (ang : method -> Z -> sphere) (rot : Z -> mat) m preset atnum row rg c rotate,
  find_row preset_tables preset atnum = Some row -> ~ In (preset, atnum) listed_bad ->
  rg_wf rg -> rg_okb QOps rg = true -> rot_okb rg rotate = true ->
  (count_branch impl_cfg preset atnum = true ->
   get_rgrid_size impl_cfg preset_tables preset atnum = Some (Z.of_nat (length (rg_pts rg)))) ->
  exists g, from_preset QOps dtab ntab ang rot impl_cfg preset_tables m atnum preset rg c rotate = Some g /\
    length (ag_degs g) = length (rg_pts rg) /\
    forall k, k < length (rg_pts rg) ->
      exists s', In (nth k (ag_degs g) 0%Z, s') (dtab m) /\
                 (tabulated_size QOps impl_cfg row preset atnum (rg_pts rg) k <= s')%Z.
Proof.
  intros ang rot m preset atnum row rg c rotate Hrow Hnot W Hrg Hrot Hpre.
  apply preset_ok_builds_lemma; auto using gen_tables_ok.
  destruct (preset_okb QOps dtab ntab impl_cfg preset_tables m preset atnum row) eqn:E; [reflexivity|exfalso].
  apply Hnot, pz_mem_in.
  pose proof (bad_rows_listed m) as B. rewrite forallb_forall in B. apply B.
  unfold bad_rows. apply in_map_iff. exists (preset, atnum, row). split; [reflexivity|].
  apply filter_In. split; [now apply find_row_in|]. cbn [fst snd]. now rewrite E.
Qed.
