(* C05 — proofs about the model in C05_model.v.  Structural theorems hold for any record of operations; the
   algebraic ones for every commutative ring (stdlib `ring_theory`); everything by induction over the list of
   shells: no bound on the number of shells, the degree sequence or the sizes of the angular grids. *)
From Coq Require Import String List ZArith Bool Lia Ring Ring_theory.
From VLib Require Import Tables.
From P Require Import C05_model C05_model_exec.
Import ListNotations.
Local Open Scope nat_scope.

(* ================================================================== lists *)
Section Lists.
Context {A : Type}.

Lemma prefix_length acc l : length (prefix acc l) = S (length l).
Proof. revert acc; induction l as [|x l IH]; intros acc; cbn; [reflexivity|]. now rewrite IH. Qed.

Lemma prefix_nth acc l i : i <= length l -> nth i (prefix acc l) 0%Z = (acc + zsum (firstn i l))%Z.
Proof.
  revert acc i; induction l as [|x l IH]; intros acc i Hi.
  - cbn in Hi. assert (i = 0) by lia. subst. cbn. lia.
  - destruct i as [|i]; [cbn; lia|]. cbn [prefix nth firstn zsum fold_right]. cbn in Hi.
    rewrite IH by lia. unfold zsum. lia.
Qed.

Lemma zsum_nonneg l : Forall (fun x => (0 <= x)%Z) l -> (0 <= zsum l)%Z.
Proof. induction 1; cbn; [lia|]. unfold zsum in *. lia. Qed.

(* offset of block i inside the concatenation *)
Definition offset (ls : list (list A)) (i : nat) : nat := length (concat (firstn i ls)).

Lemma offset_S ls i : i < length ls -> offset ls (S i) = offset ls i + length (nth i ls []).
Proof.
  unfold offset. revert i; induction ls as [|l ls IH]; intros i Hi; cbn in Hi; [lia|].
  destruct i as [|i].
  - cbn. rewrite app_nil_r. reflexivity.
  - change (firstn (S (S i)) (l :: ls)) with (l :: firstn (S i) ls).
    change (firstn (S i) (l :: ls)) with (l :: firstn i ls).
    change (nth (S i) (l :: ls) []) with (nth i ls []).
    cbn [concat]. rewrite !app_length. rewrite IH by lia. lia.
Qed.

Lemma concat_block ls i : i < length ls ->
  firstn (length (nth i ls [])) (skipn (offset ls i) (concat ls)) = nth i ls [].
Proof.
  unfold offset. revert i; induction ls as [|l ls IH]; intros i Hi; cbn in Hi; [lia|].
  destruct i as [|i].
  - cbn. rewrite firstn_app, Nat.sub_diag, firstn_all. cbn. now rewrite app_nil_r.
  - change (firstn (S i) (l :: ls)) with (l :: firstn i ls).
    change (nth (S i) (l :: ls) []) with (nth i ls []).
    cbn [concat]. rewrite app_length.
    rewrite skipn_app. rewrite (skipn_all2 l) by lia.
    replace (length l + length (concat (firstn i ls)) - length l) with (length (concat (firstn i ls))) by lia.
    cbn [app]. apply IH. lia.
Qed.

Lemma concat_nth ls i j d : i < length ls -> j < length (nth i ls []) ->
  nth (offset ls i + j) (concat ls) d = nth j (nth i ls []) d.
Proof.
  unfold offset. revert i; induction ls as [|l ls IH]; intros i Hi Hj; cbn in Hi; [lia|].
  destruct i as [|i].
  - cbn in *. now rewrite app_nth1.
  - change (firstn (S i) (l :: ls)) with (l :: firstn i ls).
    change (nth (S i) (l :: ls) []) with (nth i ls []) in *.
    cbn [concat]. rewrite app_length, app_nth2 by lia.
    replace (length l + length (concat (firstn i ls)) + j - length l) with (length (concat (firstn i ls)) + j) by lia.
    apply IH; [lia|exact Hj].
Qed.

Lemma offset_all ls : offset ls (length ls) = length (concat ls).
Proof. unfold offset. now rewrite firstn_all. Qed.

Lemma offset_le ls i : offset ls i <= length (concat ls).
Proof.
  unfold offset. revert i; induction ls as [|l ls IH]; intros [|i]; cbn; try lia.
  rewrite !app_length. specialize (IH i). lia.
Qed.
End Lists.

Lemma offset_zsum {A} (ls : list (list A)) i :
  Z.of_nat (offset ls i) = zsum (firstn i (map (fun l => Z.of_nat (length l)) ls)).
Proof.
  unfold offset. revert i; induction ls as [|l ls IH]; intros [|i]; cbn; try reflexivity.
  rewrite app_length, Nat2Z.inj_add, IH. reflexivity.
Qed.

Lemma traverse_some {A B} (f : A -> option B) l r : traverse f l = Some r ->
  length r = length l /\ forall k da db, k < length l -> f (nth k l da) = Some (nth k r db).
Proof.
  revert r; induction l as [|x l IH]; intros r H; cbn in H.
  - injection H as <-. split; [reflexivity|]. cbn. intros; lia.
  - destruct (f x) as [y|] eqn:Fx; [|discriminate].
    destruct (traverse f l) as [r'|]; [|discriminate]. injection H as <-.
    destruct (IH r' eq_refl) as [L N]. split; [cbn; now rewrite L|].
    intros [|k] da db Hk; cbn in *; [exact Fx|]. apply N. lia.
Qed.

Lemma traverse_total {A B} (f : A -> option B) l :
  (forall x, In x l -> f x <> None) -> exists r, traverse f l = Some r.
Proof.
  induction l as [|x l IH]; intros H; cbn; [eauto|].
  destruct (f x) as [y|] eqn:Fx; [|exfalso; apply (H x); [now left|exact Fx]].
  destruct IH as [r ->]; [intros z Hz; apply H; now right|]. eauto.
Qed.

Lemma traverse_none {A B} (f : A -> option B) l x : In x l -> f x = None -> traverse f l = None.
Proof.
  induction l as [|y l IH]; intros Hin Fx; [destruct Hin|]. destruct Hin as [<-|Hin]; cbn.
  - now rewrite Fx.
  - destruct (f y); [|reflexivity]. now rewrite IH.
Qed.

Lemma traverse_map_some {A B} (f : A -> option B) (g : A -> B) l :
  (forall x, In x l -> f x = Some (g x)) -> traverse f l = Some (map g l).
Proof.
  induction l as [|x l IH]; intros H; cbn; [reflexivity|].
  rewrite (H x) by now left. rewrite IH; [reflexivity|]. intros z Hz; apply H; now right.
Qed.

Lemma nth_map_lt {A B} (f : A -> B) l k da db : k < length l -> nth k (map f l) db = f (nth k l da).
Proof. intros H. rewrite (nth_indep _ db (f da)) by now rewrite map_length. apply map_nth. Qed.

Lemma count_le {A} (f : A -> bool) l : count f l <= length l.
Proof. induction l as [|x l IH]; cbn; [lia|]. destruct (f x); lia. Qed.

Lemma map2_length {A B C} (f : A -> B -> C) a b : length a = length b -> length (map2 f a b) = length a.
Proof. revert b; induction a as [|x a IH]; intros [|y b] H; cbn in *; try lia. rewrite IH; lia. Qed.

Lemma map2_app {A B C} (f : A -> B -> C) a a' b b' : length a = length b ->
  map2 f (a ++ a') (b ++ b') = map2 f a b ++ map2 f a' b'.
Proof. revert b; induction a as [|x a IH]; intros [|y b] H; cbn in *; try lia; [reflexivity|]. rewrite IH; [reflexivity|lia]. Qed.

Lemma map2_map_l {A A' B C} (f : A' -> B -> C) (g : A -> A') a b :
  map2 f (map g a) b = map2 (fun x y => f (g x) y) a b.
Proof. revert b; induction a as [|x a IH]; intros [|y b]; cbn; try reflexivity. now rewrite IH. Qed.

Lemma map2_map_r {A B B' C} (f : A -> B' -> C) (g : B -> B') a b :
  map2 f a (map g b) = map2 (fun x y => f x (g y)) a b.
Proof. revert b; induction a as [|x a IH]; intros [|y b]; cbn; try reflexivity. now rewrite IH. Qed.

Lemma map2_ext_in {A B C} (f g : A -> B -> C) a b :
  (forall x y, In x a -> In y b -> f x y = g x y) -> map2 f a b = map2 g a b.
Proof.
  revert b; induction a as [|x a IH]; intros [|y b] H; cbn; try reflexivity.
  rewrite H by now left. rewrite IH; [reflexivity|]. intros; apply H; now right.
Qed.

(* ================================================================== structure of the atomic grid *)
Section Structure.
Context {T : Type} (o : NumOps T).
Variable dtab ntab : method -> table.
Variable ang : method -> Z -> sphere (T:=T).
Variable rot : Z -> mat (T:=T).

Notation shell := (@shell T).
Notation shell_pts := (shell_pts o rot).
Notation shell_wts := (shell_wts o).
Notation all_pts := (all_pts o rot).
Notation all_wts := (all_wts o).
Notation build_pts := (build_pts o rot).
Notation shell0 := (shell0 o).

Definition shells_wf (sh : list shell) : Prop := Forall (fun s => sph_wf (sh_sph s)) sh.

Lemma build_pts_length rotate i sh : length (build_pts rotate i sh) = length sh.
Proof. revert i; induction sh as [|s sh IH]; intros i; cbn; [reflexivity|]. now rewrite IH. Qed.

Lemma build_pts_nth rotate i0 sh i : i < length sh ->
  nth i (build_pts rotate i0 sh) [] = shell_pts rotate (i0 + i) (nth i sh shell0).
Proof.
  revert i0 i; induction sh as [|s sh IH]; intros i0 i Hi; cbn in Hi; [lia|].
  destruct i as [|i]; cbn [build_pts nth]; [now rewrite Nat.add_0_r|].
  rewrite IH by lia. f_equal. lia.
Qed.

Lemma shell_pts_length rotate i s : length (shell_pts rotate i s) = length (s_pts (sh_sph s)).
Proof. unfold C05_model.shell_pts. now rewrite map_length. Qed.

Lemma shell_wts_length s : length (shell_wts s) = length (s_wts (sh_sph s)).
Proof. unfold C05_model.shell_wts. now rewrite map_length. Qed.

Lemma sizes_pts rotate i0 sh :
  map (fun l => Z.of_nat (length l)) (build_pts rotate i0 sh) = map sh_size sh.
Proof.
  revert i0; induction sh as [|s sh IH]; intros i0; cbn; [reflexivity|].
  rewrite IH, shell_pts_length. reflexivity.
Qed.

Lemma sizes_wts sh : shells_wf sh ->
  map (fun l => Z.of_nat (length l)) (map shell_wts sh) = map sh_size sh.
Proof.
  induction 1 as [|s sh Hs _ IH]; cbn; [reflexivity|].
  rewrite IH, shell_wts_length. unfold sh_size. now rewrite Hs.
Qed.

Lemma idx_nth_pts rotate sh i : i <= length sh ->
  nth i (all_idx sh) 0%Z = Z.of_nat (offset (build_pts rotate 0 sh) i).
Proof.
  intros Hi. unfold all_idx. rewrite prefix_nth by now rewrite map_length.
  rewrite offset_zsum, sizes_pts. lia.
Qed.

Lemma idx_nth_wts sh i : shells_wf sh -> i <= length sh ->
  nth i (all_idx sh) 0%Z = Z.of_nat (offset (map shell_wts sh) i).
Proof.
  intros W Hi. unfold all_idx. rewrite prefix_nth by now rewrite map_length.
  rewrite offset_zsum, sizes_wts by exact W. lia.
Qed.

Lemma slice_block {A} (ls : list (list A)) i : i < length ls ->
  slice (concat ls) (Z.of_nat (offset ls i)) (Z.of_nat (offset ls (S i))) = nth i ls [].
Proof.
  intros Hi. unfold slice. rewrite !Nat2Z.id, offset_S by exact Hi.
  replace (offset ls i + length (nth i ls []) - offset ls i) with (length (nth i ls [])) by lia.
  now apply concat_block.
Qed.

(* ---- the shell index table delimits the shells, for every number of shells and every degree sequence *)
Lemma indices_delimit_lemma rotate (sh : list shell) : shells_wf sh ->
  let idx := all_idx sh in
  length idx = S (length sh) /\ nth 0 idx 0%Z = 0%Z /\
  nth (length sh) idx 0%Z = Z.of_nat (length (all_pts rotate sh)) /\
  length (all_pts rotate sh) = length (all_wts sh) /\
  forall i, i < length sh ->
    (0 <= nth i idx 0)%Z /\
    nth (S i) idx 0%Z = (nth i idx 0 + sh_size (nth i sh shell0))%Z /\
    slice (all_pts rotate sh) (nth i idx 0%Z) (nth (S i) idx 0%Z) = shell_pts rotate i (nth i sh shell0) /\
    slice (all_wts sh) (nth i idx 0%Z) (nth (S i) idx 0%Z) = shell_wts (nth i sh shell0).
Proof.
  intros W idx. subst idx.
  assert (Hlen : length (all_pts rotate sh) = length (all_wts sh)).
  { apply Nat2Z.inj. unfold C05_model.all_pts, C05_model.all_wts.
    rewrite <- (offset_all (build_pts rotate 0 sh)), <- (offset_all (map shell_wts sh)).
    rewrite build_pts_length, map_length.
    rewrite <- (idx_nth_pts rotate sh (length sh)) by lia. now rewrite <- idx_nth_wts by (auto; lia). }
  repeat split.
  - unfold all_idx. now rewrite prefix_length, map_length.
  - unfold all_idx. destruct (map sh_size sh); reflexivity.
  - rewrite (idx_nth_pts rotate) by lia. unfold C05_model.all_pts.
    rewrite <- (build_pts_length rotate 0 sh) at 1. now rewrite offset_all.
  - exact Hlen.
  - rewrite (idx_nth_pts rotate) by lia. lia.
  - rewrite !(idx_nth_pts rotate) by lia. rewrite offset_S by now rewrite build_pts_length.
    rewrite build_pts_nth by lia. cbn [Nat.add]. rewrite shell_pts_length. unfold sh_size. lia.
  - rewrite !(idx_nth_pts rotate) by lia. unfold C05_model.all_pts.
    rewrite slice_block by now rewrite build_pts_length. now rewrite build_pts_nth by lia.
  - rewrite !idx_nth_wts by (auto; lia). unfold C05_model.all_wts.
    rewrite slice_block by now rewrite map_length. apply nth_map_lt; lia.
Qed.

(* ---- point j of shell i and its weight *)
Lemma shell_points_weights_lemma m rg center rotate (sh : list shell) i j : shells_wf sh ->
  i < length sh -> j < length (s_pts (sh_sph (nth i sh shell0))) ->
  let g := atomgrid_of o rot m rg center rotate sh in
  let s := nth i sh shell0 in
  let k := (Z.to_nat (nth i (ag_idx g) 0%Z) + j)%nat in
  k < length (ag_points o g) /\
  nth k (ag_points o g) (zero o, zero o, zero o) =
    vadd o (vscale o (rot_shell o rot rotate i (nth j (s_pts (sh_sph s)) (zero o, zero o, zero o))) (sh_r s)) center /\
  nth k (ag_wts g) (zero o) = mul o (mul o (nth j (s_wts (sh_sph s)) (zero o)) (sh_w s)) (mul o (sh_r s) (sh_r s)).
Proof.
  intros W Hi Hj g s k. subst g s k. cbn [atomgrid_of ag_idx ag_wts].
  set (z3 := (zero o, zero o, zero o)).
  assert (Hs : sph_wf (sh_sph (nth i sh shell0))).
  { unfold shells_wf in W. rewrite Forall_forall in W. apply W, nth_In, Hi. }
  rewrite (idx_nth_pts rotate) by lia. rewrite Nat2Z.id.
  assert (Hb : j < length (nth i (build_pts rotate 0 sh) [])).
  { rewrite build_pts_nth by lia. now rewrite shell_pts_length. }
  assert (Hlt : offset (build_pts rotate 0 sh) i + j < length (all_pts rotate sh)).
  { unfold C05_model.all_pts. pose proof (offset_le (build_pts rotate 0 sh) (S i)) as L.
    rewrite offset_S in L by now rewrite build_pts_length. lia. }
  split; [|split].
  - unfold ag_points. cbn [ag_pts0 atomgrid_of]. now rewrite map_length.
  - unfold ag_points. cbn [ag_pts0 ag_center atomgrid_of].
    rewrite (nth_map_lt _ _ _ z3) by exact Hlt. f_equal. unfold C05_model.all_pts.
    rewrite concat_nth by (auto; now rewrite build_pts_length).
    rewrite build_pts_nth by lia. cbn [Nat.add]. unfold C05_model.shell_pts.
    now rewrite (nth_map_lt _ _ _ z3) by exact Hj.
  - pose proof (idx_nth_pts rotate sh i ltac:(lia)) as E1.
    pose proof (idx_nth_wts sh i W ltac:(lia)) as E2. rewrite E1 in E2. apply Nat2Z.inj in E2. rewrite E2.
    unfold C05_model.all_wts.
    assert (Hn : nth i (map shell_wts sh) [] = shell_wts (nth i sh shell0)) by (apply nth_map_lt; lia).
    assert (Hj' : j < length (nth i (map shell_wts sh) [])).
    { rewrite Hn, shell_wts_length. now rewrite <- Hs. }
    rewrite concat_nth by (auto; now rewrite map_length).
    rewrite Hn. unfold C05_model.shell_wts.
    rewrite (nth_map_lt _ _ _ (zero o)) by now rewrite <- Hs. reflexivity.
Qed.

(* ---- weights, index table and degrees do not depend on the rotation seed or on the centre *)
Lemma rotation_centre_independent m rg c c' r r' (sh : list shell) :
  ag_wts (atomgrid_of o rot m rg c r sh) = ag_wts (atomgrid_of o rot m rg c' r' sh) /\
  ag_idx (atomgrid_of o rot m rg c r sh) = ag_idx (atomgrid_of o rot m rg c' r' sh) /\
  ag_degs (atomgrid_of o rot m rg c r sh) = ag_degs (atomgrid_of o rot m rg c' r' sh) /\
  ag_pts0 (atomgrid_of o rot m rg c r sh) = ag_pts0 (atomgrid_of o rot m rg c' r sh).
Proof. repeat split. Qed.

End Structure.

(* ================================================================== algebra: any commutative ring *)
Section Algebra.
Context {T : Type} (o : NumOps T).
Variable Rth : ring_theory (zero o) (one o) (add o) (mul o) (sub o) (opp o) eq.
Add Ring Tring : Rth.
Variable rot : Z -> mat (T:=T).

Local Notation "x + y" := (add o x y).
Local Notation "x * y" := (mul o x y).
Notation shell := (@shell T).

Lemma sum_app a b : sum o (a ++ b) = sum o a + sum o b.
Proof. unfold sum. induction a as [|x a IH]; cbn [app fold_right]; [ring | rewrite IH; ring]. Qed.

Lemma vadd_assoc p c d : vadd o p (vadd o c d) = vadd o (vadd o p c) d.
Proof. destruct p as [[? ?] ?], c as [[? ?] ?], d as [[? ?] ?]. unfold vadd, vx, vy, vz. cbn [fst snd]. f_equal; [f_equal|]; ring. Qed.

(* ---- moving the centre translates the points (weights, indices, degrees: rotation_centre_independent) *)
Lemma translate_lemma m rg c d rotate (sh : list shell) :
  ag_points o (atomgrid_of o rot m rg (vadd o c d) rotate sh) =
  map (fun p => vadd o p d) (ag_points o (atomgrid_of o rot m rg c rotate sh)).
Proof.
  unfold ag_points. cbn [ag_pts0 ag_center atomgrid_of]. rewrite map_map. apply map_ext.
  intros p. apply vadd_assoc.
Qed.

(* ---- an orthogonal matrix keeps the norm; scaling by r multiplies the squared norm by r*r *)
Lemma vecmat_normsq M p : orthogonal o M -> normsq o (vecmat o p M) = normsq o p.
Proof.
  destruct M as [[[[a b] c] [[d e] f]] [[g h] k]]. destruct p as [[x y] z].
  unfold orthogonal, matmul, transpose, vecmat, ident, normsq, dot, col0, col1, col2, row0, row1, row2, vx, vy, vz.
  cbn [fst snd]. intros H. injection H as H00 H01 H02 H10 H11 H12 H20 H21 H22.
  transitivity (x * x * (a * a + b * b + c * c) + y * y * (d * d + e * e + f * f) + z * z * (g * g + h * h + k * k)
                + x * y * (a * d + b * e + c * f) + y * x * (d * a + e * b + f * c)
                + x * z * (a * g + b * h + c * k) + z * x * (g * a + h * b + k * c)
                + y * z * (d * g + e * h + f * k) + z * y * (g * d + h * e + k * f)); [ring|].
  rewrite H00, H01, H02, H10, H11, H12, H20, H21, H22. ring.
Qed.

Lemma vscale_normsq v r : normsq o (vscale o v r) = (r * r) * normsq o v.
Proof. destruct v as [[x y] z]. unfold normsq, vscale, dot, vx, vy, vz. cbn [fst snd]. ring. Qed.

Lemma rot_shell_normsq rotate i p : (forall s, orthogonal o (rot s)) ->
  normsq o (rot_shell o rot rotate i p) = normsq o p.
Proof. intros H. unfold rot_shell. destruct (rotate =? 0)%Z; [reflexivity|]. apply vecmat_normsq, H. Qed.

(* every point of shell i lies at squared distance r_i^2 |p|^2 from the centre, whatever the seed *)
Lemma radii_lemma rotate i (s : shell) : (forall sd, orthogonal o (rot sd)) ->
  map (normsq o) (shell_pts o rot rotate i s) = map (fun p => (sh_r s * sh_r s) * normsq o p) (s_pts (sh_sph s)).
Proof.
  intros H. unfold shell_pts. rewrite map_map. apply map_ext. intros p.
  now rewrite vscale_normsq, rot_shell_normsq.
Qed.

Lemma build_pts_normsq rotate rotate' i (sh : list shell) : (forall sd, orthogonal o (rot sd)) ->
  map (map (normsq o)) (build_pts o rot rotate i sh) = map (map (normsq o)) (build_pts o rot rotate' i sh).
Proof.
  intros H. revert i; induction sh as [|s sh IH]; intros i; cbn [build_pts map]; [reflexivity|].
  rewrite IH. f_equal. now rewrite !radii_lemma.
Qed.

Lemma rotation_keeps_radii_lemma rotate rotate' (sh : list shell) : (forall sd, orthogonal o (rot sd)) ->
  map (normsq o) (all_pts o rot rotate sh) = map (normsq o) (all_pts o rot rotate' sh).
Proof. intros H. unfold all_pts. rewrite !concat_map. f_equal. now apply build_pts_normsq. Qed.

Lemma rotation_keeps_radii_full : (forall seed, orthogonal o (rot seed)) ->
  (forall M p, orthogonal o M -> normsq o (vecmat o p M) = normsq o p) /\
  (forall rotate i (s : shell),
     map (normsq o) (shell_pts o rot rotate i s) =
     map (fun p => mul o (mul o (sh_r s) (sh_r s)) (normsq o p)) (s_pts (sh_sph s))) /\
  (forall rotate rotate' (sh : list shell),
     map (normsq o) (all_pts o rot rotate sh) = map (normsq o) (all_pts o rot rotate' sh)).
Proof.
  intros H. split; [|split].
  - intros M p. now apply vecmat_normsq.
  - intros. now apply radii_lemma.
  - intros. now apply rotation_keeps_radii_lemma.
Qed.

(* ---- factorisation of the grid sum for an integrand g(r) * A(direction) *)
Lemma head_sum (s : shell) rotate i center (F : vec -> T) (g : T -> T) (A : vec -> T) ws ps :
  (forall p, In p ps ->
     F (vadd o (vscale o (rot_shell o rot rotate i p) (sh_r s)) center) = g (sh_r s) * A (rot_shell o rot rotate i p)) ->
  sum o (map2 (mul o) (map (fun wa => (wa * sh_w s) * (sh_r s * sh_r s)) ws)
                     (map F (map (fun p => vadd o p center) (map (fun p => vscale o (rot_shell o rot rotate i p) (sh_r s)) ps)))) =
  ((sh_w s * (sh_r s * sh_r s)) * g (sh_r s)) * sum o (map2 (fun wa p => wa * A (rot_shell o rot rotate i p)) ws ps).
Proof.
  revert ps; induction ws as [|w ws IH]; intros [|p ps] H; cbn; try ring.
  unfold sum in *. rewrite IH by (intros q Hq; apply H; now right).
  rewrite (H p) by now left. ring.
Qed.

Lemma factorise_aux center rotate (F : vec -> T) (g : T -> T) (A : vec -> T) (sh : list shell) i0 :
  shells_wf sh ->
  (forall i s p, nth_error sh i = Some s -> In p (s_pts (sh_sph s)) ->
     F (vadd o (vscale o (rot_shell o rot rotate (i0 + i) p) (sh_r s)) center) =
     g (sh_r s) * A (rot_shell o rot rotate (i0 + i) p)) ->
  sum o (map2 (mul o) (concat (map (shell_wts o) sh))
                     (map F (map (fun p => vadd o p center) (concat (build_pts o rot rotate i0 sh))))) =
  radial_sum o rot rotate i0 sh g A.
Proof.
  intros W. revert i0; induction W as [|s sh Hs W IH]; intros i0 H; cbn [map concat build_pts radial_sum]; [reflexivity|].
  rewrite !map_app, map2_app.
  2:{ rewrite !map_length. unfold shell_wts, shell_pts. rewrite !map_length. symmetry; exact Hs. }
  rewrite sum_app. f_equal.
  - unfold shell_wts, shell_pts, angular_sum. apply head_sum.
    intros p Hp. specialize (H 0 s p eq_refl Hp). now rewrite Nat.add_0_r in H.
  - apply IH. intros i s' p Hn Hp. specialize (H (S i) s' p Hn Hp).
    rewrite Nat.add_succ_r in H. exact H.
Qed.

Lemma factorise_lemma m rg center rotate (sh : list shell) (F : vec -> T) (g : T -> T) (A : vec -> T) :
  shells_wf sh ->
  (forall i s p, nth_error sh i = Some s -> In p (s_pts (sh_sph s)) ->
     F (vadd o (vscale o (rot_shell o rot rotate i p) (sh_r s)) center) = g (sh_r s) * A (rot_shell o rot rotate i p)) ->
  let G := atomgrid_of o rot m rg center rotate sh in
  integrate o G (map F (ag_points o G)) = radial_sum o rot rotate 0 sh g A.
Proof.
  intros W H G. subst G. unfold integrate, ag_points. cbn [ag_wts ag_pts0 ag_center atomgrid_of].
  unfold all_wts, all_pts. now apply factorise_aux.
Qed.

End Algebra.

(* ================================================================== tables (VLib.Tables) *)
Lemma lookup_sorted_in t k v : strictly_sortedb (keys t) = true -> In (k, v) t -> lookup k t = Some v.
Proof.
  induction t as [|[k' v'] t IH]; intros S Hin; [destruct Hin|].
  cbn [keys map fst] in S. apply strictly_sortedb_cons in S as [S Hall].
  cbn [lookup]. destruct Hin as [E|Hin].
  - injection E as -> ->. now rewrite Z.eqb_refl.
  - assert (Hk : In k (keys t)) by (apply in_map_iff; exists (k, v); auto).
    specialize (Hall k Hk). destruct (Z.eqb_spec k k'); [lia|]. now apply IH.
Qed.

Lemma resolve_fix t k v : strictly_sortedb (keys t) = true -> In (k, v) t -> (0 <= k)%Z -> resolve t k = Some (k, v).
Proof.
  intros S Hin Hk. unfold resolve.
  assert (Hkk : In k (keys t)) by (apply in_map_iff; exists (k, v); auto).
  pose proof (py_max_ge _ _ Hkk).
  destruct (Z.ltb_spec k 0); [lia|]. destruct (Z.ltb_spec (py_max (keys t)) k); [lia|]. cbn [orb].
  now rewrite (lookup_sorted_in t k v S Hin).
Qed.

Lemma resolve_some t x k v : strictly_sortedb (keys t) = true -> t <> [] -> resolve t x = Some (k, v) ->
  (0 <= x)%Z /\ In (k, v) t /\ (x <= k)%Z /\ forall k' v', In (k', v') t -> (x <= k')%Z -> (k <= k')%Z.
Proof. intros S N E. pose proof (resolve_spec t x S N) as R. now rewrite E in R. Qed.

(* ================================================================== constructor, shell grids, sectors, presets *)
Section Init.
Context {T : Type} (o : NumOps T).
Variable dtab ntab : method -> table.
Variable ang : method -> Z -> sphere (T:=T).
Variable rot : Z -> mat (T:=T).

Notation shell := (@shell T).
Notation shell0 := (shell0 o).
Notation resolve_degree := (resolve_degree dtab).
Notation resolve_size := (resolve_size ntab).
Notation convert := (convert ntab).
Notation angular := (angular dtab ang).
Notation shells_of := (shells_of dtab ang).
Notation atomgrid_of := (atomgrid_of o rot).
Notation atomgrid_init := (atomgrid_init o dtab ntab ang rot).
Notation get_shell_grid := (get_shell_grid o dtab ang rot).
Notation tables_okb := (tables_okb dtab ntab).

Lemma tables_facts m : tables_okb m = true ->
  strictly_sortedb (keys (dtab m)) = true /\ strictly_sortedb (keys (ntab m)) = true /\
  (forall d s, In (s, d) (ntab m) <-> In (d, s) (dtab m)) /\ dtab m <> [] /\ ntab m <> [] /\
  (forall d s, In (d, s) (dtab m) -> (0 <= d)%Z).
Proof.
  unfold C05_model.tables_okb. intros H.
  repeat (apply andb_prop in H; destruct H as [H ?]).
  repeat split; try assumption.
  5:{ intros d s Hin. rewrite forallb_forall in H0. apply Z.leb_le, H0. apply in_map_iff. exists (d, s); auto. }
  - intros Hin. apply (same_pairs_spec _ _ H3). unfold swap_table. apply in_map_iff.
    exists (s, d). split; [reflexivity|exact Hin].
  - intros Hin. apply (same_pairs_spec _ _ H3) in Hin. unfold swap_table in Hin.
    apply in_map_iff in Hin as [[a b] [Heq Hin]]. cbn in Heq. now inversion Heq; subst.
  - intros E. rewrite E in H2. discriminate.
  - intros E. rewrite E in H1. discriminate.
Qed.

(* the resolved degree is a fixed point of the resolution: AngularGrid(degree=g.degrees[i]) is the same grid *)
Lemma angular_idem m d d' sp : tables_okb m = true -> angular m d = Some (d', sp) -> angular m d' = Some (d', sp).
Proof.
  intros Tok. destruct (tables_facts m Tok) as (S1 & _ & _ & N1 & _ & _).
  unfold C05_model.angular, C05_model.resolve_degree.
  destruct (resolve (dtab m) d) as [[k v]|] eqn:E; [|discriminate]. intros H. injection H as <- <-.
  destruct (resolve_some _ _ _ _ S1 N1 E) as (H0 & Hin & Hle & _).
  rewrite (resolve_fix _ k v S1 Hin) by lia. reflexivity.
Qed.

(* requested degree of every radial point *)
Definition requested (m : method) (n : nat) (spec : degspec) : option (list Z) :=
  option_map (expand n) (match spec with Sizes s => convert m s | Degrees d => Some d end).

Definition shells_match (m : method) (rg : rgrid) (sh : list shell) : Prop :=
  length sh = length (rg_pts rg) /\
  forall k, k < length sh ->
    let s := nth k sh shell0 in
    sh_r s = nth k (rg_pts rg) (zero o) /\ sh_w s = nth k (rg_wts rg) (zero o) /\
    angular m (sh_deg s) = Some (sh_deg s, sh_sph s).

Lemma shells_of_spec m rg degs sh : tables_okb m = true -> rg_wf rg -> length degs = length (rg_pts rg) ->
  shells_of m rg degs = Some sh ->
  shells_match m rg sh /\
  forall k, k < length sh -> angular m (nth k degs 0%Z) = Some (sh_deg (nth k sh shell0), sh_sph (nth k sh shell0)).
Proof.
  intros Tok W L H. unfold C05_model.shells_of in H.
  apply traverse_some in H as [HL HN].
  rewrite !combine_length in HL. unfold rg_wf in W. rewrite <- W, Nat.min_id, L, Nat.min_id in HL.
  assert (Key : forall k, k < length sh ->
     sh_r (nth k sh shell0) = nth k (rg_pts rg) (zero o) /\ sh_w (nth k sh shell0) = nth k (rg_wts rg) (zero o) /\
     angular m (nth k degs 0%Z) = Some (sh_deg (nth k sh shell0), sh_sph (nth k sh shell0))).
  { intros k Hk.
    specialize (HN k (zero o, zero o, 0%Z) shell0).
    rewrite !combine_length, <- W, Nat.min_id, L, Nat.min_id in HN. specialize (HN ltac:(lia)).
    rewrite !combine_nth in HN by (rewrite ?combine_length; lia). cbn [fst snd] in HN.
    destruct (angular m (nth k degs 0%Z)) as [[d' sp]|]; [|discriminate].
    injection HN as HN. rewrite <- HN. unfold sh_r, sh_w, sh_deg, sh_sph. cbn [fst snd]. auto. }
  split.
  - split; [exact HL|]. intros k Hk s. subst s. destruct (Key k Hk) as (K1 & K2 & K3).
    repeat split; auto. eapply angular_idem; eauto.
  - intros k Hk. apply Key, Hk.
Qed.

Lemma init_shells_lemma m rg spec c rotate g : tables_okb m = true -> rg_wf rg ->
  atomgrid_init m rg spec c rotate = Some g ->
  rg_okb o rg = true /\ rot_okb rg rotate = true /\
  exists degs sh, requested m (length (rg_pts rg)) spec = Some degs /\ length degs = length (rg_pts rg) /\
    shells_of m rg degs = Some sh /\ g = atomgrid_of m rg c rotate sh /\ shells_match m rg sh /\
    forall k, k < length sh ->
      angular m (nth k degs 0%Z) = Some (sh_deg (nth k sh shell0), sh_sph (nth k sh shell0)).
Proof.
  intros Tok W H. unfold C05_model.atomgrid_init in H.
  destruct (rg_okb o rg); [|discriminate]. destruct (rot_okb rg rotate); [|discriminate]. cbn [negb] in H.
  split; [reflexivity|]. split; [reflexivity|].
  unfold requested.
  destruct (match spec with Sizes s => convert m s | Degrees d => Some d end) as [degs0|]; [|discriminate].
  cbn [option_map].
  destruct (Nat.eqb_spec (length (expand (length (rg_pts rg)) degs0)) (length (rg_pts rg))) as [L|]; [|discriminate].
  cbn [negb] in H.
  destruct (shells_of m rg (expand (length (rg_pts rg)) degs0)) as [sh|] eqn:E; [|discriminate].
  injection H as <-. exists (expand (length (rg_pts rg)) degs0), sh.
  destruct (shells_of_spec m rg _ sh Tok W L E) as [M K].
  split; [reflexivity|]. split; [exact L|]. split; [exact E|]. split; [reflexivity|]. split; [exact M|exact K].
Qed.

(* totality: a valid radial grid and seed, resolvable requests of the right length => the constructor succeeds *)
Lemma init_total m rg spec c rotate degs : rg_wf rg ->
  rg_okb o rg = true -> rot_okb rg rotate = true ->
  requested m (length (rg_pts rg)) spec = Some degs -> length degs = length (rg_pts rg) ->
  (forall d, In d degs -> resolve_degree m d <> None) ->
  exists sh, shells_of m rg degs = Some sh /\ atomgrid_init m rg spec c rotate = Some (atomgrid_of m rg c rotate sh).
Proof.
  intros W Hrg Hrot Hreq L Hres.
  assert (Hsh : exists sh, shells_of m rg degs = Some sh).
  { unfold C05_model.shells_of. apply traverse_total. intros [[r w] d] Hin.
    apply in_combine_r in Hin. specialize (Hres d Hin). cbn [snd fst]. unfold C05_model.angular.
    destruct (resolve_degree m d) as [[d' s']|]; [discriminate|congruence]. }
  destruct Hsh as [sh Hsh]. exists sh. split; [exact Hsh|].
  unfold C05_model.atomgrid_init. rewrite Hrg, Hrot. cbn [negb].
  unfold requested in Hreq.
  destruct (match spec with Sizes s => convert m s | Degrees d => Some d end) as [degs0|]; [|discriminate].
  cbn [option_map] in Hreq. injection Hreq as Hreq. rewrite Hreq, L, Nat.eqb_refl. cbn [negb]. now rewrite Hsh.
Qed.

Lemma slice_map {A B} (f : A -> B) l a b : slice (map f l) a b = map f (slice l a b).
Proof. unfold slice. now rewrite skipn_map, firstn_map. Qed.

(* ---- get_shell_grid(i): that shell's weights, its points relative to the centre, the same seed + i *)
Lemma shell_grid_lemma m rg c rotate (sh : list shell) i : shells_wf sh -> shells_match m rg sh -> i < length sh ->
  let g := atomgrid_of m rg c rotate sh in
  let a := nth i (ag_idx g) 0%Z in let b := nth (S i) (ag_idx g) 0%Z in
  let r := nth i (rg_pts rg) (zero o) in
  exists sg sg', get_shell_grid g (Z.of_nat i) true = Some sg /\ get_shell_grid g (Z.of_nat i) false = Some sg' /\
    s_wts sg = slice (ag_wts g) a b /\
    map (fun p => vadd o p c) (s_pts sg) = slice (ag_points o g) a b /\
    s_pts sg = slice (ag_pts0 g) a b /\
    s_pts sg' = s_pts sg /\
    map (fun w => mul o w (mul o r r)) (s_wts sg') = s_wts sg.
Proof.
  intros W [ML MK] Hi g a b r. subst g a b r.
  destruct (MK i Hi) as (Kr & Kw & Ka). cbn zeta in *.
  destruct (indices_delimit_lemma o rot rotate sh W) as (_ & _ & _ & _ & D).
  destruct (D i Hi) as (_ & _ & Dp & Dw).
  unfold C05_model.get_shell_grid. cbn [ag_degs ag_meth ag_rg ag_rot ag_idx ag_wts ag_pts0 atomgrid_of].
  rewrite map_length.
  destruct (Z.leb_spec 0 (Z.of_nat i)); [|lia]. destruct (Z.ltb_spec (Z.of_nat i) (Z.of_nat (length sh))); [|lia].
  cbn [andb]. rewrite Nat2Z.id.
  rewrite (nth_map_lt sh_deg sh i shell0 0%Z Hi), Ka.
  eexists; eexists. split; [reflexivity|]. split; [reflexivity|]. cbn [s_wts s_pts].
  rewrite <- Kr, <- Kw.
  assert (Ep : map (fun p => vscale o (rot_shell o rot rotate i p) (sh_r (nth i sh shell0))) (s_pts (sh_sph (nth i sh shell0)))
               = slice (all_pts o rot rotate sh) (nth i (all_idx sh) 0%Z) (nth (S i) (all_idx sh) 0%Z)).
  { now rewrite Dp. }
  repeat split.
  - now rewrite Dw.
  - unfold ag_points. cbn [ag_pts0 ag_center atomgrid_of]. now rewrite slice_map, <- Ep.
  - exact Ep.
  - now rewrite map_map.
Qed.

(* ---- sector lookup *)
Lemma position_le rsec r : position o rsec r <= length rsec.
Proof. apply count_le. Qed.

Lemma sector_lookup_lemma (rpts rsec : list T) (dsec : list Z) : length dsec = S (length rsec) ->
  exists l, find_degrees o rpts rsec dsec = Some l /\ length l = length rpts /\
    forall k, k < length rpts ->
      position o rsec (nth k rpts (zero o)) < length dsec /\
      nth k l 0%Z = nth (position o rsec (nth k rpts (zero o))) dsec 0%Z /\ In (nth k l 0%Z) dsec.
Proof.
  intros L.
  assert (Hpos : forall r, position o rsec r < length dsec) by (intros r; pose proof (position_le rsec r); lia).
  destruct (traverse_total (fun r => nth_error dsec (position o rsec r)) rpts) as [l Hl].
  { intros r _. apply nth_error_Some, Hpos. }
  exists l. split; [exact Hl|]. apply traverse_some in Hl as [LL N]. split; [exact LL|].
  intros k Hk. specialize (N k (zero o) 0%Z Hk). split; [apply Hpos|].
  apply nth_error_nth with (d := 0%Z) in N as N'. split; [now rewrite N'|].
  rewrite <- N'. apply nth_In, Hpos.
Qed.

End Init.

(* ================================================================== resolution of sizes, presets *)
Section Presets.
Context {T : Type} (o : NumOps T).
Variable dtab ntab : method -> table.
Variable ang : method -> Z -> sphere (T:=T).
Variable rot : Z -> mat (T:=T).

Notation shell := (@shell T).
Notation shell0 := (shell0 o).
Notation resolve_degree := (resolve_degree dtab).
Notation resolve_size := (resolve_size ntab).
Notation convert := (convert ntab).
Notation angular := (angular dtab ang).
Notation shells_of := (shells_of dtab ang).
Notation atomgrid_of := (atomgrid_of o rot).
Notation atomgrid_init := (atomgrid_init o dtab ntab ang rot).
Notation tables_okb := (tables_okb dtab ntab).
Notation from_preset := (from_preset o dtab ntab ang rot).
Notation preset_spec := (preset_spec o ntab).
Notation preset_okb := (preset_okb o dtab ntab).
Notation requested := (C05_proofs.requested ntab).

(* a supported degree together with its size *)
Definition supported (m : method) (d : Z) : Prop := exists s, In (d, s) (dtab m).

Lemma convert_spec m sizes ds : tables_okb m = true -> convert m sizes = Some ds ->
  length ds = length sizes /\
  forall k, k < length sizes -> exists s', In (nth k ds 0%Z, s') (dtab m) /\ (nth k sizes 0 <= s')%Z /\
    forall d'' s'', In (d'', s'') (dtab m) -> (nth k sizes 0 <= s'')%Z -> (s' <= s'')%Z.
Proof.
  intros Tok H. destruct (tables_facts dtab ntab m Tok) as (_ & S2 & Inv & _ & N2 & _).
  apply traverse_some in H as [L N]. split; [exact L|]. intros k Hk.
  specialize (N k 0%Z 0%Z Hk). unfold C05_model.resolve_size in N.
  destruct (resolve (ntab m) (nth k sizes 0%Z)) as [[s' d']|] eqn:E; [|discriminate].
  cbn in N. injection N as N. destruct (resolve_some _ _ _ _ S2 N2 E) as (_ & Hin & Hle & Hleast).
  exists s'. rewrite <- N. split; [now apply Inv|]. split; [exact Hle|].
  intros d'' s'' Hin'' Hx. apply (Hleast s'' d''); [now apply Inv|exact Hx].
Qed.

Lemma zmem_in x l : zmem x l = true -> In x l.
Proof.
  induction l as [|y l IH]; cbn; [discriminate|]. destruct (Z.eqb_spec x y) as [->|]; cbn; [now left|right; auto].
Qed.
Lemma zdedupe_in x l : In x l -> In x (zdedupe l).
Proof.
  induction l as [|y l IH]; [intros []|]. intros [<-|Hin]; cbn [zdedupe].
  - destruct (zmem y l) eqn:E; [apply IH, zmem_in, E|now left].
  - destruct (zmem y l); [auto|right; auto].
Qed.

Lemma resolvable_convert m sizes : resolvableb ntab m sizes = true -> exists ds, convert m sizes = Some ds.
Proof.
  unfold resolvableb. rewrite forallb_forall. intros H. apply traverse_total. intros s Hs.
  specialize (H s (zdedupe_in s sizes Hs)).
  destruct (resolve_size m s); [discriminate|discriminate].
Qed.

Lemma expand_same n ds : length ds = n -> expand n ds = ds.
Proof. intros <-. destruct ds as [|d [|d' ds]]; reflexivity. Qed.

(* requests that are supported degrees are taken as they are *)
Lemma init_of_supported m rg spec c rotate l : tables_okb m = true -> rg_wf rg ->
  rg_okb o rg = true -> rot_okb rg rotate = true ->
  requested m (length (rg_pts rg)) spec = Some l -> length l = length (rg_pts rg) ->
  (forall d, In d l -> supported m d) ->
  exists g, atomgrid_init m rg spec c rotate = Some g /\ ag_degs g = l.
Proof.
  intros Tok W Hrg Hrot Hreq L Hsup.
  destruct (tables_facts dtab ntab m Tok) as (S1 & _ & _ & N1 & _ & Pos).
  assert (Hfix : forall d, In d l -> exists s, resolve (dtab m) d = Some (d, s)).
  { intros d Hd. destruct (Hsup d Hd) as [s Hs]. exists s. apply resolve_fix; eauto. }
  destruct (init_total o dtab ntab ang rot m rg spec c rotate l W Hrg Hrot Hreq L) as (sh & Hsh & Hinit).
  { intros d Hd. destruct (Hfix d Hd) as [s Hs]. unfold C05_model.resolve_degree. now rewrite Hs. }
  eexists. split; [exact Hinit|]. cbn [ag_degs C05_model.atomgrid_of].
  destruct (shells_of_spec o dtab ntab ang m rg l sh Tok W L Hsh) as [[ML _] K].
  apply nth_ext with (d := 0%Z) (d' := 0%Z); [rewrite map_length; lia|].
  rewrite map_length. intros k Hk. rewrite (nth_map_lt sh_deg sh k shell0 0%Z Hk).
  specialize (K k Hk). destruct (Hfix (nth k l 0%Z)) as [s Hs]; [apply nth_In; lia|].
  unfold C05_model.angular, C05_model.resolve_degree in K. rewrite Hs in K. now injection K as K _.
Qed.

Lemma find_row_in (tabs : ptables (T:=T)) preset atnum row : find_row tabs preset atnum = Some row ->
  In (preset, atnum, row) (all_rows tabs).
Proof.
  unfold find_row, all_rows. intros H.
  destruct (lookup_str preset tabs) as [t|] eqn:E; [|discriminate].
  apply in_flat_map. exists (preset, t). split.
  - clear H. induction tabs as [|[k v] tabs IH]; cbn in E; [discriminate|].
    destruct (String.eqb_spec preset k) as [->|]; [injection E as ->; now left|right; auto].
  - cbn [fst snd]. apply in_map_iff. exists (atnum, row). split; [reflexivity|].
    revert H. generalize (pt_rows t). intros l. induction l as [|[k v] l IH]; cbn; [discriminate|].
    destruct (Z.eqb_spec atnum k) as [->|]; [intros H; injection H as ->; now left|right; auto].
Qed.

(* ---- a tabulated (preset, atnum) that passes the decidable condition builds, for EVERY radial grid (of the
   prescribed size where the preset prescribes one), centre, seed; no shell is coarser than tabulated *)
Lemma preset_ok_builds_lemma cfg (tabs : ptables (T:=T)) m preset atnum row rg c rotate :
  tables_okb m = true -> rg_wf rg -> rg_okb o rg = true -> rot_okb rg rotate = true ->
  find_row tabs preset atnum = Some row ->
  preset_okb cfg tabs m preset atnum row = true ->
  (count_branch cfg preset atnum = true ->
   get_rgrid_size cfg tabs preset atnum = Some (Z.of_nat (length (rg_pts rg)))) ->
  exists g, from_preset cfg tabs m atnum preset rg c rotate = Some g /\
    length (ag_degs g) = length (rg_pts rg) /\
    forall k, k < length (rg_pts rg) ->
      exists s', In (nth k (ag_degs g) 0%Z, s') (dtab m) /\
                 (tabulated_size o cfg row preset atnum (rg_pts rg) k <= s')%Z.
Proof.
  intros Tok W Hrg Hrot Hrow Hok Hpre.
  unfold C05_model.from_preset. rewrite Hrg, Hrow. cbn [negb].
  unfold C05_model.preset_okb in Hok. unfold C05_model.preset_spec, tabulated_size.
  destruct (count_branch cfg preset atnum) eqn:Br.
  - (* shell counts *)
    destruct (sector_sizes row) as [ss|] eqn:Ess; [|discriminate].
    apply andb_prop in Hok as [Hok Hn]. apply andb_prop in Hok as [Hres Hne].
    destruct (resolvable_convert m ss Hres) as [ds Ec].
    rewrite (Hpre eq_refl) in Hn. apply Z.eqb_eq, Nat2Z.inj in Hn.
    destruct (convert_spec m ss ds Tok Ec) as [Lds Cs]. cbn [option_map].
    destruct (init_of_supported m rg (Sizes ss) c rotate ds Tok W Hrg Hrot) as (g & Hg & Hd).
    + unfold C05_proofs.requested. rewrite Ec. cbn [option_map]. f_equal. apply expand_same. lia.
    + lia.
    + intros d Hd. apply In_nth with (d := 0%Z) in Hd as (k & Hk & <-).
      destruct (Cs k ltac:(lia)) as (s' & Hin & _). now exists s'.
    + exists g. split; [exact Hg|]. rewrite Hd. split; [lia|]. intros k Hk.
      destruct (Cs k ltac:(lia)) as (s' & Hin & Hle & _). exists s'. split; [exact Hin|exact Hle].
  - (* sector radii *)
    apply andb_prop in Hok as [Hlen Hres]. apply Nat.eqb_eq in Hlen.
    destruct (tables_facts dtab ntab m Tok) as (S1 & _ & _ & N1 & _ & _).
    assert (Hsz : forall s, In s (pr_npt row) -> size_okb dtab ntab cfg m s = true).
    { rewrite forallb_forall in Hres. intros s Hs. apply Hres, zdedupe_in, Hs. }
    destruct (traverse_total (fun s => option_map fst (resolve_size (conv cfg m) s)) (pr_npt row)) as [ds Ec].
    { intros s Hs. specialize (Hsz s Hs). unfold size_okb in Hsz.
      destruct (resolve_size (conv cfg m) s) as [[d sz]|]; [discriminate|discriminate]. }
    change (traverse _ (pr_npt row)) with (C05_model.convert ntab (conv cfg m) (pr_npt row)) in Ec. rewrite Ec.
    pose proof Ec as Et. apply traverse_some in Et as [Lds Nds].
    (* every converted degree resolves in method m to a size not below the tabulated one *)
    assert (Cs : forall j, j < length (pr_npt row) -> exists d' s',
               resolve (dtab m) (nth j ds 0%Z) = Some (d', s') /\ (nth j (pr_npt row) 0 <= s')%Z).
    { intros j Hj. specialize (Nds j 0%Z 0%Z Hj). specialize (Hsz _ (nth_In _ 0%Z Hj)). unfold size_okb in Hsz.
      destruct (resolve_size (conv cfg m) (nth j (pr_npt row) 0%Z)) as [[d sz]|]; [|discriminate].
      cbn in Nds. injection Nds as <-. unfold C05_model.resolve_degree in Hsz.
      destruct (resolve (dtab m) d) as [[d' s']|]; [|discriminate]. exists d', s'. split; [reflexivity|]. now apply Z.leb_le. }
    destruct (sector_lookup_lemma o (rg_pts rg) (rad_as_T o (pr_rad row)) ds ltac:(lia)) as (l & Hl & Ll & Nl).
    rewrite Hl. cbn [option_map].
    destruct (init_total o dtab ntab ang rot m rg (Degrees l) c rotate l W Hrg Hrot) as (sh & Hsh & Hinit).
    + unfold C05_proofs.requested. cbn [option_map]. f_equal. now apply expand_same.
    + exact Ll.
    + intros d Hd. apply In_nth with (d := 0%Z) in Hd as (k & Hk & <-).
      destruct (Nl k ltac:(lia)) as (Hp & -> & _). rewrite Lds in Hp. destruct (Cs _ Hp) as (d' & s' & E & _).
      unfold C05_model.resolve_degree. now rewrite E.
    + destruct (shells_of_spec o dtab ntab ang m rg l sh Tok W Ll Hsh) as [[ML _] K].
      eexists. split; [exact Hinit|]. cbn [ag_degs C05_model.atomgrid_of]. rewrite map_length. split; [exact ML|].
      intros k Hk. rewrite (nth_map_lt sh_deg sh k shell0 0%Z) by lia.
      specialize (K k ltac:(lia)). destruct (Nl k Hk) as (Hp & En & _). rewrite Lds in Hp.
      destruct (Cs _ Hp) as (d' & s' & E & Hle).
      unfold C05_model.angular, C05_model.resolve_degree in K. rewrite En, E in K. injection K as K _.
      exists s'. rewrite <- K. split; [|exact Hle].
      now destruct (resolve_some _ _ _ _ S1 N1 E) as (_ & Hin & _).
Qed.

(* ---- the two ways a tabulated element fails to build *)
(* a shell-count row sent down the sector-radius branch: one count c, one size; every radial grid reaching beyond
   r = c raises (IndexError) *)
Lemma count_row_in_radius_branch_lemma cfg (tabs : ptables (T:=T)) m preset atnum cnt npt rg c rotate :
  count_branch cfg preset atnum = false ->
  find_row tabs preset atnum = Some (PRow (RadI [cnt]) [npt]) ->
  (exists r, In r (rg_pts rg) /\ ltb o (ofZ o cnt) r = true) ->
  from_preset cfg tabs m atnum preset rg c rotate = None.
Proof.
  intros Br Hrow (r & Hr & Hlt). unfold C05_model.from_preset. rewrite Hrow.
  destruct (negb (rg_okb o rg)); [reflexivity|].
  unfold C05_model.preset_spec. rewrite Br. cbn [pr_npt pr_rad rad_as_T map].
  destruct (convert (conv cfg m) [npt]) as [ds|] eqn:Ec; [|reflexivity].
  apply traverse_some in Ec as [L _]. destruct ds as [|d [|d' ds]]; cbn in L; try lia.
  unfold find_degrees. rewrite (traverse_none _ (rg_pts rg) r Hr); [reflexivity|].
  unfold position. cbn [count]. rewrite Hlt. reflexivity.
Qed.

(* a shell-count row with more counts than sizes raises (IndexError) for every radial grid *)
Lemma short_npt_lemma cfg (tabs : ptables (T:=T)) m preset atnum row rg c rotate :
  count_branch cfg preset atnum = true -> find_row tabs preset atnum = Some row -> sector_sizes row = None ->
  from_preset cfg tabs m atnum preset rg c rotate = None.
Proof.
  intros Br Hrow Hs. unfold C05_model.from_preset. rewrite Hrow.
  destruct (negb (rg_okb o rg)); [reflexivity|].
  unfold C05_model.preset_spec. rewrite Br, Hs. reflexivity.
Qed.

(* ---- never coarser: the degree used is the least supported degree not below the request *)
Lemma never_coarser_lemma m rg spec c rotate g degs : tables_okb m = true -> rg_wf rg ->
  atomgrid_init m rg spec c rotate = Some g -> requested m (length (rg_pts rg)) spec = Some degs ->
  length (ag_degs g) = length (rg_pts rg) /\
  forall k, k < length (rg_pts rg) ->
    exists s', In (nth k (ag_degs g) 0%Z, s') (dtab m) /\ (nth k degs 0 <= nth k (ag_degs g) 0)%Z /\
      forall d'' s'', In (d'', s'') (dtab m) -> (nth k degs 0 <= d'')%Z -> (nth k (ag_degs g) 0 <= d'')%Z.
Proof.
  intros Tok W Hinit Hreq.
  destruct (tables_facts dtab ntab m Tok) as (S1 & _ & _ & N1 & _ & _).
  destruct (init_shells_lemma o dtab ntab ang rot m rg spec c rotate g Tok W Hinit)
    as (_ & _ & degs' & sh & Hreq' & L & _ & -> & [ML _] & K).
  unfold C05_proofs.requested in Hreq, Hreq'. rewrite Hreq in Hreq'. injection Hreq' as <-.
  cbn [ag_degs C05_model.atomgrid_of]. rewrite map_length. split; [exact ML|].
  intros k Hk. rewrite (nth_map_lt sh_deg sh k shell0 0%Z) by lia.
  specialize (K k ltac:(lia)). unfold C05_model.angular, C05_model.resolve_degree in K.
  destruct (resolve (dtab m) (nth k degs 0%Z)) as [[d' s']|] eqn:E; [|discriminate].
  injection K as K _. rewrite <- K.
  destruct (resolve_some _ _ _ _ S1 N1 E) as (_ & Hin & Hle & Hleast). exists s'. auto.
Qed.

End Presets.

(* ================================================================== the light-weight shadow used for big grids *)
Lemma traverse_nth {A B} (f : A -> option B) l r da db : length l = length r ->
  (forall k, k < length l -> f (nth k l da) = Some (nth k r db)) -> traverse f l = Some r.
Proof.
  revert r; induction l as [|x l IH]; intros [|y r] L H; cbn in L; try lia; [reflexivity|].
  cbn [traverse]. pose proof (H 0 ltac:(cbn; lia)) as H0. cbn [nth] in H0. rewrite H0.
  rewrite (IH r); [reflexivity|lia|]. intros k Hk. apply (H (S k)). cbn; lia.
Qed.

Section LightAgrees.
Context {T : Type} (o : NumOps T).
Variable dtab ntab : method -> table.
Variable ang : method -> Z -> sphere (T:=T).
Variable rot : Z -> mat (T:=T).

Lemma light_init_agrees m rg spec c rotate g :
  tables_okb dtab ntab m = true -> rg_wf rg ->
  (forall d s, In (d, s) (dtab m) -> Z.of_nat (length (s_pts (ang m d))) = s) ->
  atomgrid_init o dtab ntab ang rot m rg spec c rotate = Some g ->
  light_init dtab ntab m (length (rg_pts rg)) spec = Some (ag_degs g, ag_idx g).
Proof.
  intros Tok W Hsz Hinit.
  destruct (tables_facts dtab ntab m Tok) as (S1 & _ & _ & N1 & _ & _).
  destruct (init_shells_lemma o dtab ntab ang rot m rg spec c rotate g Tok W Hinit)
    as (_ & _ & degs & sh & Hreq & L & _ & -> & [ML _] & K).
  unfold light_init. unfold requested in Hreq. rewrite Hreq, L, Nat.eqb_refl. cbn [negb].
  rewrite (traverse_nth _ degs (map (fun s => (sh_deg s, sh_size s)) sh) 0%Z (0%Z, 0%Z)).
  - cbn [ag_degs ag_idx atomgrid_of]. rewrite !map_map. cbn [fst snd]. reflexivity.
  - rewrite map_length. lia.
  - intros k Hk. rewrite (nth_map_lt _ sh k (shell0 o)) by lia.
    specialize (K k ltac:(lia)). unfold angular, resolve_degree in *.
    destruct (resolve (dtab m) (nth k degs 0%Z)) as [[d' s']|] eqn:E; [|discriminate].
    injection K as K1 K2. destruct (resolve_some _ _ _ _ S1 N1 E) as (_ & Hin & _).
    unfold sh_size. rewrite <- K2, <- K1, (Hsz d' s' Hin). reflexivity.
Qed.

Lemma light_init_builds m rg spec c rotate r : rg_wf rg -> rg_okb o rg = true -> rot_okb rg rotate = true ->
  light_init dtab ntab m (length (rg_pts rg)) spec = Some r ->
  exists g, atomgrid_init o dtab ntab ang rot m rg spec c rotate = Some g.
Proof.
  intros W Hrg Hrot H. unfold light_init in H.
  destruct (option_map (expand (length (rg_pts rg))) _) as [degs|] eqn:Hreq; [|discriminate].
  destruct (Nat.eqb_spec (length degs) (length (rg_pts rg))) as [L|]; [|discriminate]. cbn [negb] in H.
  destruct (traverse (resolve_degree dtab m) degs) as [ds|] eqn:Et; [|discriminate].
  destruct (init_total o dtab ntab ang rot m rg spec c rotate degs W Hrg Hrot Hreq L) as (sh & _ & Hi).
  - intros d Hd Hn. apply (traverse_none _ _ _ Hd) in Hn. congruence.
  - eauto.
Qed.
End LightAgrees.

(* ================================================================== pruned grids: degree of every radial point *)
Section Pruned.
Context {T : Type} (o : NumOps T).
Variable dtab : method -> table.

Lemma pruned_lookup_lemma m (rpts : list T) radius rsec dsec l :
  degree_from_radius o dtab m rpts radius rsec dsec = Some l ->
  length dsec = S (length rsec) /\ length l = length rpts /\
  forall k, k < length rpts ->
    let p := position o (map (fun s => mul o s radius) rsec) (nth k rpts (zero o)) in
    p < length dsec /\ exists s', resolve_degree dtab m (nth p dsec 0%Z) = Some (nth k l 0%Z, s').
Proof.
  unfold degree_from_radius. intros H.
  destruct (Z.eqb_spec (Z.of_nat (length dsec) - Z.of_nat (length rsec)) 1) as [E|]; [|discriminate].
  cbn [negb] in H.
  destruct (traverse (fun d => option_map fst (resolve_degree dtab m d)) dsec) as [md|] eqn:Em; [|discriminate].
  apply traverse_some in Em as [Lm Nm].
  assert (Ld : length dsec = S (length rsec)) by lia. split; [exact Ld|].
  destruct (sector_lookup_lemma o rpts (map (fun s : T => mul o s radius) rsec) md) as (l' & Hl' & Ll & Nl).
  { rewrite map_length. lia. }
  rewrite Hl' in H. injection H as <-. split; [exact Ll|]. intros k Hk.
  destruct (Nl k Hk) as (Hp & Hn & _). rewrite Lm in Hp. split; [exact Hp|].
  specialize (Nm _ 0%Z 0%Z Hp). rewrite <- Hn in Nm.
  destruct (resolve_degree dtab m _) as [[d' s']|]; [|discriminate]. cbn in Nm. injection Nm as <-. now exists s'.
Qed.
End Pruned.

(* ================================================================== the instance at the real numbers *)
From Coq Require Import Reals Lra RealField Sorted.

Definition Rltb (x y : R) : bool := if Rlt_dec x y then true else false.
Definition ROps : NumOps R := MkOps R 0%R 1%R Rplus Rmult Rminus Ropp Rltb IZR.

Lemma R_ring_lemma : ring_theory (zero ROps) (one ROps) (add ROps) (mul ROps) (sub ROps) (opp ROps) eq.
Proof. exact RTheory. Qed.

(* a unit direction, rotated by an orthogonal matrix and scaled by r >= 0, lies at distance r *)
Lemma radius_R_lemma (M : mat) (p : vec) (r : R) :
  orthogonal ROps M -> normsq ROps p = 1%R -> (0 <= r)%R ->
  sqrt (normsq ROps (vscale ROps (vecmat ROps p M) r)) = r /\ sqrt (normsq ROps (vscale ROps p r)) = r.
Proof.
  intros HM Hp Hr.
  rewrite !(vscale_normsq ROps R_ring_lemma), (vecmat_normsq ROps R_ring_lemma M p HM), Hp.
  cbn [mul ROps one]. rewrite Rmult_1_r. split; now apply sqrt_square.
Qed.

(* with ascending sector radii the position is the number of the sector the radius lies in *)
Lemma position_sorted_R_lemma (rsec : list R) (r : R) : StronglySorted Rle rsec ->
  let p := position ROps rsec r in
  (forall j, j < p -> (nth j rsec 0 < r)%R) /\ (forall j, p <= j < length rsec -> (r <= nth j rsec 0)%R).
Proof.
  induction 1 as [|s t St IH Hall]; cbn zeta; [cbn; split; intros; lia|].
  unfold position in *. cbn [count ltb ROps] in *.
  destruct (Rltb s r) eqn:E; unfold Rltb in E; destruct (Rlt_dec s r) as [Hlt|Hge]; try discriminate; clear E.
  - cbn zeta in IH. destruct IH as [I1 I2]. cbn [Nat.add]. split.
    + intros [|j] Hj; cbn [nth]; [exact Hlt|]. apply I1. cbn in Hj. lia.
    + intros [|j] Hj; cbn in Hj; [lia|]. cbn [nth]. apply I2. lia.
  - assert (Z0 : count (fun s0 => Rltb s0 r) t = 0).
    { clear IH St. induction Hall as [|x t Hx _ IHt]; [reflexivity|]. cbn [count]. rewrite IHt.
      unfold Rltb. destruct (Rlt_dec x r); [lra|reflexivity]. }
    rewrite Z0. cbn [Nat.add]. split; [intros; lia|].
    intros [|j] Hj; cbn [nth]; [lra|]. cbn in Hj. rewrite Forall_forall in Hall.
    assert (In (nth j t 0%R) t) by (apply nth_In; lia). specialize (Hall _ H). lra.
Qed.
