(* C05 — executable instance at exact rationals (Bignums.BigQ) and the comparison helpers used by the
   correspondence cases (implementation values are handed over as the exact rationals of the floats).
   No proofs in this file. *)
From Coq Require Import String List ZArith Bool.
From Bignums Require Import BigQ.
From VLib Require Import Tables.
From P Require Import C05_model.
Import ListNotations.

Definition bigQ_ltb (x y : bigQ) : bool := match BigQ.compare x y with Lt => true | _ => false end.
Definition bigQ_leb (x y : bigQ) : bool := match BigQ.compare x y with Gt => false | _ => true end.
Definition QOps : NumOps bigQ :=
  MkOps bigQ 0%bigQ 1%bigQ BigQ.add BigQ.mul BigQ.sub BigQ.opp bigQ_ltb (fun z => BigQ.Qz (BigZ.of_Z z)).

Definition qvec := @vec bigQ.
Definition qabs (x : bigQ) : bigQ := if bigQ_leb 0%bigQ x then x else BigQ.opp x.
Definition vabs (v : qvec) : qvec := (qabs (vx v), qabs (vy v), qabs (vz v)).
Definition mabs (M : @mat bigQ) : @mat bigQ := (vabs (row0 M), vabs (row1 M), vabs (row2 M)).
Definition sph_abs (s : @sphere bigQ) : @sphere bigQ := Sph (map vabs (s_pts s)) (s_wts s).

Definition u53 : bigQ := BigQ.Qq 1%bigZ 9007199254740992%bigN.        (* unit roundoff 2^-53 *)

Fixpoint forall2b {A B} (f : A -> B -> bool) (a : list A) (b : list B) : bool :=
  match a, b with [], [] => true | x :: r, y :: s => f x y && forall2b f r s | _, _ => false end.
Fixpoint forall3b {A B C} (f : A -> B -> C -> bool) (a : list A) (b : list B) (c : list C) : bool :=
  match a, b, c with
  | [], [], [] => true
  | x :: r, y :: s, z :: t => f x y z && forall3b f r s t
  | _, _, _ => false
  end.

Definition qlist_eqb := forall2b BigQ.eqb.
Definition zlist_eqb := forall2b Z.eqb.
Definition vec_eqb (a b : qvec) : bool := BigQ.eqb (vx a) (vx b) && BigQ.eqb (vy a) (vy b) && BigQ.eqb (vz a) (vz b).
Definition pts_eqb := forall2b vec_eqb.

(* |obs - model| <= tol, one coordinate.
     rotated      : the point went through `points @ rot_mt` (three products and two additions in floating point, any
                    order, fused or not): error <= gamma_3 * sum_k |p_k| |M_kj| * r  <  4u * (abs model coordinate);
     centre_added : one more rounding by `_points + center`: error <= 2*tol + u*|model|.
   Without rotation and centre the float result is exact (radii are 0 or powers of two).                        *)
Definition coord_close (rotated centre_added : bool) (model bound obs : bigQ) : bool :=
  let t0 := if rotated then (4 * u53 * bound)%bigQ else 0%bigQ in
  let t := if centre_added then (2 * t0 + u53 * qabs model)%bigQ else t0 in
  bigQ_leb (qabs (obs - model)%bigQ) t.
Definition vec_close (rotated centre_added : bool) (model bound obs : qvec) : bool :=
  coord_close rotated centre_added (vx model) (vx bound) (vx obs) &&
  coord_close rotated centre_added (vy model) (vy bound) (vy obs) &&
  coord_close rotated centre_added (vz model) (vz bound) (vz obs).
Definition pts_close (rotated centre_added : bool) (model bound obs : list qvec) : bool :=
  forall3b (vec_close rotated centre_added) model bound obs.

(* light-weight shadow of the constructor: degrees and index table only (sizes from the degree table instead of
   the lengths of the angular grids) — proved equal to the model's in C05_proofs (light_init_agrees) *)
Section Light.
Variable dtab ntab : method -> table.
Definition light_init (m : method) (n : nat) (spec : degspec) : option (list Z * list Z) :=
  match option_map (expand n) (match spec with Sizes s => convert ntab m s | Degrees d => Some d end) with
  | None => None
  | Some degs =>
      if negb (Nat.eqb (length degs) n) then None
      else match traverse (resolve_degree dtab m) degs with
           | None => None
           | Some ds => Some (map fst ds, prefix 0%Z (map snd ds))
           end
  end.
Definition light_preset {T} (o : NumOps T) (cfg : pcfg) (tabs : ptables) (m : method) (atnum : Z) (preset : string)
                        (rpts : list T) : option (list Z * list Z) :=
  if negb (rg_okb o (RG rpts rpts)) then None
  else match find_row tabs preset atnum with
       | None => None
       | Some row => match preset_spec o ntab cfg m row preset atnum rpts with
                     | None => None
                     | Some spec => light_init m (length rpts) spec
                     end
       end.
Definition light_pruned {T} (o : NumOps T) (m : method) (rpts : list T) (radius : T) (rsec : list T) (spec : degspec)
  : option (list Z * list Z) :=
  match (match spec with Sizes s => convert ntab m s | Degrees d => Some d end) with
  | None => None
  | Some dsec =>
      if negb (rg_okb o (RG rpts rpts)) then None
      else match degree_from_radius o dtab m rpts radius rsec dsec with
           | None => None
           | Some degs => light_init m (length rpts) (Degrees degs)
           end
  end.
End Light.

Definition opt_pair_eqb (a b : option (list Z * list Z)) : bool :=
  match a, b with
  | None, None => true
  | Some (x, y), Some (u, v) => zlist_eqb x u && zlist_eqb y v
  | _, _ => false
  end.
Definition is_none {A} (x : option A) : bool := match x with None => true | Some _ => false end.

(* comparison of a whole constructed grid with the observation *)
Record observed := Obs {
  o_pts : list qvec;      (* .points *)
  o_pts0 : list qvec;     (* ._points *)
  o_wts : list bigQ; o_idx : list Z; o_degs : list Z }.

Definition grid_matches (rotated : bool) (g gabs : @atomgrid bigQ) (ob : observed) : bool :=
  pts_close rotated false (ag_pts0 g) (ag_pts0 gabs) (o_pts0 ob) &&
  pts_close rotated true (ag_points QOps g) (ag_pts0 gabs) (o_pts ob) &&
  qlist_eqb (ag_wts g) (o_wts ob) && zlist_eqb (ag_idx g) (o_idx ob) && zlist_eqb (ag_degs g) (o_degs ob).

Definition shell_matches (rotated : bool) (s sabs : option (@sphere bigQ)) (pts : list qvec) (wts : list bigQ) : bool :=
  match s, sabs with
  | Some s, Some sa => pts_close rotated false (s_pts s) (s_pts sa) pts && qlist_eqb (s_wts s) wts
  | _, _ => false
  end.
