(* C04 property theorems (statements only). *)
From Coq Require Import Reals List.
From Coquelicot Require Import Coquelicot.
From P Require Import C03_gen C04_gen C04_model C04_proofs.
Open Scope R_scope.

Theorem points_mapped : forall tf dv g, map fst (transform_grid tf dv g) = map tf (map fst g).
Proof. exact points_mapped_lemma. Qed.
Print Assumptions points_mapped.

(* summing f over the new grid = the original rule applied to f(r(x)) times the code's Jacobian factor *)
Theorem sum_transport : forall tf dv g f,
  quad (transform_grid tf dv g) f = quad g (fun x => f (tf x) * (t1d_weight tf dv x 1)).
Proof. exact sum_transport_lemma. Qed.
Print Assumptions sum_transport.

Theorem sum_transport_abs : forall tf dv g f,
  List.Forall (fun p => 0 <= t1d_weight tf dv (fst p) 1) g ->
  quad (transform_grid tf dv g) f = quad g (fun x => f (tf x) * Rabs (t1d_weight tf dv x 1)).
Proof. exact sum_transport_abs_lemma. Qed.
Print Assumptions sum_transport_abs.

Theorem weights_nonneg_increasing : forall tf dv g,
  List.Forall (fun p => 0 <= snd p /\ 0 <= dv (fst p)) g -> List.Forall (fun p => 0 <= snd p) (transform_grid tf dv g).
Proof. exact weights_nonneg_lemma. Qed.
Print Assumptions weights_nonneg_increasing.

Theorem domain_ordered : forall tf d, fst (transform_domain tf d) <= snd (transform_domain tf d).
Proof. exact domain_ordered_lemma. Qed.
Print Assumptions domain_ordered.

Theorem domain_contains : forall tf dv g a b,
  ((forall x y, a <= x <= b -> a <= y <= b -> x <= y -> tf x <= tf y) \/
   (forall x y, a <= x <= b -> a <= y <= b -> x <= y -> tf y <= tf x)) ->
  a <= b -> List.Forall (fun p => a <= fst p <= b) g ->
  List.Forall (fun p => fst (transform_domain tf (a, b)) <= fst p <= snd (transform_domain tf (a, b))) (transform_grid tf dv g).
Proof. exact domain_contains_lemma. Qed.
Print Assumptions domain_contains.

(* a rule exact to degree D on [-1,1] (e.g. Gauss-Legendre, D = 2n-1: oracle hypothesis), mapped linearly to [a,b], is exact to degree D on [a,b] *)
Theorem linear_exactness_transport : forall (g : grid) (D : nat) a b, a < b ->
  (forall q, Poly D q -> quad g q = RInt q (-1) 1) ->
  forall p, Poly D p ->
  quad (transform_grid (LinearFinite_transform a b) (LinearFinite_deriv a b) g) p = RInt p a b.
Proof. exact linear_exactness_transport_lemma. Qed.
Print Assumptions linear_exactness_transport.
