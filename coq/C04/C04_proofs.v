From Coq Require Import Reals List Lra Lia.
From Coquelicot Require Import Coquelicot.
From P Require Import C03_gen C04_gen C04_model C03_proofs_simple.
Import ListNotations.
Open Scope R_scope.

(* nodes are the mapped nodes; summing g over the new grid = old rule applied to g(r(x)) * (code's Jacobian factor) *)
Lemma points_mapped_lemma tf dv g : map fst (transform_grid tf dv g) = map tf (map fst g).
Proof. unfold transform_grid. rewrite !map_map. apply map_ext. intros [x w]. reflexivity. Qed.

Lemma sum_transport_lemma tf dv g f :
  quad (transform_grid tf dv g) f = quad g (fun x => f (tf x) * (t1d_weight tf dv x 1)).
Proof.
  unfold quad, transform_grid. rewrite map_map. induction g as [|[x w] g IH]; cbn [map fold_right]; [reflexivity|].
  rewrite IH. cbn [fst snd]. unfold t1d_weight, t1d_point. ring.
Qed.

(* with the magnitude of the Jacobian, wherever the code's factor is non-negative at the nodes *)
Lemma sum_transport_abs_lemma tf dv g f :
  List.Forall (fun p => 0 <= t1d_weight tf dv (fst p) 1) g ->
  quad (transform_grid tf dv g) f = quad g (fun x => f (tf x) * Rabs (t1d_weight tf dv x 1)).
Proof.
  intros H. rewrite sum_transport_lemma. unfold quad. induction g as [|[x w] g IH]; cbn [map fold_right]; [reflexivity|].
  inversion H as [|? ? H1 H2]; subst. cbn [fst snd] in *. rewrite (IH H2).
  rewrite (Rabs_pos_eq _ H1). reflexivity.
Qed.

Lemma weights_nonneg_lemma tf dv g :
  List.Forall (fun p => 0 <= snd p /\ 0 <= dv (fst p)) g -> List.Forall (fun p => 0 <= snd p) (transform_grid tf dv g).
Proof.
  intros H. unfold transform_grid. apply Forall_map. eapply Forall_impl; [|exact H].
  intros [x w] [Hw Hd]. cbn [fst snd] in *. unfold t1d_weight. now apply Rmult_le_pos.
Qed.

(* the new domain is the ordered image and contains every new node, for monotone maps (either direction) *)
Lemma domain_ordered_lemma tf d : fst (transform_domain tf d) <= snd (transform_domain tf d).
Proof. unfold transform_domain. cbn [fst snd]. apply Rle_trans with (tf (fst d)); [apply Rmin_l|apply Rmax_l]. Qed.

Lemma domain_contains_lemma tf dv g a b :
  ((forall x y, a <= x <= b -> a <= y <= b -> x <= y -> tf x <= tf y) \/
   (forall x y, a <= x <= b -> a <= y <= b -> x <= y -> tf y <= tf x)) ->
  a <= b -> List.Forall (fun p => a <= fst p <= b) g ->
  List.Forall (fun p => fst (transform_domain tf (a, b)) <= fst p <= snd (transform_domain tf (a, b))) (transform_grid tf dv g).
Proof.
  intros Hm Hab H. unfold transform_grid. apply Forall_map. eapply Forall_impl; [|exact H].
  intros [x w] Hx. cbn [fst snd] in *. unfold transform_domain, t1d_point. cbn [fst snd].
  destruct Hm as [Hi|Hd].
  - assert (tf a <= tf x) by (apply Hi; lra). assert (tf x <= tf b) by (apply Hi; lra).
    split; [eapply Rle_trans; [apply Rmin_l|assumption]|eapply Rle_trans; [eassumption|apply Rmax_r]].
  - assert (tf x <= tf a) by (apply Hd; lra). assert (tf b <= tf x) by (apply Hd; lra).
    split; [eapply Rle_trans; [apply Rmin_r|assumption]|eapply Rle_trans; [eassumption|apply Rmax_l]].
Qed.

Lemma quad_ext g f f' : (forall x, f x = f' x) -> quad g f = quad g f'.
Proof. intros H. unfold quad. f_equal. apply map_ext. intros [x w]. cbn [fst snd]. now rewrite H. Qed.

(* affine substitution keeps the degree *)
Lemma Poly_affine n p al be : Poly n p -> Poly n (fun x => p (al * x + be)).
Proof.
  induction 1 as [c| |n m f g Hf IHf Hg IHg|n m f g Hf IHf Hg IHg|n m f Hf IHf Hle|n f g Hf IHf He].
  - apply Pconst.
  - apply (Pext 1 (fun x => (fun _ => al) x * (fun x => x) x + (fun _ => be) x)); [|intros; reflexivity].
    apply (Padd 1 0). + apply (Pmul 0 1); constructor. + constructor.
  - now apply (Padd n m).
  - now apply (Pmul n m).
  - now apply (Pweaken n m).
  - apply (Pext n (fun x => f (al * x + be))); [assumption|intros; apply He].
Qed.

Lemma Poly_continuous n p : Poly n p -> forall x, continuous p x.
Proof.
  induction 1 as [c| |n m f g Hf IHf Hg IHg|n m f g Hf IHf Hg IHg|n m f Hf IHf Hle|n f g Hf IHf He]; intros x.
  - apply continuous_const.
  - apply continuous_id.
  - apply (continuous_plus f g); auto.
  - apply (continuous_mult f g); auto.
  - auto.
  - apply (continuous_ext f g); auto.
Qed.

(* exactness is transported: a rule on [-1,1] exact to degree D, mapped linearly to [a,b], is exact to degree D on [a,b] *)
Lemma linear_exactness_transport_lemma (g : grid) (D : nat) a b : a < b ->
  (forall q, Poly D q -> quad g q = RInt q (-1) 1) ->
  forall p, Poly D p ->
  quad (transform_grid (LinearFinite_transform a b) (LinearFinite_deriv a b) g) p = RInt p a b.
Proof.
  intros Hab Hex p Hp. rewrite sum_transport_lemma.
  set (al := (b - a) / 2). set (be := (a + b) / 2).
  assert (E : forall x, p (LinearFinite_transform a b x) * t1d_weight (LinearFinite_transform a b) (LinearFinite_deriv a b) x 1
                        = (fun _ => al) x * (fun x => p (al * x + be)) x).
  { intros x. unfold t1d_weight, LinearFinite_transform, LinearFinite_deriv, al, be. 
    replace ((1 + x) * (b - a) / 2 + a) with ((b - a) / 2 * x + (a + b) / 2) by field. field. }
  rewrite (quad_ext g _ _ E).
  rewrite Hex.
  2:{ apply (Pweaken (0 + D)); [|lia]. apply (Pmul 0 D); [constructor|now apply Poly_affine]. }
  (* change of variables in the integral *)
  assert (Hc : ex_RInt p (al * -1 + be) (al * 1 + be)).
  { apply (ex_RInt_continuous p). intros z _. eapply Poly_continuous; eassumption. }
  pose proof (RInt_comp_lin p al be (-1) 1 Hc) as Hl.
  replace (al * -1 + be) with a in Hl by (unfold al, be; field).
  replace (al * 1 + be) with b in Hl by (unfold al, be; field).
  rewrite <- Hl. apply RInt_ext. intros x _. unfold scal; simpl; unfold mult; simpl. reflexivity.
Qed.

Example nonvacuous : Poly 3 (fun x => x * x * x + 2) /\ quad [(0, 2)] (fun _ => 1) = 2.
Proof.
  split.
  - apply (Pext 3 (fun x => (fun x => (fun x => x) x * (fun x => x) x) x * (fun x => x) x + (fun _ => 2) x)); [|intros; reflexivity].
    apply (Pweaken (Nat.max 3 0)); [|lia]. apply (Padd 3 0); [|constructor].
    apply (Pmul 2 1); [apply (Pmul 1 1); constructor|constructor].
  - unfold quad. simpl. ring.
Qed.
