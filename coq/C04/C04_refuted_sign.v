(* Compiled to explain a failure of weights_nonneg_decreasing: the code multiplies by the signed derivative. *)
From Coq Require Import Reals Lra.
From Coquelicot Require Import Coquelicot.
From P Require Import C03_gen C04_gen C04_model.
Open Scope R_scope.

Lemma weights_nonneg_refuted_lemma : exists rmin R_ x w, 0 < R_ /\ -1 < x < 1 /\ 0 <= w /\
  t1d_weight (MultiExp_transform rmin R_) (MultiExp_deriv rmin R_) x w < 0.
Proof.
  exists 0, 1, 0, 1. repeat split; try lra. unfold t1d_weight, MultiExp_deriv.
  replace (- (1) / (1 + 0) * 1) with (-1) by field. lra.
Qed.
