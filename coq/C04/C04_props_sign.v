From Coq Require Import Reals.
From Coquelicot Require Import Coquelicot.
From P Require Import C03_gen C04_gen C04_model C04_proofs_sign.
Open Scope R_scope.

(* positive weights stay non-negative also when the map is decreasing (the multi-exponential map) *)
Theorem weights_nonneg_decreasing : forall rmin R_ x w, 0 < R_ -> -1 < x < 1 -> 0 <= w ->
  0 <= t1d_weight (MultiExp_transform rmin R_) (MultiExp_deriv rmin R_) x w.
Proof. exact weights_nonneg_decreasing_lemma. Qed.
Print Assumptions weights_nonneg_decreasing.
