(* positive weights stay non-negative also for the decreasing map (holds iff the code uses the magnitude of the Jacobian) *)
From Coq Require Import Reals Lra.
From Coquelicot Require Import Coquelicot.
From P Require Import C03_gen C04_gen C04_model C03_proofs_simple.
Open Scope R_scope.

Lemma weights_nonneg_decreasing_lemma rmin R_ x w : 0 < R_ -> -1 < x < 1 -> 0 <= w ->
  0 <= t1d_weight (MultiExp_transform rmin R_) (MultiExp_deriv rmin R_) x w.
Proof.
  intros HR Hx Hw. unfold t1d_weight.
  first [ apply Rmult_le_pos; [apply Rabs_pos|exact Hw]
        | rewrite Rmult_comm; apply Rmult_le_pos; [exact Hw|apply Rabs_pos] ].
Qed.
