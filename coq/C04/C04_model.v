(* C04: hand model of the array plumbing of BaseTransform.transform_1d_grid around the generated elementwise
   formulas t1d_point / t1d_weight (C04_gen.v, regenerated from rtransform.py each run). *)
From Coq Require Import Reals List.
From P Require Import C04_gen.
Import ListNotations.
Open Scope R_scope.

Definition grid := list (R * R).                                   (* (node, weight) *)
Definition quad (g : grid) (f : R -> R) : R := fold_right Rplus 0 (map (fun p => snd p * f (fst p)) g).
Definition transform_grid (tf dv : R -> R) (g : grid) : grid :=
  map (fun p => (t1d_point tf dv (fst p) (snd p), t1d_weight tf dv (fst p) (snd p))) g.
(* new_domain = tuple(np.sort(self.transform(np.array(domain)))) *)
Definition transform_domain (tf : R -> R) (d : R * R) : R * R := (Rmin (tf (fst d)) (tf (snd d)), Rmax (tf (fst d)) (tf (snd d))).

(* polynomials of degree <= n as functions (closed under affine substitution, used for exactness transport) *)
Inductive Poly : nat -> (R -> R) -> Prop :=
| Pconst c : Poly 0 (fun _ => c)
| Pid : Poly 1 (fun x => x)
| Padd n m f g : Poly n f -> Poly m g -> Poly (Nat.max n m) (fun x => f x + g x)
| Pmul n m f g : Poly n f -> Poly m g -> Poly (n + m) (fun x => f x * g x)
| Pweaken n m f : Poly n f -> (n <= m)%nat -> Poly m f
| Pext n f g : Poly n f -> (forall x, f x = g x) -> Poly n g.
