(* C16 property theorems (statements only): the ODE of the initial-value solver. *)
From Coq Require Import Reals ZArith List Bool.
From Coquelicot Require Import Coquelicot.
From P Require Import C16_base C16_gen C16_model C16_proofs_radial C16_proofs_ivp.
Import ListNotations.
Open Scope R_scope.

(* the ODE handed to solve_ode_ivp is the radial Poisson equation for V itself *)
Theorem ivp_ode_is_radial_poisson : forall rho k l (V V1 V2 : R -> R) r, 0 < r ->
  (ivp_ode rho k l V V1 V2 r <->
   radial_op (IZR (l * (l + 1))) (ivp_radial_value V r) (V1 r) (V2 r) r = -4 * PI * rho (ivp_fx_index k) r).
Proof. exact ivp_is_radial_poisson_lemma. Qed.
Print Assumptions ivp_ode_is_radial_poisson.
