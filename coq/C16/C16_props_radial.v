(* C16 property theorems (statements only): radial Laplacian identity. *)
From Coq Require Import Reals ZArith List Bool.
From Coquelicot Require Import Coquelicot.
From P Require Import C16_base C16_gen C16_model C16_proofs_radial.
Import ListNotations.
Open Scope R_scope.

(* V = u/r is twice differentiable where u is, and  V'' + 2V'/r - c V/r^2 = (u'' - c u/r^2)/r  (c = l(l+1)) *)
Theorem radial_laplacian : forall (u u1 u2 : R -> R) (c : R),
  (forall t, 0 < t -> is_derive u t (u1 t)) -> (forall t, 0 < t -> is_derive u1 t (u2 t)) ->
  (forall t, 0 < t -> is_derive (fun s => u s / s) t (Vq1 u u1 t)) /\
  (forall t, 0 < t -> is_derive (Vq1 u u1) t (Vq2 u u1 u2 t)) /\
  (forall r, 0 < r -> radial_op c (u r / r) (Vq1 u u1 r) (Vq2 u u1 u2 r) r = (u2 r - c * u r / r ^ 2) / r).
Proof. exact radial_laplacian_lemma. Qed.
Print Assumptions radial_laplacian.
