(* C16 — interpolate_laplacian: the per-row radial operator. *)
From Coq Require Import Reals Lra ZArith List.
From Coquelicot Require Import Coquelicot.
From P Require Import C16_base C16_gen C16_model C16_proofs_radial.
Import ListNotations.
Open Scope R_scope.

(* ---------------------------------------------------------------- interpolate_laplacian *)
Lemma laplacian_row_lemma (f f1 f2 : R -> R) (l : Z) :
  (forall t, 0 < t -> is_derive f t (f1 t)) -> (forall t, 0 < t -> is_derive f1 t (f2 t)) ->
  (forall t, 0 < t -> is_derive (fun s => s * f s) t (f t + t * f1 t)) /\
  (forall t, 0 < t -> is_derive (fun s => f s + s * f1 s) t (2 * f1 t + t * f2 t)) /\
  (forall r, 0 < r ->
     lap_row (f r) (f1 r) (f2 r) (IZR (l * (l + 1))) r = radial_op (IZR (l * (l + 1))) (f r) (f1 r) (f2 r) r /\
     lap_row (f r) (f1 r) (f2 r) (IZR (l * (l + 1))) r = (2 * f1 r + r * f2 r) / r - IZR (l * (l + 1)) * f r / r ^ 2).
Proof.
  intros Df Df1. split; [|split].
  - intros t Ht. evar_last.
    + apply (is_derive_mult (fun s => s) f t 1 (f1 t)); [apply (is_derive_id t)|apply Df; exact Ht|intros; apply Rmult_comm].
    + unfold plus, mult; simpl. ring.
  - intros t Ht. evar_last.
    + apply (is_derive_plus f (fun s => s * f1 s) t (f1 t) (1 * f1 t + t * f2 t)); [apply Df; exact Ht|].
      apply (is_derive_mult (fun s => s) f1 t 1 (f2 t)); [apply (is_derive_id t)|apply Df1; exact Ht|intros; apply Rmult_comm].
    + unfold plus; simpl. ring.
  - intros r Hr. unfold lap_row, radial_op. split; field; lra.
Qed.

