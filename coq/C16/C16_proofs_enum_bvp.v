(* C16 — the loop nest of _solve_poisson_bvp_atomgrid. *)
From Coq Require Import Reals ZArith List Bool Lia.
From P Require Import C16_base C16_gen C16_model C16_proofs_enum.
Import ListNotations.
Open Scope Z_scope.

Lemma bvp_ml_length l : 0 <= l -> length (bvp_m_list l) = Z.to_nat (2 * l + 1).
Proof. intros H. unfold bvp_m_list. rewrite app_length, !map_length, !zrange_length. lia. Qed.
Lemma bvp_enumeration_lemma : enumeration_statement bvp_iters bvp_is_monopole bvp_fx_index.
Proof.
  apply (enumeration_generic bvp_l_range bvp_m_list); try reflexivity. apply bvp_ml_length.
Qed.
(* remark (not a defect: m_ord is only compared with 0 when l_deg = 0): the loop variable m_ord does NOT run over the orders
   of the Horton rows -- for l_deg = 2 it takes the values 0, 1, 2, 2, 1, not 0, 1, -1, 2, -2. *)
Lemma m_ord_labels_remark : bvp_m_list 2 = [0; 1; 2; 2; 1] /\ map row_order (zrange 4 9) = [0; 1; -1; 2; -2].
Proof. split; reflexivity. Qed.

Example enumeration_nonvacuous : map fst (bvp_iters 1) = [0; 1; 2; 3] /\ map (fun it => fst (snd it)) (bvp_iters 1) = [0; 1; 1; 1].
Proof. split; reflexivity. Qed.
