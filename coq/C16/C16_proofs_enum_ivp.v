(* C16 — the loop nest of _solve_poisson_ivp_atomgrid. *)
From Coq Require Import Reals ZArith List Bool Lia.
From P Require Import C16_base C16_gen C16_model C16_proofs_enum.
Import ListNotations.
Open Scope Z_scope.

Lemma ivp_ml_length l : 0 <= l -> length (ivp_m_list l) = Z.to_nat (2 * l + 1).
Proof. intros H. unfold ivp_m_list. rewrite app_length, !map_length, !zrange_length. lia. Qed.

Lemma ivp_enumeration_lemma : enumeration_statement ivp_iters ivp_is_monopole ivp_fx_index.
Proof.
  apply (enumeration_generic ivp_l_range ivp_m_list); try reflexivity. apply ivp_ml_length.
Qed.

