(* C16 — the ODE handed to solve_ode_ivp is the radial Poisson equation for V. *)
From Coq Require Import Reals Lra ZArith List.
From Coquelicot Require Import Coquelicot.
From P Require Import C16_base C16_gen C16_model C16_proofs_radial.
Import ListNotations.
Open Scope R_scope.

(* ---------------------------------------------------------------- the IVP: V itself *)
Definition ivp_ode (rho : Z -> R -> R) (k l : Z) (V V1 V2 : R -> R) (r : R) : Prop :=
  ode_lhs (at_degree ivp_coeffs l) [V r; V1 r; V2 r] r = ivp_fx rho k r.

Lemma ivp_is_radial_poisson_lemma rho k l (V V1 V2 : R -> R) r : 0 < r ->
  (ivp_ode rho k l V V1 V2 r <->
   radial_op (IZR (l * (l + 1))) (ivp_radial_value V r) (V1 r) (V2 r) r = -4 * PI * rho (ivp_fx_index k) r).
Proof.
  intros Hr. unfold ivp_ode, ivp_fx, at_degree, ivp_coeffs, ivp_coeff_0, ivp_coeff_1, ivp_radial_value, radial_op.
  cbn [map ode_lhs]. rewrite IZR_ll1. split; intros H.
  - transitivity (- IZR l * (IZR l + 1) / r ^ 2 * V r + (2 / r * V1 r + (1 * V2 r + 0))); [field; lra|]. rewrite H. ring.
  - transitivity (V2 r + 2 * V1 r / r - IZR l * (IZR l + 1) * V r / r ^ 2); [field; lra|]. rewrite H. ring.
Qed.

