(* C16 — the generated pieces of the initial-value solver are linear. *)
From Coq Require Import Reals Lra ZArith List Bool FunctionalExtensionality.
From P Require Import C16_base C16_gen C16_model C16_proofs_lin.
Import ListNotations.
Open Scope R_scope.

Lemma ivp_scheme_linear Y00 rmax : scheme_linear Y00 (ivp_scheme rmax).
Proof.
  unfold scheme_linear, ivp_scheme; cbn [s_fx s_vals s_boundary s_radial]. split; [|split; [|split; [|split]]].
  - intros. unfold ivp_fx. ring.
  - intros l m a b B1 B2. unfold ivp_cond, lin_vals. destruct (ivp_is_monopole l m); cbn [map snd combine fst];
      (apply (f_equal2 cons); [unfold Rdiv; ring|apply (f_equal2 cons); [unfold Rdiv; ring|reflexivity]]).
  - intros l m B1 B2. unfold ivp_cond. destruct (ivp_is_monopole l m); reflexivity.
  - intros. unfold ivp_boundary, Rdiv. ring.
  - intros. unfold ivp_radial_value. ring.
Qed.

Lemma linear_in_density_ivp_lemma pt solve Y00 rmax atoms a b f g p : solver_linear solve -> Forall (atom_linear pt) atoms ->
  V_mol pt solve Y00 (ivp_scheme rmax) atoms (fun x => a * f x + b * g x) p
  = a * V_mol pt solve Y00 (ivp_scheme rmax) atoms f p + b * V_mol pt solve Y00 (ivp_scheme rmax) atoms g p.
Proof. intros HS HA. apply V_mol_linear; auto. apply ivp_scheme_linear. Qed.

