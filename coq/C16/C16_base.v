(* C16 — helpers the generated file refers to.  zrange a b is Python's range(a, b) / np.arange(a, b) on integers. *)
From Coq Require Import ZArith List.
Import ListNotations.

Definition zrange (a b : Z) : list Z := map (fun i => (a + Z.of_nat i)%Z) (seq 0 (Z.to_nat (b - a))).
