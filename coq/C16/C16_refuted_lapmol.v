(* Compiled to explain a failure of laplacian_mol_sum: with the closures as generated from the source, two atoms suffice. *)
From Coq Require Import Reals Lra List Arith.
From P Require Import C16_base C16_gen C16_model.
Import ListNotations.
Open Scope R_scope.

Lemma laplacian_mol_refuted_lemma : exists n lap_at, lap_mol n lap_at <> lap_mol_spec n lap_at.
Proof.
  exists 2%nat, (fun _ s => if Nat.eqb s 1 then 1 else 0).
  unfold lap_mol, lap_mol_spec, lap_grid_of, lap_slice_of, rsum. simpl. lra.
Qed.
