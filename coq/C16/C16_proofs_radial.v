(* C16 — V = u/r: derivatives and the radial Laplacian identity (independent of the generated terms). *)
From Coq Require Import Reals Lra ZArith.
From Coquelicot Require Import Coquelicot.
Open Scope R_scope.

(* the radial part of the Laplacian acting on V(r) Y_lm:  V'' + 2 V'/r - c V/r^2  with c = l(l+1) *)
Definition radial_op (c V V1 V2 r : R) : R := V2 + 2 * V1 / r - c * V / r ^ 2.

(* ---------------------------------------------------------------- V = u / r *)
Section UoverR.
  Variables u u1 u2 : R -> R.
  Hypothesis Du : forall t, 0 < t -> is_derive u t (u1 t).
  Hypothesis Du1 : forall t, 0 < t -> is_derive u1 t (u2 t).

  Definition Vq (t : R) : R := u t / t.
  Definition Vq1 (t : R) : R := (u1 t * t - u t) / t ^ 2.
  Definition Vq2 (t : R) : R := (u2 t * t ^ 2 - 2 * t * u1 t + 2 * u t) / t ^ 3.

  Lemma Vq_d1 t : 0 < t -> is_derive Vq t (Vq1 t).
  Proof.
    intros Ht. unfold Vq, Vq1. evar_last.
    - apply (is_derive_div u (fun s => s) t (u1 t) 1); [apply Du; exact Ht|apply (is_derive_id t)|lra].
    - unfold minus, plus, opp, scal, mult, one; simpl; unfold mult; simpl. field. lra.
  Qed.

  Lemma Vq_d2 t : 0 < t -> is_derive Vq1 t (Vq2 t).
  Proof.
    intros Ht. unfold Vq1, Vq2. evar_last.
    - apply (is_derive_div (fun s => u1 s * s - u s) (fun s => s ^ 2) t (u2 t * t + u1 t * 1 - u1 t) (2 * t)).
      + apply (is_derive_minus (fun s => u1 s * s) u t (u2 t * t + u1 t * 1) (u1 t)).
        * evar_last. { apply (is_derive_mult u1 (fun s => s) t (u2 t) 1); [apply Du1; exact Ht|apply (is_derive_id t)|]. intros; apply Rmult_comm. }
          unfold plus, mult; simpl. ring.
        * apply Du; exact Ht.
      + evar_last. { apply (is_derive_pow (fun s => s) 2 t 1). apply (is_derive_id t). }
        unfold scal, mult, one; simpl; unfold mult; simpl. ring.
      + apply pow_nonzero. lra.
    - unfold minus, plus, opp, scal, mult; simpl; unfold mult; simpl. field. lra.
  Qed.

  Lemma radial_identity c r : 0 < r -> radial_op c (Vq r) (Vq1 r) (Vq2 r) r = (u2 r - c * u r / r ^ 2) / r.
  Proof. intros Hr. unfold radial_op, Vq, Vq1, Vq2. field. lra. Qed.
End UoverR.

Lemma radial_laplacian_lemma (u u1 u2 : R -> R) (c : R) :
  (forall t, 0 < t -> is_derive u t (u1 t)) -> (forall t, 0 < t -> is_derive u1 t (u2 t)) ->
  (forall t, 0 < t -> is_derive (fun s => u s / s) t (Vq1 u u1 t)) /\
  (forall t, 0 < t -> is_derive (Vq1 u u1) t (Vq2 u u1 u2 t)) /\
  (forall r, 0 < r -> radial_op c (u r / r) (Vq1 u u1 r) (Vq2 u u1 u2 r) r = (u2 r - c * u r / r ^ 2) / r).
Proof.
  intros Du Du1. split; [|split].
  - intros t Ht. exact (Vq_d1 u u1 Du t Ht).
  - intros t Ht. exact (Vq_d2 u u1 u2 Du Du1 t Ht).
  - intros r Hr. exact (radial_identity u u1 u2 c r Hr).
Qed.

Lemma IZR_ll1 l : IZR (l * (l + 1)) = IZR l * (IZR l + 1).
Proof. rewrite mult_IZR, plus_IZR. reflexivity. Qed.

