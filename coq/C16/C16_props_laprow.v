(* C16 property theorems (statements only): interpolate_laplacian, per-row operator. *)
From Coq Require Import Reals ZArith List Bool.
From Coquelicot Require Import Coquelicot.
From P Require Import C16_base C16_gen C16_model C16_proofs_radial C16_proofs_laprow.
Import ListNotations.
Open Scope R_scope.

(* interpolate_laplacian: per row the radial operator (r f)''/r - l(l+1) f/r^2, with degrees[k] = l(l+1) of Horton row k *)
Theorem laplacian_expansion : forall (f f1 f2 : R -> R) (l : Z),
  (forall t, 0 < t -> is_derive f t (f1 t)) -> (forall t, 0 < t -> is_derive f1 t (f2 t)) ->
  (forall t, 0 < t -> is_derive (fun s => s * f s) t (f t + t * f1 t)) /\
  (forall t, 0 < t -> is_derive (fun s => f s + s * f1 s) t (2 * f1 t + t * f2 t)) /\
  (forall r, 0 < r ->
     lap_row (f r) (f1 r) (f2 r) (IZR (l * (l + 1))) r = radial_op (IZR (l * (l + 1))) (f r) (f1 r) (f2 r) r /\
     lap_row (f r) (f1 r) (f2 r) (IZR (l * (l + 1))) r = (2 * f1 r + r * f2 r) / r - IZR (l * (l + 1)) * f r / r ^ 2).
Proof. exact laplacian_row_lemma. Qed.
Print Assumptions laplacian_expansion.
