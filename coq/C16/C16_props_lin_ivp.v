(* C16 property theorems (statements only): linearity, initial-value solver. *)
From Coq Require Import Reals ZArith List Bool.
From Coquelicot Require Import Coquelicot.
From P Require Import C16_base C16_gen C16_model C16_proofs_lin C16_proofs_lin_ivp.
Import ListNotations.
Open Scope R_scope.

Theorem linear_in_density_ivp : forall pt solve Y00 rmax atoms a b (f g : pt -> R) p,
  solver_linear solve -> List.Forall (atom_linear pt) atoms ->
  V_mol pt solve Y00 (ivp_scheme rmax) atoms (fun x => a * f x + b * g x) p
  = a * V_mol pt solve Y00 (ivp_scheme rmax) atoms f p + b * V_mol pt solve Y00 (ivp_scheme rmax) atoms g p.
Proof. exact linear_in_density_ivp_lemma. Qed.
Print Assumptions linear_in_density_ivp.
