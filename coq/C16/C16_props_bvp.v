(* C16 property theorems (statements only): the ODE of the boundary-value solver. *)
From Coq Require Import Reals ZArith List Bool.
From Coquelicot Require Import Coquelicot.
From P Require Import C16_base C16_gen C16_model C16_proofs_radial C16_proofs_bvp.
Import ListNotations.
Open Scope R_scope.

(* the ODE handed to solve_ode_bvp in iteration (k, l) -- generated coefficient list and f_x -- is
   u'' - l(l+1) u/r^2 = -4 pi r rho_k(r), and it holds iff V = u/r (the value the returned closure uses) satisfies the radial
   Poisson equation  V'' + 2V'/r - l(l+1) V/r^2 = -4 pi rho_k(r),  rho_k = spline of row k *)
Theorem bvp_ode_is_radial_poisson : forall (rho : Z -> R -> R) (k l : Z) (u u1 u2 : R -> R),
  (forall t, 0 < t -> is_derive u t (u1 t)) -> (forall t, 0 < t -> is_derive u1 t (u2 t)) ->
  let V := bvp_radial_value u in
  (forall t, 0 < t -> is_derive V t (Vq1 u u1 t)) /\
  (forall t, 0 < t -> is_derive (Vq1 u u1) t (Vq2 u u1 u2 t)) /\
  (forall r, 0 < r ->
     (bvp_ode rho k l u u1 u2 r <->
      radial_op (IZR (l * (l + 1))) (V r) (Vq1 u u1 r) (Vq2 u u1 u2 r) r = -4 * PI * rho (bvp_fx_index k) r)).
Proof. exact bvp_is_radial_poisson_lemma. Qed.
Print Assumptions bvp_ode_is_radial_poisson.

Theorem bvp_ode_explicit_form : forall rho k l (u u1 u2 : R -> R) r, 0 < r ->
  (bvp_ode rho k l u u1 u2 r <-> u2 r - IZR (l * (l + 1)) * u r / r ^ 2 = -4 * PI * r * rho (bvp_fx_index k) r).
Proof. exact bvp_ode_explicit. Qed.
Print Assumptions bvp_ode_explicit_form.

(* the value substituted at the mesh point r = 0 *)
Theorem bvp_coeff_at_origin : bvp_coeff_0_at0 0 = 0 /\ (forall r, r <> 0 -> bvp_coeff_0 0 r = 0) /\
  (forall l, bvp_coeff_0_at0 l = bvp_coeff_0 l (1 / 10000000000)).
Proof. exact bvp_coeff_at0_lemma. Qed.
Print Assumptions bvp_coeff_at_origin.
