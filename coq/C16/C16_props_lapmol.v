(* C16 property theorem (statement only): molecular Laplacian = sum over atoms of the atomic Laplacians of w_A f. *)
From Coq Require Import Reals List.
From P Require Import C16_base C16_gen C16_model C16_proofs_lapmol.
Open Scope R_scope.

Theorem laplacian_mol_sum : forall n lap_at, lap_mol n lap_at = lap_mol_spec n lap_at.
Proof. exact laplacian_mol_sum_lemma. Qed.
Print Assumptions laplacian_mol_sum.
