(* C16 property theorem that rests on the C17 development (separate file: fails alone if coulomb_gaussian_s changes). *)
From Coq Require Import Reals.
From Coquelicot Require Import Coquelicot.
From P Require Import C16_base C16_gen C17_gen C17_erf C17_proofs C16_proofs_core.
Open Scope R_scope.

(* each primitive c (a/pi)^(3/2) exp(-a r^2) subtracted by _build_core_density and the term c erf(sqrt a r)/r that
   coulomb_potential(normalized=True) adds back satisfy (r V)'' = -4 pi r rho for all a > 0, r > 0 *)
Theorem robust_core_pair_poisson : forall c a r, 0 < a -> 0 < r ->
  (forall t, 0 < t -> is_derive (fun s => s * (c * cg_s_main erf a s)) t (c * s_D1 a t)) /\
  is_derive (fun t => c * s_D1 a t) r (-4 * PI * r * core_density_term c a (r ^ 2)).
Proof. exact core_pair_poisson_lemma. Qed.
Print Assumptions robust_core_pair_poisson.
