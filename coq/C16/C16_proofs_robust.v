(* C16 — solve_poisson_robust: recombination, soundness, exact cancellation. *)
From Coq Require Import Reals Lra ZArith List Bool FunctionalExtensionality.
From P Require Import C16_base C16_gen C16_model C16_proofs_lin C16_proofs_lin_bvp.
Import ListNotations.
Open Scope R_scope.

(* ================================================================== solve_poisson_robust *)
Section RobustProofs.
  Variable pt : Type.
  Variable Vbvp fit_rho fit_V : (pt -> R) -> pt -> R.

  Definition sum_at (cs : list (pt -> R)) (x : pt) : R := rsum (map (fun c => c x) cs).

  Lemma residual1_spec cores f x : residual1 pt cores f x = f x - sum_at cores x.
  Proof.
    revert f. unfold residual1, sum_at. induction cores as [|c t IH]; intros f; simpl; [ring|].
    rewrite IH. unfold robust_split1. ring.
  Qed.

  Lemma core_potential_spec vcores p : core_potential pt vcores p = sum_at vcores p.
  Proof.
    unfold core_potential, sum_at.
    assert (G : forall v0, fold_left (fun v c => robust_core_acc v (c p)) vcores v0 = v0 + rsum (map (fun c => c p) vcores)).
    { induction vcores as [|c t IH]; intros v0; simpl; [ring|]. rewrite IH. unfold robust_core_acc. ring. }
    rewrite G. ring.
  Qed.

  Definition res_split1 (cores : list (pt -> R)) (f : pt -> R) : pt -> R := fun x => f x - sum_at cores x.

  (* the result IS: analytic core potential (+ analytic potential of the fit) + numerical potential of what is left *)
  Lemma robust_recombination_lemma cores vcores f p :
    robust pt Vbvp fit_rho fit_V false cores vcores f p = sum_at vcores p + Vbvp (res_split1 cores f) p /\
    robust pt Vbvp fit_rho fit_V true cores vcores f p =
      sum_at vcores p + fit_V (res_split1 cores f) p + Vbvp (fun x => res_split1 cores f x - fit_rho (res_split1 cores f) x) p.
  Proof.
    assert (E : residual1 pt cores f = res_split1 cores f) by (apply functional_extensionality; intros x; apply residual1_spec).
    unfold robust. rewrite E, core_potential_spec. unfold robust_total, robust_split2. split; ring.
  Qed.

  (* ... which is the Coulomb potential of f whenever each analytic potential is the Coulomb potential of the density that was
     subtracted and the numerical solver is exact on what is left (Coul: any linear operator) *)
  Variable Coul : (pt -> R) -> pt -> R.
  Hypothesis Coul_linear : forall a b f g p, Coul (fun x => a * f x + b * g x) p = a * Coul f p + b * Coul g p.

  Lemma Coul_zero p : Coul (fun _ => 0) p = 0.
  Proof.
    pose proof (Coul_linear 0 0 (fun _ => 0) (fun _ => 0) p) as H. cbv beta in H.
    replace (fun _ : pt => 0 * 0 + 0 * 0) with (fun _ : pt => 0) in H by (apply functional_extensionality; intros; ring).
    rewrite H. ring.
  Qed.

  Lemma Coul_sum cores vcores p : Forall2 (fun c v => forall q, v q = Coul c q) cores vcores ->
    Coul (sum_at cores) p = sum_at vcores p.
  Proof.
    intros H. revert p. induction H as [|c v cs vs Hcv _ IH]; intros p; unfold sum_at in *; simpl.
    - apply Coul_zero.
    - replace (fun x => c x + rsum (map (fun c0 => c0 x) cs)) with (fun x => 1 * c x + 1 * rsum (map (fun c0 => c0 x) cs))
        by (apply functional_extensionality; intros; ring).
      rewrite Coul_linear, IH, Hcv. ring.
  Qed.

  Lemma Coul_split3 (s g h f : pt -> R) p : (forall x, f x = s x + g x + h x) -> Coul f p = Coul s p + Coul g p + Coul h p.
  Proof.
    intros H. replace f with (fun x => 1 * s x + 1 * (fun y => 1 * g y + 1 * h y) x)
      by (apply functional_extensionality; intros x; rewrite H; ring).
    rewrite (Coul_linear 1 1 s (fun y => 1 * g y + 1 * h y)), (Coul_linear 1 1 g h). ring.
  Qed.

  Lemma robust_sound_lemma (split2 : bool) cores vcores f p :
    Forall2 (fun c v => forall q, v q = Coul c q) cores vcores ->
    (forall g q, fit_V g q = Coul (fit_rho g) q) ->
    (forall g q, g = (if split2 then (fun x : pt => res_split1 cores f x - fit_rho (res_split1 cores f) x) else res_split1 cores f) ->
                 Vbvp g q = Coul g q) ->
    robust pt Vbvp fit_rho fit_V split2 cores vcores f p = Coul f p.
  Proof.
    intros Hc Hf Hex. destruct (robust_recombination_lemma cores vcores f p) as [R1 R2].
    pose proof (Coul_sum cores vcores p Hc) as Hs.
    destruct split2.
    - rewrite R2, (Hex _ p eq_refl), Hf, <- Hs. symmetry. apply Coul_split3. intros x. unfold res_split1. ring.
    - rewrite R1, (Hex _ p eq_refl), <- Hs.
      rewrite (Coul_split3 (sum_at cores) (fun _ => 0) (res_split1 cores f) f p) by (intros x; unfold res_split1; ring).
      rewrite Coul_zero. ring.
  Qed.

  (* exact cancellation: the density IS the core model *)
  Lemma robust_exact_lemma split2 cores vcores f p :
    (forall x, f x = sum_at cores x) ->
    (forall q, Vbvp (fun _ => 0) q = 0) ->
    (split2 = true -> (forall x, fit_rho (fun _ => 0) x = 0) /\ (forall q, fit_V (fun _ => 0) q = 0)) ->
    robust pt Vbvp fit_rho fit_V split2 cores vcores f p = sum_at vcores p.
  Proof.
    intros Hf H0 Hfit. destruct (robust_recombination_lemma cores vcores f p) as [R1 R2].
    assert (Z0 : res_split1 cores f = (fun _ => 0)) by (apply functional_extensionality; intros x; unfold res_split1; rewrite Hf; ring).
    destruct split2.
    - destruct (Hfit eq_refl) as [F1 F2]. rewrite R2, Z0, F2.
      replace (fun x : pt => 0 - fit_rho (fun _ : pt => 0) x) with (fun _ : pt => 0)
        by (apply functional_extensionality; intros x; rewrite F1; ring).
      rewrite H0. ring.
    - rewrite R1, Z0, H0. ring.
  Qed.
End RobustProofs.

(* with the model of solve_poisson_bvp for Vbvp, "the solver maps 0 to 0" is a consequence of the linearity of the oracles *)
Lemma robust_exact_on_core_model_lemma pt solve Y00 atoms fit_rho fit_V split2 cores vcores f p :
  solver_linear solve -> Forall (atom_linear pt) atoms ->
  (forall x, f x = sum_at pt cores x) ->
  (split2 = true -> (forall x, fit_rho (fun _ => 0) x = 0) /\ (forall q, fit_V (fun _ => 0) q = 0)) ->
  robust pt (V_mol pt solve Y00 bvp_scheme atoms) fit_rho fit_V split2 cores vcores f p = sum_at pt vcores p.
Proof.
  intros HS HA Hf Hfit. apply robust_exact_lemma; auto.
  intros q. apply V_mol_zero; auto. apply bvp_scheme_linear.
Qed.

Example robust_nonvacuous :
  robust unit (fun g _ => 2 * g tt) (fun g _ => g tt / 2) (fun g _ => g tt) true [fun _ => 3] [fun _ => 6] (fun _ => 5) tt = 10.
Proof. unfold robust, residual1, core_potential, robust_total, robust_split1, robust_split2, robust_core_acc. simpl. field. Qed.
