(* C16 property theorems (statements only): far field, initial-value solver. *)
From Coq Require Import Reals ZArith List Bool.
From Coquelicot Require Import Coquelicot.
From P Require Import C16_base C16_gen C16_model C16_proofs_far_ivp.
Import ListNotations.
Open Scope R_scope.

Theorem far_field_ivp : forall Q Y00 rmax, Y00 <> 0 -> 0 < rmax ->
  let B := ivp_boundary Q Y00 in
  exists v0 v1, ivp_cond 0 0 B rmax = [v0; v1] /\ v0 = B / rmax /\ is_derive (fun t => B / t) rmax v1 /\ v0 * Y00 = Q / rmax.
Proof. exact far_field_ivp_lemma. Qed.
Print Assumptions far_field_ivp.

Theorem far_field_ivp_other_components : forall l m B rmax, ivp_is_monopole l m = false -> ivp_cond l m B rmax = [0; 0].
Proof. exact ivp_cond_other. Qed.
Print Assumptions far_field_ivp_other_components.
