(* C16 — the generated pieces of the boundary-value solver are linear. *)
From Coq Require Import Reals Lra ZArith List Bool FunctionalExtensionality.
From P Require Import C16_base C16_gen C16_model C16_proofs_lin.
Import ListNotations.
Open Scope R_scope.

Lemma bvp_scheme_linear Y00 : scheme_linear Y00 bvp_scheme.
Proof.
  unfold scheme_linear, bvp_scheme; cbn [s_fx s_vals s_boundary s_radial]. split; [|split; [|split; [|split]]].
  - intros. unfold bvp_fx. ring.
  - intros l m a b B1 B2. unfold bvp_cond, lin_vals. destruct (bvp_is_monopole l m); cbn [map snd combine fst];
      (apply (f_equal2 cons); [ring|apply (f_equal2 cons); [ring|reflexivity]]).
  - intros l m B1 B2. unfold bvp_cond. destruct (bvp_is_monopole l m); reflexivity.
  - intros. unfold bvp_boundary, Rdiv. ring.
  - intros. unfold bvp_radial_value, Rdiv. ring.
Qed.

Lemma linear_in_density_bvp_lemma pt solve Y00 atoms a b f g p : solver_linear solve -> Forall (atom_linear pt) atoms ->
  V_mol pt solve Y00 bvp_scheme atoms (fun x => a * f x + b * g x) p
  = a * V_mol pt solve Y00 bvp_scheme atoms f p + b * V_mol pt solve Y00 bvp_scheme atoms g p.
Proof. intros HS HA. apply V_mol_linear; auto. apply bvp_scheme_linear. Qed.

