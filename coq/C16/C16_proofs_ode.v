(* C16 — the ODEs handed to the solver are the radial Poisson equations; far field; Laplacian of the harmonic expansion. *)
From Coq Require Import Reals Lra ZArith List.
From Coquelicot Require Import Coquelicot.
From P Require Import C16_base C16_gen C16_model.
Import ListNotations.
Open Scope R_scope.

(* the radial part of the Laplacian acting on V(r) Y_lm:  V'' + 2 V'/r - c V/r^2  with c = l(l+1) *)
Definition radial_op (c V V1 V2 r : R) : R := V2 + 2 * V1 / r - c * V / r ^ 2.

(* ---------------------------------------------------------------- V = u / r *)
Section UoverR.
  Variables u u1 u2 : R -> R.
  Hypothesis Du : forall t, 0 < t -> is_derive u t (u1 t).
  Hypothesis Du1 : forall t, 0 < t -> is_derive u1 t (u2 t).

  Definition Vq (t : R) : R := u t / t.
  Definition Vq1 (t : R) : R := (u1 t * t - u t) / t ^ 2.
  Definition Vq2 (t : R) : R := (u2 t * t ^ 2 - 2 * t * u1 t + 2 * u t) / t ^ 3.

  Lemma Vq_d1 t : 0 < t -> is_derive Vq t (Vq1 t).
  Proof.
    intros Ht. unfold Vq, Vq1. evar_last.
    - apply (is_derive_div u (fun s => s) t (u1 t) 1); [apply Du; exact Ht|apply (is_derive_id t)|lra].
    - unfold minus, plus, opp, scal, mult, one; simpl; unfold mult; simpl. field. lra.
  Qed.

  Lemma Vq_d2 t : 0 < t -> is_derive Vq1 t (Vq2 t).
  Proof.
    intros Ht. unfold Vq1, Vq2. evar_last.
    - apply (is_derive_div (fun s => u1 s * s - u s) (fun s => s ^ 2) t (u2 t * t + u1 t * 1 - u1 t) (2 * t)).
      + apply (is_derive_minus (fun s => u1 s * s) u t (u2 t * t + u1 t * 1) (u1 t)).
        * evar_last. { apply (is_derive_mult u1 (fun s => s) t (u2 t) 1); [apply Du1; exact Ht|apply (is_derive_id t)|]. intros; apply Rmult_comm. }
          unfold plus, mult; simpl. ring.
        * apply Du; exact Ht.
      + evar_last. { apply (is_derive_pow (fun s => s) 2 t 1). apply (is_derive_id t). }
        unfold scal, mult, one; simpl; unfold mult; simpl. ring.
      + apply pow_nonzero. lra.
    - unfold minus, plus, opp, scal, mult; simpl; unfold mult; simpl. field. lra.
  Qed.

  Lemma radial_identity c r : 0 < r -> radial_op c (Vq r) (Vq1 r) (Vq2 r) r = (u2 r - c * u r / r ^ 2) / r.
  Proof. intros Hr. unfold radial_op, Vq, Vq1, Vq2. field. lra. Qed.
End UoverR.

Lemma radial_laplacian_lemma (u u1 u2 : R -> R) (c : R) :
  (forall t, 0 < t -> is_derive u t (u1 t)) -> (forall t, 0 < t -> is_derive u1 t (u2 t)) ->
  (forall t, 0 < t -> is_derive (fun s => u s / s) t (Vq1 u u1 t)) /\
  (forall t, 0 < t -> is_derive (Vq1 u u1) t (Vq2 u u1 u2 t)) /\
  (forall r, 0 < r -> radial_op c (u r / r) (Vq1 u u1 r) (Vq2 u u1 u2 r) r = (u2 r - c * u r / r ^ 2) / r).
Proof.
  intros Du Du1. split; [|split].
  - intros t Ht. exact (Vq_d1 u u1 Du t Ht).
  - intros t Ht. exact (Vq_d2 u u1 u2 Du Du1 t Ht).
  - intros r Hr. exact (radial_identity u u1 u2 c r Hr).
Qed.

(* ---------------------------------------------------------------- the BVP: u = r V *)
(* what solve_ode_bvp is asked to solve for iteration (k, l):  sum_j coeffs_j(l, r) u^(j)(r) = f_x_k(r) *)
Definition bvp_ode (rho : Z -> R -> R) (k l : Z) (u u1 u2 : R -> R) (r : R) : Prop :=
  ode_lhs (at_degree bvp_coeffs l) [u r; u1 r; u2 r] r = bvp_fx rho k r.

Lemma IZR_ll1 l : IZR (l * (l + 1)) = IZR l * (IZR l + 1).
Proof. rewrite mult_IZR, plus_IZR. reflexivity. Qed.

Lemma bvp_ode_explicit rho k l u u1 u2 r : 0 < r ->
  (bvp_ode rho k l u u1 u2 r <-> u2 r - IZR (l * (l + 1)) * u r / r ^ 2 = -4 * PI * r * rho (bvp_fx_index k) r).
Proof.
  intros Hr. unfold bvp_ode, bvp_fx, at_degree, bvp_coeffs, bvp_coeff_0. cbn [map ode_lhs]. rewrite IZR_ll1.
  split; intros H.
  - transitivity (- IZR l * (IZR l + 1) / r ^ 2 * u r + (0 * u1 r + (1 * u2 r + 0))); [field; lra|]. rewrite H. ring.
  - transitivity (u2 r - IZR l * (IZR l + 1) * u r / r ^ 2); [field; lra|]. rewrite H. ring.
Qed.

Lemma bvp_is_radial_poisson_lemma (rho : Z -> R -> R) (k l : Z) (u u1 u2 : R -> R) :
  (forall t, 0 < t -> is_derive u t (u1 t)) -> (forall t, 0 < t -> is_derive u1 t (u2 t)) ->
  let V := bvp_radial_value u in
  (forall t, 0 < t -> is_derive V t (Vq1 u u1 t)) /\
  (forall t, 0 < t -> is_derive (Vq1 u u1) t (Vq2 u u1 u2 t)) /\
  (forall r, 0 < r ->
     (bvp_ode rho k l u u1 u2 r <->
      radial_op (IZR (l * (l + 1))) (V r) (Vq1 u u1 r) (Vq2 u u1 u2 r) r = -4 * PI * rho (bvp_fx_index k) r)).
Proof.
  intros Du Du1 V. destruct (radial_laplacian_lemma u u1 u2 (IZR (l * (l + 1))) Du Du1) as (A & B & C).
  split; [exact A|]. split; [exact B|]. intros r Hr. unfold V, bvp_radial_value. rewrite (C r Hr), (bvp_ode_explicit rho k l u u1 u2 r Hr).
  split; intros H.
  - rewrite H. field. lra.
  - set (X := u2 r - IZR (l * (l + 1)) * u r / r ^ 2) in *. replace X with (X / r * r) by (field; lra). rewrite H. ring.
Qed.

(* the value used by the code at the mesh point r = 0 is finite; for l = 0 the equation is regular and both branches vanish *)
Lemma bvp_coeff_at0_lemma : bvp_coeff_0_at0 0 = 0 /\ (forall r, r <> 0 -> bvp_coeff_0 0 r = 0) /\
  (forall l, bvp_coeff_0_at0 l = bvp_coeff_0 l (1 / 10000000000)).
Proof.
  unfold bvp_coeff_0_at0, bvp_coeff_0. split; [|split].
  - field.
  - intros r Hr. field. exact Hr.
  - intros l. reflexivity.
Qed.

(* ---------------------------------------------------------------- the IVP: V itself *)
Definition ivp_ode (rho : Z -> R -> R) (k l : Z) (V V1 V2 : R -> R) (r : R) : Prop :=
  ode_lhs (at_degree ivp_coeffs l) [V r; V1 r; V2 r] r = ivp_fx rho k r.

Lemma ivp_is_radial_poisson_lemma rho k l (V V1 V2 : R -> R) r : 0 < r ->
  (ivp_ode rho k l V V1 V2 r <->
   radial_op (IZR (l * (l + 1))) (ivp_radial_value V r) (V1 r) (V2 r) r = -4 * PI * rho (ivp_fx_index k) r).
Proof.
  intros Hr. unfold ivp_ode, ivp_fx, at_degree, ivp_coeffs, ivp_coeff_0, ivp_coeff_1, ivp_radial_value, radial_op.
  cbn [map ode_lhs]. rewrite IZR_ll1. split; intros H.
  - transitivity (- IZR l * (IZR l + 1) / r ^ 2 * V r + (2 / r * V1 r + (1 * V2 r + 0))); [field; lra|]. rewrite H. ring.
  - transitivity (V2 r + 2 * V1 r / r - IZR l * (IZR l + 1) * V r / r ^ 2); [field; lra|]. rewrite H. ring.
Qed.

(* ---------------------------------------------------------------- far field *)
(* BVP: the (0,0) solution is pinned to `boundary` at the last mesh point; with V = u/r and the constant harmonic Y00 this is Q/r *)
Lemma far_field_bvp_lemma Q Y00 r : Y00 <> 0 -> r <> 0 ->
  bvp_cond 0 0 (bvp_boundary Q Y00) = [(0%Z, 0%Z, 0); (1%Z, 0%Z, bvp_boundary Q Y00)] /\
  bvp_radial_value (fun _ => bvp_boundary Q Y00) r * Y00 = Q / r /\
  (Y00 = / sqrt (4 * PI) -> bvp_boundary Q Y00 = sqrt (4 * PI) * Q).
Proof.
  intros HY Hr. split; [reflexivity|]. unfold bvp_radial_value, bvp_boundary. split.
  - field. split; assumption.
  - intros ->. field. apply Rgt_not_eq, sqrt_lt_R0. pose proof PI_RGT_0. lra.
Qed.

(* every other (l, m): both ends are pinned to 0 *)
Lemma bvp_cond_other l m B : bvp_is_monopole l m = false -> bvp_cond l m B = [(0%Z, 0%Z, 0); (1%Z, 0%Z, 0)].
Proof. intros H. unfold bvp_cond. now rewrite H. Qed.

(* IVP: value and slope at r_max are those of  t |-> boundary / t,  and boundary * Y00 / r_max = Q / r_max *)
Lemma far_field_ivp_lemma Q Y00 rmax : Y00 <> 0 -> 0 < rmax ->
  let B := ivp_boundary Q Y00 in
  exists v0 v1, ivp_cond 0 0 B rmax = [v0; v1] /\ v0 = B / rmax /\ is_derive (fun t => B / t) rmax v1 /\ v0 * Y00 = Q / rmax.
Proof.
  intros HY Hr B. eexists. eexists. split; [reflexivity|]. split; [reflexivity|]. split.
  - auto_derive; [lra|]. field. lra.
  - unfold B, ivp_boundary. field. split; [lra|assumption].
Qed.
Lemma ivp_cond_other l m B rmax : ivp_is_monopole l m = false -> ivp_cond l m B rmax = [0; 0].
Proof. intros H. unfold ivp_cond. now rewrite H. Qed.

(* ---------------------------------------------------------------- interpolate_laplacian *)
Lemma laplacian_row_lemma (f f1 f2 : R -> R) (l : Z) :
  (forall t, 0 < t -> is_derive f t (f1 t)) -> (forall t, 0 < t -> is_derive f1 t (f2 t)) ->
  (forall t, 0 < t -> is_derive (fun s => s * f s) t (f t + t * f1 t)) /\
  (forall t, 0 < t -> is_derive (fun s => f s + s * f1 s) t (2 * f1 t + t * f2 t)) /\
  (forall r, 0 < r ->
     lap_row (f r) (f1 r) (f2 r) (IZR (l * (l + 1))) r = radial_op (IZR (l * (l + 1))) (f r) (f1 r) (f2 r) r /\
     lap_row (f r) (f1 r) (f2 r) (IZR (l * (l + 1))) r = (2 * f1 r + r * f2 r) / r - IZR (l * (l + 1)) * f r / r ^ 2).
Proof.
  intros Df Df1. split; [|split].
  - intros t Ht. evar_last.
    + apply (is_derive_mult (fun s => s) f t 1 (f1 t)); [apply (is_derive_id t)|apply Df; exact Ht|intros; apply Rmult_comm].
    + unfold plus, mult; simpl. ring.
  - intros t Ht. evar_last.
    + apply (is_derive_plus f (fun s => s * f1 s) t (f1 t) (1 * f1 t + t * f2 t)); [apply Df; exact Ht|].
      apply (is_derive_mult (fun s => s) f1 t 1 (f2 t)); [apply (is_derive_id t)|apply Df1; exact Ht|intros; apply Rmult_comm].
    + unfold plus; simpl. ring.
  - intros r Hr. unfold lap_row, radial_op. split; field; lra.
Qed.

Example ode_nonvacuous :   (* u = r^2 solves the generated l = 1 equation with rho_k = -1/(2 pi r) ... a concrete instance: l = 0, u = r, rho = 0 *)
  bvp_ode (fun _ _ => 0) 0 0 (fun r => r) (fun _ => 1) (fun _ => 0) 2.
Proof. unfold bvp_ode, bvp_fx, at_degree, bvp_coeffs, bvp_coeff_0. cbn [map ode_lhs]. field. Qed.
