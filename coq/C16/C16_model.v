(* C16 — hand model around the generated terms of C16_gen.v (no proofs in this file).

   _solve_poisson_{bvp,ivp}_atomgrid:
       splines = []; i_spline = init
       for l_deg in l_range(L):                       L = atomgrid.l_max // 2
           for m_ord in m_list(l_deg):
               u_lm = solve(f_x[i_spline], coeffs[l_deg], cond[l_deg, m_ord])
               i_spline += step; splines.append(u_lm)
       interpolate(p) = einsum("ij,ij->j", [radial_value(spline, r(p)) for spline in splines], Y(L; theta(p), phi(p)))
   _interpolate_molgrid_helper: sum over the atoms A of the atomic solution for (func_vals * aim_weights)[slice of A]
   solve_poisson_robust: analytic core potential + (optional) analytic potential of the NNLS fit + numerical potential of the residual. *)
From Coq Require Import Reals ZArith List Bool.
From P Require Import C16_base C16_gen.
Import ListNotations.
Open Scope R_scope.

(* ------------------------------------------------------------------ the loop nest *)
Definition lm_pairs (lr ml : Z -> list Z) (L : Z) : list (Z * Z) :=
  flat_map (fun l => map (fun m => (l, m)) (ml l)) (lr L).

(* value of the counter i_spline at each iteration *)
Fixpoint number {A} (k step : Z) (l : list A) : list (Z * A) :=
  match l with
  | [] => []
  | x :: t => (k, x) :: number (k + step)%Z step t
  end.

Definition bvp_iters (L : Z) : list (Z * (Z * Z)) := number bvp_counter_init bvp_counter_step (lm_pairs bvp_l_range bvp_m_list L).
Definition ivp_iters (L : Z) : list (Z * (Z * Z)) := number ivp_counter_init ivp_counter_step (lm_pairs ivp_l_range ivp_m_list L).

(* rows of generate_real_spherical_harmonics / radial_component_splines ("Horton 2 order": per degree l the orders
   m = 0, 1, -1, 2, -2, ..., l, -l; degrees ascending) *)
Definition horton_index (l m : Z) : Z := (if 0 <? m then l * l + 2 * m - 1 else l * l + 2 * (- m))%Z.
Definition row_degree (k : Z) : Z := Z.sqrt k.
Definition row_order (k : Z) : Z := (let j := k - Z.sqrt k * Z.sqrt k in if Z.even j then - (j / 2) else (j + 1) / 2)%Z.

(* ------------------------------------------------------------------ the linear ODE handed to the solver *)
(* sum_k a_k(x) y^(k)(x)  (grid.ode: coefficients ordered from 0 to K) *)
Fixpoint ode_lhs (cs : list (R -> R)) (ys : list R) (r : R) : R :=
  match cs, ys with
  | c :: cs', y :: ys' => c r * y + ode_lhs cs' ys' r
  | _, _ => 0
  end.
Definition at_degree (cs : list (R -> R -> R)) (l : Z) : list (R -> R) := map (fun c => c (IZR l)) cs.

(* ------------------------------------------------------------------ sums *)
Definition rsum (l : list R) : R := fold_right Rplus 0 l.

(* ------------------------------------------------------------------ atomic and molecular solution (oracles are arguments) *)
Section Scheme.
  Variable pt : Type.                                      (* Cartesian points *)
  (* one atomic grid: what the solver reads from it *)
  Record atom := Atom {
    a_L : Z;                                               (* l_max // 2 *)
    a_rad : pt -> R;                                       (* r of convert_cartesian_to_spherical *)
    a_Y : Z -> pt -> R;                                    (* row k of generate_real_spherical_harmonics at (theta, phi) of the point *)
    a_proj : (pt -> R) -> Z -> R -> R;                     (* radial_component_splines(values)[k](r) *)
    a_int : (pt -> R) -> R;                                (* atomgrid.integrate(values) *)
    a_w : pt -> R                                          (* aim_weights on the points of this atom *)
  }.

  (* a scheme = the generated pieces of one of the two solvers *)
  Record scheme := Scheme {
    s_iters : Z -> list (Z * (Z * Z));
    s_fx : (Z -> R -> R) -> Z -> R -> R;
    s_coeffs : list (R -> R -> R);
    s_tags : Z -> Z -> list (Z * Z);                       (* which end / which derivative (empty for the IVP) *)
    s_vals : Z -> Z -> R -> list R;                        (* boundary or initial values as a function of `boundary` *)
    s_boundary : R -> R -> R;
    s_radial : (R -> R) -> R -> R
  }.

  (* the ODE solver: right-hand side, coefficient functions, condition tags, condition values  |->  solution *)
  Variable solve : (R -> R) -> list (R -> R) -> list (Z * Z) -> list R -> R -> R.
  Variable Y00 : R.

  Definition atom_term (S : scheme) (A : atom) (f : pt -> R) (p : pt) (it : Z * (Z * Z)) : R :=
    let '(k, (l, m)) := it in
    s_radial S (solve (s_fx S (a_proj A f) k) (at_degree (s_coeffs S) l) (s_tags S l m)
                      (s_vals S l m (s_boundary S (a_int A f) Y00))) (a_rad A p) * a_Y A k p.

  Definition V_atom (S : scheme) (A : atom) (f : pt -> R) (p : pt) : R :=
    rsum (map (atom_term S A f p) (s_iters S (a_L A))).

  (* _interpolate_molgrid_helper *)
  Definition V_mol (S : scheme) (atoms : list atom) (f : pt -> R) (p : pt) : R :=
    rsum (map (fun A => V_atom S A (fun x => f x * a_w A x) p) atoms).
End Scheme.

Definition bvp_scheme : scheme :=
  Scheme bvp_iters bvp_fx bvp_coeffs
         (fun l m => map fst (bvp_cond l m 0)) (fun l m B => map snd (bvp_cond l m B)) bvp_boundary bvp_radial_value.
(* r_max is a parameter of the initial values *)
Definition ivp_scheme (r_max : R) : scheme :=
  Scheme ivp_iters ivp_fx ivp_coeffs
         (fun _ _ => []) (fun l m B => ivp_cond l m B r_max) ivp_boundary ivp_radial_value.

(* ------------------------------------------------------------------ interpolate_laplacian (one atom, one point) *)
(* sum over the rows k of  Y_k * lap_row(f_k(r), f_k'(r), f_k''(r), degrees[k], r) *)
Definition lap_atom (L : Z) (f0 f1 f2 : Z -> R -> R) (Y : Z -> R) (r : R) : R :=
  rsum (map (fun kd : Z * Z => let (k, d) := kd in Y k * lap_row (f0 k r) (f1 k r) (f2 k r) (IZR d) r)
            (number 0%Z 1%Z (lap_degrees L))).

(* interpolate_laplacian on a MolGrid with n atoms: closure i is called after the loop with the grid lap_grid_of i (n-1) and the
   per-atom function object lap_slice_of i (n-1) (which carries the slice of func_vals * aim_weights in its defaults).
   lap_at g s = atomic Laplacian on grid g of the values of slice s, at the evaluation point. *)
Definition lap_mol (n : nat) (lap_at : nat -> nat -> R) : R :=
  rsum (map (fun i => lap_at (lap_grid_of i (n - 1)) (lap_slice_of i (n - 1))) (seq 0 n)).
Definition lap_mol_spec (n : nat) (lap_at : nat -> nat -> R) : R := rsum (map (fun i => lap_at i i) (seq 0 n)).

(* ------------------------------------------------------------------ solve_poisson_robust *)
Section Robust.
  Variable pt : Type.
  Variable Vbvp : (pt -> R) -> pt -> R.            (* solve_poisson_bvp(molgrid, residual, transform, **kw) *)
  Variable fit_rho fit_V : (pt -> R) -> pt -> R.   (* density fitted by _fit_residual_gaussians and its coulomb_potential *)

  Definition residual1 (cores : list (pt -> R)) (f : pt -> R) : pt -> R :=
    fold_left (fun res c => fun x => robust_split1 (res x) (c x)) cores f.
  Definition core_potential (vcores : list (pt -> R)) (p : pt) : R :=
    fold_left (fun v c => robust_core_acc v (c p)) vcores 0.

  Definition robust (split2 : bool) (cores vcores : list (pt -> R)) (f : pt -> R) (p : pt) : R :=
    let res1 := residual1 cores f in
    let res := if split2 then (fun x => robust_split2 (res1 x) (fit_rho res1 x)) else res1 in
    let vb := if split2 then fit_V res1 p else 0 in
    robust_total (core_potential vcores p) vb (Vbvp res p).
End Robust.
