(* C16 — the ODE handed to solve_ode_bvp is the radial Poisson equation for u = r V. *)
From Coq Require Import Reals Lra ZArith List.
From Coquelicot Require Import Coquelicot.
From P Require Import C16_base C16_gen C16_model C16_proofs_radial.
Import ListNotations.
Open Scope R_scope.

(* ---------------------------------------------------------------- the BVP: u = r V *)
(* what solve_ode_bvp is asked to solve for iteration (k, l):  sum_j coeffs_j(l, r) u^(j)(r) = f_x_k(r) *)
Definition bvp_ode (rho : Z -> R -> R) (k l : Z) (u u1 u2 : R -> R) (r : R) : Prop :=
  ode_lhs (at_degree bvp_coeffs l) [u r; u1 r; u2 r] r = bvp_fx rho k r.

Lemma bvp_ode_explicit rho k l u u1 u2 r : 0 < r ->
  (bvp_ode rho k l u u1 u2 r <-> u2 r - IZR (l * (l + 1)) * u r / r ^ 2 = -4 * PI * r * rho (bvp_fx_index k) r).
Proof.
  intros Hr. unfold bvp_ode, bvp_fx, at_degree, bvp_coeffs, bvp_coeff_0. cbn [map ode_lhs]. rewrite IZR_ll1.
  split; intros H.
  - transitivity (- IZR l * (IZR l + 1) / r ^ 2 * u r + (0 * u1 r + (1 * u2 r + 0))); [field; lra|]. rewrite H. ring.
  - transitivity (u2 r - IZR l * (IZR l + 1) * u r / r ^ 2); [field; lra|]. rewrite H. ring.
Qed.

Lemma bvp_is_radial_poisson_lemma (rho : Z -> R -> R) (k l : Z) (u u1 u2 : R -> R) :
  (forall t, 0 < t -> is_derive u t (u1 t)) -> (forall t, 0 < t -> is_derive u1 t (u2 t)) ->
  let V := bvp_radial_value u in
  (forall t, 0 < t -> is_derive V t (Vq1 u u1 t)) /\
  (forall t, 0 < t -> is_derive (Vq1 u u1) t (Vq2 u u1 u2 t)) /\
  (forall r, 0 < r ->
     (bvp_ode rho k l u u1 u2 r <->
      radial_op (IZR (l * (l + 1))) (V r) (Vq1 u u1 r) (Vq2 u u1 u2 r) r = -4 * PI * rho (bvp_fx_index k) r)).
Proof.
  intros Du Du1 V. destruct (radial_laplacian_lemma u u1 u2 (IZR (l * (l + 1))) Du Du1) as (A & B & C).
  split; [exact A|]. split; [exact B|]. intros r Hr. unfold V, bvp_radial_value. rewrite (C r Hr), (bvp_ode_explicit rho k l u u1 u2 r Hr).
  split; intros H.
  - rewrite H. field. lra.
  - set (X := u2 r - IZR (l * (l + 1)) * u r / r ^ 2) in *. replace X with (X / r * r) by (field; lra). rewrite H. ring.
Qed.

(* the value used by the code at the mesh point r = 0 is finite; for l = 0 the equation is regular and both branches vanish *)
Lemma bvp_coeff_at0_lemma : bvp_coeff_0_at0 0 = 0 /\ (forall r, r <> 0 -> bvp_coeff_0 0 r = 0) /\
  (forall l, bvp_coeff_0_at0 l = bvp_coeff_0 l (1 / 10000000000)).
Proof.
  unfold bvp_coeff_0_at0, bvp_coeff_0. split; [|split].
  - field.
  - intros r Hr. field. exact Hr.
  - intros l. reflexivity.
Qed.

Example ode_nonvacuous :   (* u = r^2 solves the generated l = 1 equation with rho_k = -1/(2 pi r) ... a concrete instance: l = 0, u = r, rho = 0 *)
  bvp_ode (fun _ _ => 0) 0 0 (fun r => r) (fun _ => 1) (fun _ => 0) 2.
Proof. unfold bvp_ode, bvp_fx, at_degree, bvp_coeffs, bvp_coeff_0. cbn [map ode_lhs]. field. Qed.
