(* C16 — the core density subtracted by solve_poisson_robust and the analytic potential added back are a Poisson pair
   (uses the C17 development: erf as an integral, s_poisson on the regenerated coulomb_gaussian_s). *)
From Coq Require Import Reals Lra.
From Coquelicot Require Import Coquelicot.
From P Require Import C16_base C16_gen C17_gen C17_erf C17_proofs.
Open Scope R_scope.

Lemma core_density_is_rho_s c a r : 0 < a -> core_density_term c a (r ^ 2) = c * rho_s a r.
Proof. intros Ha. unfold core_density_term, rho_s. rewrite <- (rho_s_doc a Ha). ring. Qed.

Lemma core_pair_poisson_lemma c a r : 0 < a -> 0 < r ->
  (forall t, 0 < t -> is_derive (fun s => s * (c * cg_s_main erf a s)) t (c * s_D1 a t)) /\
  is_derive (fun t => c * s_D1 a t) r (-4 * PI * r * core_density_term c a (r ^ 2)).
Proof.
  intros Ha Hr. destruct (s_poisson_lemma a r Ha Hr) as [D1 D2]. split.
  - intros t Ht. apply (is_derive_ext (fun s => c * (s * cg_s_main erf a s))); [intros s; apply (eq_trans (y := c * s * cg_s_main erf a s)); [apply eq_sym, Rmult_assoc|rewrite (Rmult_comm c s); apply Rmult_assoc]|].
    apply (is_derive_scal (fun s => s * cg_s_main erf a s) t c (s_D1 a t)). apply D1; exact Ht.
  - rewrite (core_density_is_rho_s c a r Ha).
    replace (-4 * PI * r * (c * rho_s a r)) with (c * (-4 * PI * r * rho_s a r)) by ring.
    apply (is_derive_scal (s_D1 a) r c). exact D2.
Qed.
