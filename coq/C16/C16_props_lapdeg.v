(* C16 property theorems (statements only): interpolate_laplacian, degrees list. *)
From Coq Require Import Reals ZArith List Bool.
From Coquelicot Require Import Coquelicot.
From P Require Import C16_base C16_gen C16_model C16_proofs_enum C16_proofs_lapdeg.
Import ListNotations.
Open Scope R_scope.

Theorem laplacian_degrees : forall L, (0 <= L)%Z ->
  lap_degrees L = map (fun k => (row_degree k * (row_degree k + 1))%Z) (zrange 0 ((L + 1) * (L + 1))).
Proof. exact lap_degrees_lemma. Qed.
Print Assumptions laplacian_degrees.
