(* C16 — the `degrees` list of interpolate_laplacian. *)
From Coq Require Import Reals ZArith List Bool Lia.
From P Require Import C16_base C16_gen C16_model C16_proofs_enum.
Import ListNotations.
Open Scope Z_scope.

(* ---------------------------------------------------------------- `degrees` of interpolate_laplacian *)
Lemma lap_degrees_step L : 0 <= L -> lap_degrees (L + 1) = lap_degrees L ++ repeat ((L + 1) * (L + 1 + 1)) (Z.to_nat (2 * (L + 1) + 1)).
Proof.
  intros HL. unfold lap_degrees. rewrite (zrange_snoc 0 (L + 1)) by lia. rewrite map_app, concat_app. simpl. now rewrite app_nil_r.
Qed.

Lemma lap_degrees_lemma L : 0 <= L ->
  lap_degrees L = map (fun k => row_degree k * (row_degree k + 1)) (zrange 0 ((L + 1) * (L + 1))).
Proof.
  intros HL. rewrite <- (Z2Nat.id L HL). induction (Z.to_nat L) as [|n IH].
  - reflexivity.
  - rewrite Nat2Z.inj_succ, <- Z.add_1_r, lap_degrees_step, IH by lia.
    rewrite (zrange_app 0 ((Z.of_nat n + 1) * (Z.of_nat n + 1)) ((Z.of_nat n + 1 + 1) * (Z.of_nat n + 1 + 1))) by lia.
    rewrite map_app. f_equal.
    rewrite (map_const_repeat _ ((Z.of_nat n + 1) * (Z.of_nat n + 1 + 1))).
    + rewrite zrange_length. f_equal. lia.
    + intros k Hk. apply In_zrange in Hk. unfold row_degree. rewrite (sqrt_band k (Z.of_nat n + 1)) by lia. reflexivity.
Qed.

Example lapdeg_nonvacuous : lap_degrees 2 = [0; 2; 2; 2; 6; 6; 6; 6; 6].
Proof. reflexivity. Qed.
