(* C16 — linearity in the density (composition of linear maps, oracle solver linear) and the robust recombination. *)
From Coq Require Import Reals Lra ZArith List Bool FunctionalExtensionality.
From P Require Import C16_base C16_gen C16_model.
Import ListNotations.
Open Scope R_scope.

Lemma rsum_map_lin {A} (h h1 h2 : A -> R) a b l :
  (forall x, In x l -> h x = a * h1 x + b * h2 x) -> rsum (map h l) = a * rsum (map h1 l) + b * rsum (map h2 l).
Proof.
  induction l as [|x t IH]; intros H; simpl; [ring|].
  rewrite (H x) by now left. rewrite IH; [ring|]. intros y Hy. apply H. now right.
Qed.

(* a x + b y componentwise *)
Definition lin_vals (a b : R) (v1 v2 : list R) : list R := map (fun xy : R * R => a * fst xy + b * snd xy) (combine v1 v2).

Section Linearity.
  Variable pt : Type.
  Variable solve : (R -> R) -> list (R -> R) -> list (Z * Z) -> list R -> R -> R.
  Variable Y00 : R.

  (* ORACLE HYPOTHESIS (validated numerically on every run): the ODE solver is linear in (right-hand side, condition values) *)
  Definition solver_linear : Prop := forall a b f g cs tags v1 v2 r, length v1 = length v2 ->
    solve (fun t => a * f t + b * g t) cs tags (lin_vals a b v1 v2) r = a * solve f cs tags v1 r + b * solve g cs tags v2 r.

  (* ORACLE HYPOTHESIS: spline projection and quadrature of one atomic grid are linear in the function values *)
  Definition atom_linear (A : atom pt) : Prop :=
    (forall a b f g k r, a_proj pt A (fun x => a * f x + b * g x) k r = a * a_proj pt A f k r + b * a_proj pt A g k r) /\
    (forall a b f g, a_int pt A (fun x => a * f x + b * g x) = a * a_int pt A f + b * a_int pt A g).

  (* what is needed of the generated pieces (proved below for both solvers) *)
  Definition scheme_linear (S : scheme) : Prop :=
    (forall a b r1 r2 k r, s_fx S (fun i t => a * r1 i t + b * r2 i t) k r = a * s_fx S r1 k r + b * s_fx S r2 k r) /\
    (forall l m a b B1 B2, s_vals S l m (a * B1 + b * B2) = lin_vals a b (s_vals S l m B1) (s_vals S l m B2)) /\
    (forall l m B1 B2, length (s_vals S l m B1) = length (s_vals S l m B2)) /\
    (forall a b Q1 Q2, s_boundary S (a * Q1 + b * Q2) Y00 = a * s_boundary S Q1 Y00 + b * s_boundary S Q2 Y00) /\
    (forall a b u1 u2 r, s_radial S (fun t => a * u1 t + b * u2 t) r = a * s_radial S u1 r + b * s_radial S u2 r).

  Lemma atom_term_linear S A a b f g p it : solver_linear -> atom_linear A -> scheme_linear S ->
    atom_term pt solve Y00 S A (fun x => a * f x + b * g x) p it =
    a * atom_term pt solve Y00 S A f p it + b * atom_term pt solve Y00 S A g p it.
  Proof.
    intros HS [HP HI] (Hfx & Hv & Hlen & Hb & Hr). destruct it as [k [l m]]. unfold atom_term.
    replace (a_proj pt A (fun x => a * f x + b * g x)) with (fun i t => a * a_proj pt A f i t + b * a_proj pt A g i t)
      by (apply functional_extensionality; intros i; apply functional_extensionality; intros t; symmetry; apply HP).
    replace (s_fx S (fun i t => a * a_proj pt A f i t + b * a_proj pt A g i t) k)
      with (fun t => a * s_fx S (a_proj pt A f) k t + b * s_fx S (a_proj pt A g) k t)
      by (apply functional_extensionality; intros t; symmetry; apply Hfx).
    rewrite HI, Hb, Hv.
    match goal with |- s_radial S ?F _ * _ = _ =>
      replace F with (fun t => a * solve (s_fx S (a_proj pt A f) k) (at_degree (s_coeffs S) l) (s_tags S l m)
                                        (s_vals S l m (s_boundary S (a_int pt A f) Y00)) t
                             + b * solve (s_fx S (a_proj pt A g) k) (at_degree (s_coeffs S) l) (s_tags S l m)
                                        (s_vals S l m (s_boundary S (a_int pt A g) Y00)) t)
        by (apply functional_extensionality; intros t; symmetry; apply HS, Hlen) end.
    rewrite Hr. ring.
  Qed.

  Lemma V_atom_linear S A a b f g p : solver_linear -> atom_linear A -> scheme_linear S ->
    V_atom pt solve Y00 S A (fun x => a * f x + b * g x) p = a * V_atom pt solve Y00 S A f p + b * V_atom pt solve Y00 S A g p.
  Proof. intros HS HA HSch. unfold V_atom. apply rsum_map_lin. intros it _. now apply atom_term_linear. Qed.

  Lemma V_mol_linear S atoms a b f g p : solver_linear -> Forall atom_linear atoms -> scheme_linear S ->
    V_mol pt solve Y00 S atoms (fun x => a * f x + b * g x) p = a * V_mol pt solve Y00 S atoms f p + b * V_mol pt solve Y00 S atoms g p.
  Proof.
    intros HS HA HSch. unfold V_mol. apply rsum_map_lin. intros A HinA. rewrite Forall_forall in HA.
    replace (fun x => (a * f x + b * g x) * a_w pt A x) with (fun x => a * (f x * a_w pt A x) + b * (g x * a_w pt A x))
      by (apply functional_extensionality; intros x; ring).
    apply V_atom_linear; auto.
  Qed.

  (* consequence used by the robust solver: zero density gives the zero potential *)
  Lemma V_mol_zero S atoms p : solver_linear -> Forall atom_linear atoms -> scheme_linear S ->
    V_mol pt solve Y00 S atoms (fun _ => 0) p = 0.
  Proof.
    intros HS HA HSch. pose proof (V_mol_linear S atoms 0 0 (fun _ => 0) (fun _ => 0) p HS HA HSch) as H. cbv beta in H.
    replace (fun _ : pt => 0 * 0 + 0 * 0) with (fun _ : pt => 0) in H by (apply functional_extensionality; intros; ring).
    rewrite H. ring.
  Qed.
End Linearity.

(* the generated pieces are linear *)
Lemma bvp_scheme_linear Y00 : scheme_linear Y00 bvp_scheme.
Proof.
  unfold scheme_linear, bvp_scheme; cbn [s_fx s_vals s_boundary s_radial]. split; [|split; [|split; [|split]]].
  - intros. unfold bvp_fx. ring.
  - intros l m a b B1 B2. unfold bvp_cond, lin_vals. destruct (bvp_is_monopole l m); cbn [map snd combine fst];
      (apply (f_equal2 cons); [ring|apply (f_equal2 cons); [ring|reflexivity]]).
  - intros l m B1 B2. unfold bvp_cond. destruct (bvp_is_monopole l m); reflexivity.
  - intros. unfold bvp_boundary, Rdiv. ring.
  - intros. unfold bvp_radial_value, Rdiv. ring.
Qed.

Lemma ivp_scheme_linear Y00 rmax : scheme_linear Y00 (ivp_scheme rmax).
Proof.
  unfold scheme_linear, ivp_scheme; cbn [s_fx s_vals s_boundary s_radial]. split; [|split; [|split; [|split]]].
  - intros. unfold ivp_fx. ring.
  - intros l m a b B1 B2. unfold ivp_cond, lin_vals. destruct (ivp_is_monopole l m); cbn [map snd combine fst];
      (apply (f_equal2 cons); [unfold Rdiv; ring|apply (f_equal2 cons); [unfold Rdiv; ring|reflexivity]]).
  - intros l m B1 B2. unfold ivp_cond. destruct (ivp_is_monopole l m); reflexivity.
  - intros. unfold ivp_boundary, Rdiv. ring.
  - intros. unfold ivp_radial_value. ring.
Qed.

Lemma linear_in_density_bvp_lemma pt solve Y00 atoms a b f g p : solver_linear solve -> Forall (atom_linear pt) atoms ->
  V_mol pt solve Y00 bvp_scheme atoms (fun x => a * f x + b * g x) p
  = a * V_mol pt solve Y00 bvp_scheme atoms f p + b * V_mol pt solve Y00 bvp_scheme atoms g p.
Proof. intros HS HA. apply V_mol_linear; auto. apply bvp_scheme_linear. Qed.

Lemma linear_in_density_ivp_lemma pt solve Y00 rmax atoms a b f g p : solver_linear solve -> Forall (atom_linear pt) atoms ->
  V_mol pt solve Y00 (ivp_scheme rmax) atoms (fun x => a * f x + b * g x) p
  = a * V_mol pt solve Y00 (ivp_scheme rmax) atoms f p + b * V_mol pt solve Y00 (ivp_scheme rmax) atoms g p.
Proof. intros HS HA. apply V_mol_linear; auto. apply ivp_scheme_linear. Qed.

(* hypotheses are satisfiable on a non-trivial instance: a solver returning  r |-> sum of the condition values + f(1)  *)
Example linear_nonvacuous :
  solver_linear (fun f _ _ v r => rsum v * r + f 1) /\
  atom_linear unit (Atom unit 1%Z (fun _ => 2) (fun _ _ => 1) (fun f k r => f tt * r) (fun f => 3 * f tt) (fun _ => 1)).
Proof.
  split.
  - intros a b f g cs tags v1 v2 r Hl.
    assert (E : rsum (lin_vals a b v1 v2) = a * rsum v1 + b * rsum v2).
    { revert v2 Hl. unfold lin_vals. induction v1 as [|x t IH]; intros [|y s] Hl; simpl in *; try discriminate; [ring|]. rewrite IH by congruence. ring. }
    rewrite E. ring.
  - split; intros; simpl; ring.
Qed.

(* ================================================================== solve_poisson_robust *)
Section RobustProofs.
  Variable pt : Type.
  Variable Vbvp fit_rho fit_V : (pt -> R) -> pt -> R.

  Definition sum_at (cs : list (pt -> R)) (x : pt) : R := rsum (map (fun c => c x) cs).

  Lemma residual1_spec cores f x : residual1 pt cores f x = f x - sum_at cores x.
  Proof.
    revert f. unfold residual1, sum_at. induction cores as [|c t IH]; intros f; simpl; [ring|].
    rewrite IH. unfold robust_split1. ring.
  Qed.

  Lemma core_potential_spec vcores p : core_potential pt vcores p = sum_at vcores p.
  Proof.
    unfold core_potential, sum_at.
    assert (G : forall v0, fold_left (fun v c => robust_core_acc v (c p)) vcores v0 = v0 + rsum (map (fun c => c p) vcores)).
    { induction vcores as [|c t IH]; intros v0; simpl; [ring|]. rewrite IH. unfold robust_core_acc. ring. }
    rewrite G. ring.
  Qed.

  Definition res_split1 (cores : list (pt -> R)) (f : pt -> R) : pt -> R := fun x => f x - sum_at cores x.

  (* the result IS: analytic core potential (+ analytic potential of the fit) + numerical potential of what is left *)
  Lemma robust_recombination_lemma cores vcores f p :
    robust pt Vbvp fit_rho fit_V false cores vcores f p = sum_at vcores p + Vbvp (res_split1 cores f) p /\
    robust pt Vbvp fit_rho fit_V true cores vcores f p =
      sum_at vcores p + fit_V (res_split1 cores f) p + Vbvp (fun x => res_split1 cores f x - fit_rho (res_split1 cores f) x) p.
  Proof.
    assert (E : residual1 pt cores f = res_split1 cores f) by (apply functional_extensionality; intros x; apply residual1_spec).
    unfold robust. rewrite E, core_potential_spec. unfold robust_total, robust_split2. split; ring.
  Qed.

  (* ... which is the Coulomb potential of f whenever each analytic potential is the Coulomb potential of the density that was
     subtracted and the numerical solver is exact on what is left (Coul: any linear operator) *)
  Variable Coul : (pt -> R) -> pt -> R.
  Hypothesis Coul_linear : forall a b f g p, Coul (fun x => a * f x + b * g x) p = a * Coul f p + b * Coul g p.

  Lemma Coul_zero p : Coul (fun _ => 0) p = 0.
  Proof.
    pose proof (Coul_linear 0 0 (fun _ => 0) (fun _ => 0) p) as H. cbv beta in H.
    replace (fun _ : pt => 0 * 0 + 0 * 0) with (fun _ : pt => 0) in H by (apply functional_extensionality; intros; ring).
    rewrite H. ring.
  Qed.

  Lemma Coul_sum cores vcores p : Forall2 (fun c v => forall q, v q = Coul c q) cores vcores ->
    Coul (sum_at cores) p = sum_at vcores p.
  Proof.
    intros H. revert p. induction H as [|c v cs vs Hcv _ IH]; intros p; unfold sum_at in *; simpl.
    - apply Coul_zero.
    - replace (fun x => c x + rsum (map (fun c0 => c0 x) cs)) with (fun x => 1 * c x + 1 * rsum (map (fun c0 => c0 x) cs))
        by (apply functional_extensionality; intros; ring).
      rewrite Coul_linear, IH, Hcv. ring.
  Qed.

  Lemma Coul_split3 (s g h f : pt -> R) p : (forall x, f x = s x + g x + h x) -> Coul f p = Coul s p + Coul g p + Coul h p.
  Proof.
    intros H. replace f with (fun x => 1 * s x + 1 * (fun y => 1 * g y + 1 * h y) x)
      by (apply functional_extensionality; intros x; rewrite H; ring).
    rewrite (Coul_linear 1 1 s (fun y => 1 * g y + 1 * h y)), (Coul_linear 1 1 g h). ring.
  Qed.

  Lemma robust_sound_lemma (split2 : bool) cores vcores f p :
    Forall2 (fun c v => forall q, v q = Coul c q) cores vcores ->
    (forall g q, fit_V g q = Coul (fit_rho g) q) ->
    (forall g q, g = (if split2 then (fun x : pt => res_split1 cores f x - fit_rho (res_split1 cores f) x) else res_split1 cores f) ->
                 Vbvp g q = Coul g q) ->
    robust pt Vbvp fit_rho fit_V split2 cores vcores f p = Coul f p.
  Proof.
    intros Hc Hf Hex. destruct (robust_recombination_lemma cores vcores f p) as [R1 R2].
    pose proof (Coul_sum cores vcores p Hc) as Hs.
    destruct split2.
    - rewrite R2, (Hex _ p eq_refl), Hf, <- Hs. symmetry. apply Coul_split3. intros x. unfold res_split1. ring.
    - rewrite R1, (Hex _ p eq_refl), <- Hs.
      rewrite (Coul_split3 (sum_at cores) (fun _ => 0) (res_split1 cores f) f p) by (intros x; unfold res_split1; ring).
      rewrite Coul_zero. ring.
  Qed.

  (* exact cancellation: the density IS the core model *)
  Lemma robust_exact_lemma split2 cores vcores f p :
    (forall x, f x = sum_at cores x) ->
    (forall q, Vbvp (fun _ => 0) q = 0) ->
    (split2 = true -> (forall x, fit_rho (fun _ => 0) x = 0) /\ (forall q, fit_V (fun _ => 0) q = 0)) ->
    robust pt Vbvp fit_rho fit_V split2 cores vcores f p = sum_at vcores p.
  Proof.
    intros Hf H0 Hfit. destruct (robust_recombination_lemma cores vcores f p) as [R1 R2].
    assert (Z0 : res_split1 cores f = (fun _ => 0)) by (apply functional_extensionality; intros x; unfold res_split1; rewrite Hf; ring).
    destruct split2.
    - destruct (Hfit eq_refl) as [F1 F2]. rewrite R2, Z0, F2.
      replace (fun x : pt => 0 - fit_rho (fun _ : pt => 0) x) with (fun _ : pt => 0)
        by (apply functional_extensionality; intros x; rewrite F1; ring).
      rewrite H0. ring.
    - rewrite R1, Z0, H0. ring.
  Qed.
End RobustProofs.

(* with the model of solve_poisson_bvp for Vbvp, "the solver maps 0 to 0" is a consequence of the linearity of the oracles *)
Lemma robust_exact_on_core_model_lemma pt solve Y00 atoms fit_rho fit_V split2 cores vcores f p :
  solver_linear solve -> Forall (atom_linear pt) atoms ->
  (forall x, f x = sum_at pt cores x) ->
  (split2 = true -> (forall x, fit_rho (fun _ => 0) x = 0) /\ (forall q, fit_V (fun _ => 0) q = 0)) ->
  robust pt (V_mol pt solve Y00 bvp_scheme atoms) fit_rho fit_V split2 cores vcores f p = sum_at pt vcores p.
Proof.
  intros HS HA Hf Hfit. apply robust_exact_lemma; auto.
  intros q. apply V_mol_zero; auto. apply bvp_scheme_linear.
Qed.

Example robust_nonvacuous :
  robust unit (fun g _ => 2 * g tt) (fun g _ => g tt / 2) (fun g _ => g tt) true [fun _ => 3] [fun _ => 6] (fun _ => 5) tt = 10.
Proof. unfold robust, residual1, core_potential, robust_total, robust_split1, robust_split2, robust_core_acc. simpl. field. Qed.
