(* C16 — linearity in the density (composition of linear maps, oracle solver linear) and the robust recombination. *)
From Coq Require Import Reals Lra ZArith List Bool FunctionalExtensionality.
From P Require Import C16_base C16_gen C16_model.
Import ListNotations.
Open Scope R_scope.

Lemma rsum_map_lin {A} (h h1 h2 : A -> R) a b l :
  (forall x, In x l -> h x = a * h1 x + b * h2 x) -> rsum (map h l) = a * rsum (map h1 l) + b * rsum (map h2 l).
Proof.
  induction l as [|x t IH]; intros H; simpl; [ring|].
  rewrite (H x) by now left. rewrite IH; [ring|]. intros y Hy. apply H. now right.
Qed.

(* a x + b y componentwise *)
Definition lin_vals (a b : R) (v1 v2 : list R) : list R := map (fun xy : R * R => a * fst xy + b * snd xy) (combine v1 v2).

Section Linearity.
  Variable pt : Type.
  Variable solve : (R -> R) -> list (R -> R) -> list (Z * Z) -> list R -> R -> R.
  Variable Y00 : R.

  (* ORACLE HYPOTHESIS (validated numerically on every run): the ODE solver is linear in (right-hand side, condition values) *)
  Definition solver_linear : Prop := forall a b f g cs tags v1 v2 r, length v1 = length v2 ->
    solve (fun t => a * f t + b * g t) cs tags (lin_vals a b v1 v2) r = a * solve f cs tags v1 r + b * solve g cs tags v2 r.

  (* ORACLE HYPOTHESIS: spline projection and quadrature of one atomic grid are linear in the function values *)
  Definition atom_linear (A : atom pt) : Prop :=
    (forall a b f g k r, a_proj pt A (fun x => a * f x + b * g x) k r = a * a_proj pt A f k r + b * a_proj pt A g k r) /\
    (forall a b f g, a_int pt A (fun x => a * f x + b * g x) = a * a_int pt A f + b * a_int pt A g).

  (* what is needed of the generated pieces (proved below for both solvers) *)
  Definition scheme_linear (S : scheme) : Prop :=
    (forall a b r1 r2 k r, s_fx S (fun i t => a * r1 i t + b * r2 i t) k r = a * s_fx S r1 k r + b * s_fx S r2 k r) /\
    (forall l m a b B1 B2, s_vals S l m (a * B1 + b * B2) = lin_vals a b (s_vals S l m B1) (s_vals S l m B2)) /\
    (forall l m B1 B2, length (s_vals S l m B1) = length (s_vals S l m B2)) /\
    (forall a b Q1 Q2, s_boundary S (a * Q1 + b * Q2) Y00 = a * s_boundary S Q1 Y00 + b * s_boundary S Q2 Y00) /\
    (forall a b u1 u2 r, s_radial S (fun t => a * u1 t + b * u2 t) r = a * s_radial S u1 r + b * s_radial S u2 r).

  Lemma atom_term_linear S A a b f g p it : solver_linear -> atom_linear A -> scheme_linear S ->
    atom_term pt solve Y00 S A (fun x => a * f x + b * g x) p it =
    a * atom_term pt solve Y00 S A f p it + b * atom_term pt solve Y00 S A g p it.
  Proof.
    intros HS [HP HI] (Hfx & Hv & Hlen & Hb & Hr). destruct it as [k [l m]]. unfold atom_term.
    replace (a_proj pt A (fun x => a * f x + b * g x)) with (fun i t => a * a_proj pt A f i t + b * a_proj pt A g i t)
      by (apply functional_extensionality; intros i; apply functional_extensionality; intros t; symmetry; apply HP).
    replace (s_fx S (fun i t => a * a_proj pt A f i t + b * a_proj pt A g i t) k)
      with (fun t => a * s_fx S (a_proj pt A f) k t + b * s_fx S (a_proj pt A g) k t)
      by (apply functional_extensionality; intros t; symmetry; apply Hfx).
    rewrite HI, Hb, Hv.
    match goal with |- s_radial S ?F _ * _ = _ =>
      replace F with (fun t => a * solve (s_fx S (a_proj pt A f) k) (at_degree (s_coeffs S) l) (s_tags S l m)
                                        (s_vals S l m (s_boundary S (a_int pt A f) Y00)) t
                             + b * solve (s_fx S (a_proj pt A g) k) (at_degree (s_coeffs S) l) (s_tags S l m)
                                        (s_vals S l m (s_boundary S (a_int pt A g) Y00)) t)
        by (apply functional_extensionality; intros t; symmetry; apply HS, Hlen) end.
    rewrite Hr. ring.
  Qed.

  Lemma V_atom_linear S A a b f g p : solver_linear -> atom_linear A -> scheme_linear S ->
    V_atom pt solve Y00 S A (fun x => a * f x + b * g x) p = a * V_atom pt solve Y00 S A f p + b * V_atom pt solve Y00 S A g p.
  Proof. intros HS HA HSch. unfold V_atom. apply rsum_map_lin. intros it _. now apply atom_term_linear. Qed.

  Lemma V_mol_linear S atoms a b f g p : solver_linear -> Forall atom_linear atoms -> scheme_linear S ->
    V_mol pt solve Y00 S atoms (fun x => a * f x + b * g x) p = a * V_mol pt solve Y00 S atoms f p + b * V_mol pt solve Y00 S atoms g p.
  Proof.
    intros HS HA HSch. unfold V_mol. apply rsum_map_lin. intros A HinA. rewrite Forall_forall in HA.
    replace (fun x => (a * f x + b * g x) * a_w pt A x) with (fun x => a * (f x * a_w pt A x) + b * (g x * a_w pt A x))
      by (apply functional_extensionality; intros x; ring).
    apply V_atom_linear; auto.
  Qed.

  (* consequence used by the robust solver: zero density gives the zero potential *)
  Lemma V_mol_zero S atoms p : solver_linear -> Forall atom_linear atoms -> scheme_linear S ->
    V_mol pt solve Y00 S atoms (fun _ => 0) p = 0.
  Proof.
    intros HS HA HSch. pose proof (V_mol_linear S atoms 0 0 (fun _ => 0) (fun _ => 0) p HS HA HSch) as H. cbv beta in H.
    replace (fun _ : pt => 0 * 0 + 0 * 0) with (fun _ : pt => 0) in H by (apply functional_extensionality; intros; ring).
    rewrite H. ring.
  Qed.
End Linearity.

(* hypotheses are satisfiable on a non-trivial instance: a solver returning  r |-> sum of the condition values + f(1)  *)
Example linear_nonvacuous :
  solver_linear (fun f _ _ v r => rsum v * r + f 1) /\
  atom_linear unit (Atom unit 1%Z (fun _ => 2) (fun _ _ => 1) (fun f k r => f tt * r) (fun f => 3 * f tt) (fun _ => 1)).
Proof.
  split.
  - intros a b f g cs tags v1 v2 r Hl.
    assert (E : rsum (lin_vals a b v1 v2) = a * rsum v1 + b * rsum v2).
    { revert v2 Hl. unfold lin_vals. induction v1 as [|x t IH]; intros [|y s] Hl; simpl in *; try discriminate; [ring|]. rewrite IH by congruence. ring. }
    rewrite E. ring.
  - split; intros; simpl; ring.
Qed.

