(* C16 property theorems (statements only). *)
From Coq Require Import Reals ZArith List Bool.
From Coquelicot Require Import Coquelicot.
From P Require Import C16_base C16_gen C16_model C16_proofs_enum C16_proofs_ode C16_proofs_lin.
Import ListNotations.
Open Scope R_scope.

(* V = u/r is twice differentiable where u is, and  V'' + 2V'/r - c V/r^2 = (u'' - c u/r^2)/r  (c = l(l+1)) *)
Theorem radial_laplacian : forall (u u1 u2 : R -> R) (c : R),
  (forall t, 0 < t -> is_derive u t (u1 t)) -> (forall t, 0 < t -> is_derive u1 t (u2 t)) ->
  (forall t, 0 < t -> is_derive (fun s => u s / s) t (Vq1 u u1 t)) /\
  (forall t, 0 < t -> is_derive (Vq1 u u1) t (Vq2 u u1 u2 t)) /\
  (forall r, 0 < r -> radial_op c (u r / r) (Vq1 u u1 r) (Vq2 u u1 u2 r) r = (u2 r - c * u r / r ^ 2) / r).
Proof. exact radial_laplacian_lemma. Qed.
Print Assumptions radial_laplacian.

(* the ODE handed to solve_ode_bvp in iteration (k, l) -- generated coefficient list and f_x -- is
   u'' - l(l+1) u/r^2 = -4 pi r rho_k(r), and it holds iff V = u/r (the value the returned closure uses) satisfies the radial
   Poisson equation  V'' + 2V'/r - l(l+1) V/r^2 = -4 pi rho_k(r),  rho_k = spline of row k *)
Theorem bvp_ode_is_radial_poisson : forall (rho : Z -> R -> R) (k l : Z) (u u1 u2 : R -> R),
  (forall t, 0 < t -> is_derive u t (u1 t)) -> (forall t, 0 < t -> is_derive u1 t (u2 t)) ->
  let V := bvp_radial_value u in
  (forall t, 0 < t -> is_derive V t (Vq1 u u1 t)) /\
  (forall t, 0 < t -> is_derive (Vq1 u u1) t (Vq2 u u1 u2 t)) /\
  (forall r, 0 < r ->
     (bvp_ode rho k l u u1 u2 r <->
      radial_op (IZR (l * (l + 1))) (V r) (Vq1 u u1 r) (Vq2 u u1 u2 r) r = -4 * PI * rho (bvp_fx_index k) r)).
Proof. exact bvp_is_radial_poisson_lemma. Qed.
Print Assumptions bvp_ode_is_radial_poisson.

Theorem bvp_ode_explicit_form : forall rho k l (u u1 u2 : R -> R) r, 0 < r ->
  (bvp_ode rho k l u u1 u2 r <-> u2 r - IZR (l * (l + 1)) * u r / r ^ 2 = -4 * PI * r * rho (bvp_fx_index k) r).
Proof. exact bvp_ode_explicit. Qed.
Print Assumptions bvp_ode_explicit_form.

(* the value substituted at the mesh point r = 0 *)
Theorem bvp_coeff_at_origin : bvp_coeff_0_at0 0 = 0 /\ (forall r, r <> 0 -> bvp_coeff_0 0 r = 0) /\
  (forall l, bvp_coeff_0_at0 l = bvp_coeff_0 l (1 / 10000000000)).
Proof. exact bvp_coeff_at0_lemma. Qed.
Print Assumptions bvp_coeff_at_origin.

(* the ODE handed to solve_ode_ivp is the radial Poisson equation for V itself *)
Theorem ivp_ode_is_radial_poisson : forall rho k l (V V1 V2 : R -> R) r, 0 < r ->
  (ivp_ode rho k l V V1 V2 r <->
   radial_op (IZR (l * (l + 1))) (ivp_radial_value V r) (V1 r) (V2 r) r = -4 * PI * rho (ivp_fx_index k) r).
Proof. exact ivp_is_radial_poisson_lemma. Qed.
Print Assumptions ivp_ode_is_radial_poisson.

(* far field: the (0,0) component is pinned to boundary = Q / Y00, i.e. V Y00 = Q / r at the outer end *)
Theorem far_field : forall Q Y00 r, Y00 <> 0 -> r <> 0 ->
  bvp_cond 0 0 (bvp_boundary Q Y00) = [(0%Z, 0%Z, 0); (1%Z, 0%Z, bvp_boundary Q Y00)] /\
  bvp_radial_value (fun _ => bvp_boundary Q Y00) r * Y00 = Q / r /\
  (Y00 = / sqrt (4 * PI) -> bvp_boundary Q Y00 = sqrt (4 * PI) * Q).
Proof. exact far_field_bvp_lemma. Qed.
Print Assumptions far_field.

Theorem far_field_other_components : forall l m B, bvp_is_monopole l m = false -> bvp_cond l m B = [(0%Z, 0%Z, 0); (1%Z, 0%Z, 0)].
Proof. exact bvp_cond_other. Qed.
Print Assumptions far_field_other_components.

Theorem far_field_ivp : forall Q Y00 rmax, Y00 <> 0 -> 0 < rmax ->
  let B := ivp_boundary Q Y00 in
  exists v0 v1, ivp_cond 0 0 B rmax = [v0; v1] /\ v0 = B / rmax /\ is_derive (fun t => B / t) rmax v1 /\ v0 * Y00 = Q / rmax.
Proof. exact far_field_ivp_lemma. Qed.
Print Assumptions far_field_ivp.

Theorem far_field_ivp_other_components : forall l m B rmax, ivp_is_monopole l m = false -> ivp_cond l m B rmax = [0; 0].
Proof. exact ivp_cond_other. Qed.
Print Assumptions far_field_ivp_other_components.

(* the loop nest: one solve per Horton row, with the degree of that row, the spline of that row, monopole data only for row 0;
   rows <-> (l, m) is a bijection *)
Theorem lm_enumeration : enumeration_statement bvp_iters bvp_is_monopole bvp_fx_index.
Proof. exact bvp_enumeration_lemma. Qed.
Print Assumptions lm_enumeration.

Theorem lm_enumeration_ivp : enumeration_statement ivp_iters ivp_is_monopole ivp_fx_index.
Proof. exact ivp_enumeration_lemma. Qed.
Print Assumptions lm_enumeration_ivp.

(* interpolate_laplacian: per row the radial operator (r f)''/r - l(l+1) f/r^2, with degrees[k] = l(l+1) of Horton row k *)
Theorem laplacian_expansion : forall (f f1 f2 : R -> R) (l : Z),
  (forall t, 0 < t -> is_derive f t (f1 t)) -> (forall t, 0 < t -> is_derive f1 t (f2 t)) ->
  (forall t, 0 < t -> is_derive (fun s => s * f s) t (f t + t * f1 t)) /\
  (forall t, 0 < t -> is_derive (fun s => f s + s * f1 s) t (2 * f1 t + t * f2 t)) /\
  (forall r, 0 < r ->
     lap_row (f r) (f1 r) (f2 r) (IZR (l * (l + 1))) r = radial_op (IZR (l * (l + 1))) (f r) (f1 r) (f2 r) r /\
     lap_row (f r) (f1 r) (f2 r) (IZR (l * (l + 1))) r = (2 * f1 r + r * f2 r) / r - IZR (l * (l + 1)) * f r / r ^ 2).
Proof. exact laplacian_row_lemma. Qed.
Print Assumptions laplacian_expansion.

Theorem laplacian_degrees : forall L, (0 <= L)%Z ->
  lap_degrees L = map (fun k => (row_degree k * (row_degree k + 1))%Z) (zrange 0 ((L + 1) * (L + 1))).
Proof. exact lap_degrees_lemma. Qed.
Print Assumptions laplacian_degrees.

(* linearity in the density: molecular solution (sum over atoms of the atomic solutions for w_A rho), both solvers *)
Theorem linear_in_density : forall pt solve Y00 atoms a b (f g : pt -> R) p,
  solver_linear solve -> List.Forall (atom_linear pt) atoms ->
  V_mol pt solve Y00 bvp_scheme atoms (fun x => a * f x + b * g x) p
  = a * V_mol pt solve Y00 bvp_scheme atoms f p + b * V_mol pt solve Y00 bvp_scheme atoms g p.
Proof. exact linear_in_density_bvp_lemma. Qed.
Print Assumptions linear_in_density.

Theorem linear_in_density_ivp : forall pt solve Y00 rmax atoms a b (f g : pt -> R) p,
  solver_linear solve -> List.Forall (atom_linear pt) atoms ->
  V_mol pt solve Y00 (ivp_scheme rmax) atoms (fun x => a * f x + b * g x) p
  = a * V_mol pt solve Y00 (ivp_scheme rmax) atoms f p + b * V_mol pt solve Y00 (ivp_scheme rmax) atoms g p.
Proof. exact linear_in_density_ivp_lemma. Qed.
Print Assumptions linear_in_density_ivp.

(* solve_poisson_robust = analytic core potential (+ analytic potential of the fit) + numerical potential of the residual *)
Theorem robust_recombination : forall pt Vbvp fit_rho fit_V cores vcores (f : pt -> R) p,
  robust pt Vbvp fit_rho fit_V false cores vcores f p = sum_at pt vcores p + Vbvp (res_split1 pt cores f) p /\
  robust pt Vbvp fit_rho fit_V true cores vcores f p =
    sum_at pt vcores p + fit_V (res_split1 pt cores f) p
    + Vbvp (fun x => res_split1 pt cores f x - fit_rho (res_split1 pt cores f) x) p.
Proof. exact robust_recombination_lemma. Qed.
Print Assumptions robust_recombination.

(* that recombination is the potential of f for every linear Coulomb operator, if the analytic pairs are exact and the numerical
   solver is exact on the residual *)
Theorem robust_recombination_sound : forall pt Vbvp fit_rho fit_V (Coul : (pt -> R) -> pt -> R),
  (forall a b f g p, Coul (fun x => a * f x + b * g x) p = a * Coul f p + b * Coul g p) ->
  forall (split2 : bool) cores vcores f p,
  List.Forall2 (fun c v => forall q, v q = Coul c q) cores vcores ->
  (forall g q, fit_V g q = Coul (fit_rho g) q) ->
  (forall g q, g = (if split2 then (fun x : pt => res_split1 pt cores f x - fit_rho (res_split1 pt cores f) x) else res_split1 pt cores f) ->
               Vbvp g q = Coul g q) ->
  robust pt Vbvp fit_rho fit_V split2 cores vcores f p = Coul f p.
Proof. exact robust_sound_lemma. Qed.
Print Assumptions robust_recombination_sound.

(* exact cancellation: the density equals the core model; Vbvp is the model of solve_poisson_bvp with linear oracles *)
Theorem robust_exact_on_core_model : forall pt solve Y00 atoms fit_rho fit_V split2 cores vcores (f : pt -> R) p,
  solver_linear solve -> List.Forall (atom_linear pt) atoms ->
  (forall x, f x = sum_at pt cores x) ->
  (split2 = true -> (forall x, fit_rho (fun _ => 0) x = 0) /\ (forall q, fit_V (fun _ => 0) q = 0)) ->
  robust pt (V_mol pt solve Y00 bvp_scheme atoms) fit_rho fit_V split2 cores vcores f p = sum_at pt vcores p.
Proof. exact robust_exact_on_core_model_lemma. Qed.
Print Assumptions robust_exact_on_core_model.
