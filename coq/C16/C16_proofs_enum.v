(* C16 — generic facts about range lists, the spline counter and Horton rows; the loop nest for any iterables of the expected shape. *)
From Coq Require Import Reals ZArith List Bool Lia.
From P Require Import C16_base C16_gen C16_model.
Import ListNotations.
Open Scope Z_scope.

(* ---------------------------------------------------------------- zrange / number *)
Lemma zrange_length a b : length (zrange a b) = Z.to_nat (b - a).
Proof. unfold zrange. now rewrite map_length, seq_length. Qed.

Lemma In_zrange x a b : In x (zrange a b) <-> a <= x < b.
Proof.
  unfold zrange. rewrite in_map_iff. split.
  - intros [i [<- Hi]]. apply in_seq in Hi. lia.
  - intros H. exists (Z.to_nat (x - a)). split; [lia|]. apply in_seq. lia.
Qed.

Lemma zrange_app a b c : a <= b <= c -> zrange a c = zrange a b ++ zrange b c.
Proof.
  intros H. unfold zrange.
  replace (Z.to_nat (c - a)) with (Z.to_nat (b - a) + Z.to_nat (c - b))%nat by lia.
  rewrite seq_app, map_app. f_equal.
  assert (G : forall n s, map (fun i => a + Z.of_nat i) (seq (Z.to_nat (b - a) + s) n) = map (fun i => b + Z.of_nat i) (seq s n)).
  { induction n; intros s; simpl; [reflexivity|]. f_equal; [lia|]. rewrite <- IHn. f_equal. f_equal. lia. }
  rewrite <- (G _ 0%nat). f_equal. f_equal. lia.
Qed.

Lemma zrange_one a : zrange a (a + 1) = [a].
Proof. unfold zrange. replace (a + 1 - a) with 1 by lia. simpl. f_equal. lia. Qed.

Lemma zrange_snoc a b : a <= b -> zrange a (b + 1) = zrange a b ++ [b].
Proof. intros H. rewrite (zrange_app a b (b + 1)) by lia. now rewrite zrange_one. Qed.

Lemma number_app {A} k s (l1 l2 : list A) :
  number k s (l1 ++ l2) = number k s l1 ++ number (k + s * Z.of_nat (length l1)) s l2.
Proof.
  revert k. induction l1 as [|x t IH]; intros k; simpl.
  - f_equal. lia.
  - f_equal. rewrite IH. f_equal. f_equal. lia.
Qed.

Lemma number_fst {A} k (l : list A) : map fst (number k 1 l) = zrange k (k + Z.of_nat (length l)).
Proof.
  revert k. induction l as [|x t IH]; intros k; simpl.
  - unfold zrange. now replace (k + 0 - k) with 0 by lia.
  - rewrite IH. rewrite (zrange_app k (k + 1) (k + Z.pos (Pos.of_succ_nat (length t)))) by lia.
    rewrite zrange_one. simpl. f_equal. f_equal. lia.
Qed.

Lemma In_number {A} i (x : A) k l : In (i, x) (number k 1 l) -> k <= i < k + Z.of_nat (length l) /\ In x l.
Proof.
  revert k. induction l as [|y t IH]; intros k; simpl; [tauto|].
  intros [E|H].
  - inversion E; subst. split; [lia|now left].
  - apply IH in H. split; [lia|now right].
Qed.

Lemma number_length {A} k s (l : list A) : length (number k s l) = length l.
Proof. revert k. induction l; intros k; simpl; [reflexivity|now rewrite IHl]. Qed.

Lemma map_const_repeat {A B} (g : A -> B) c l : (forall x, In x l -> g x = c) -> map g l = repeat c (length l).
Proof.
  induction l as [|x t IH]; intros H; simpl; [reflexivity|].
  rewrite (H x) by now left. f_equal. apply IH. intros y Hy. apply H. now right.
Qed.

(* ---------------------------------------------------------------- Horton rows *)
Lemma sqrt_band k l : 0 <= l -> l * l <= k < (l + 1) * (l + 1) -> Z.sqrt k = l.
Proof. intros Hl H. apply Z.sqrt_unique. lia. Qed.

Lemma even_2q q : Z.even (2 * q) = true.
Proof. rewrite Z.even_mul. reflexivity. Qed.
Lemma even_2q1 q : Z.even (2 * q + 1) = false.
Proof. rewrite Z.even_add, Z.even_mul. reflexivity. Qed.

Lemma horton_row l m : 0 <= l -> - l <= m <= l ->
  l * l <= horton_index l m < (l + 1) * (l + 1) /\ row_degree (horton_index l m) = l /\ row_order (horton_index l m) = m.
Proof.
  intros Hl Hm.
  assert (B : l * l <= horton_index l m < (l + 1) * (l + 1)).
  { unfold horton_index. destruct (0 <? m) eqn:E; [apply Z.ltb_lt in E|apply Z.ltb_ge in E]; nia. }
  split; [exact B|]. unfold row_degree, row_order. rewrite (sqrt_band _ l Hl B). split; [reflexivity|].
  unfold horton_index. destruct (0 <? m) eqn:E; [apply Z.ltb_lt in E|apply Z.ltb_ge in E].
  - replace (l * l + 2 * m - 1 - l * l) with (2 * (m - 1) + 1) by lia.
    rewrite even_2q1. replace (2 * (m - 1) + 1 + 1) with (m * 2) by lia. apply Z.div_mul. lia.
  - replace (l * l + 2 * - m - l * l) with (2 * (- m)) by lia.
    rewrite even_2q. replace (2 * - m) with ((- m) * 2) by lia. rewrite Z.div_mul by lia. lia.
Qed.

Lemma row_horton k : 0 <= k ->
  0 <= row_degree k /\ - row_degree k <= row_order k <= row_degree k /\ horton_index (row_degree k) (row_order k) = k.
Proof.
  intros Hk. unfold row_degree, row_order, horton_index.
  pose proof (Z.sqrt_spec k Hk) as S. cbv zeta in S. pose proof (Z.sqrt_nonneg k) as N.
  set (s := Z.sqrt k) in *. set (j := k - s * s).
  assert (Hj : 0 <= j <= 2 * s) by (unfold j; lia).
  destruct (Z.even j) eqn:E.
  - apply Z.even_spec in E. destruct E as [q Hq]. rewrite Hq. replace (2 * q) with (q * 2) by lia. rewrite Z.div_mul by lia.
    assert (0 <? - q = false) as -> by (apply Z.ltb_ge; lia). unfold j in Hq. split; [lia|]. split; lia.
  - assert (O : Z.odd j = true) by (rewrite <- Z.negb_even, E; reflexivity).
    apply Z.odd_spec in O. destruct O as [q Hq]. rewrite Hq. replace (2 * q + 1 + 1) with ((q + 1) * 2) by lia. rewrite Z.div_mul by lia.
    assert (0 <? q + 1 = true) as -> by (apply Z.ltb_lt; lia). unfold j in Hq. split; [lia|]. split; lia.
Qed.

(* ---------------------------------------------------------------- the loop nest, for any iterables of the expected shape *)
Section Enum.
  Variables lr ml : Z -> list Z.
  Hypothesis Hlr : forall L, lr L = zrange 0 (L + 1).
  Hypothesis Hml : forall l, 0 <= l -> length (ml l) = Z.to_nat (2 * l + 1).
  Let iters L := number 0 1 (lm_pairs lr ml L).

  Lemma pairs_step L : 0 <= L -> lm_pairs lr ml (L + 1) = lm_pairs lr ml L ++ map (fun m => (L + 1, m)) (ml (L + 1)).
  Proof.
    intros HL. unfold lm_pairs. rewrite (Hlr (L + 1)), (Hlr L), (zrange_snoc 0 (L + 1)) by lia.
    rewrite flat_map_app. simpl. now rewrite app_nil_r.
  Qed.

  Lemma pairs_length n : length (lm_pairs lr ml (Z.of_nat n)) = Z.to_nat ((Z.of_nat n + 1) * (Z.of_nat n + 1)).
  Proof.
    induction n as [|n IH].
    - unfold lm_pairs. change (Z.of_nat 0) with 0. rewrite Hlr, (zrange_one 0). cbn [flat_map]. rewrite app_nil_r, map_length, Hml by lia. reflexivity.
    - rewrite Nat2Z.inj_succ, <- Z.add_1_r, pairs_step, app_length, IH, map_length, Hml by lia. lia.
  Qed.

  Lemma iters_count L : 0 <= L -> map fst (iters L) = zrange 0 ((L + 1) * (L + 1)).
  Proof.
    intros HL. unfold iters. rewrite number_fst. rewrite <- (Z2Nat.id L HL), pairs_length. f_equal. lia.
  Qed.

  Lemma iters_degree n k l m : In (k, (l, m)) (iters (Z.of_nat n)) ->
    l = row_degree k /\ 0 <= l <= Z.of_nat n /\ In m (ml l).
  Proof.
    unfold iters. induction n as [|n IH].
    - unfold lm_pairs. change (Z.of_nat 0) with 0. rewrite Hlr, (zrange_one 0). cbn [flat_map]. rewrite app_nil_r. intros H.
      apply In_number in H. destruct H as [Hk Hin]. apply in_map_iff in Hin. destruct Hin as [m' [E Hm']]. inversion E; subst.
      rewrite map_length, Hml in Hk by lia. unfold row_degree. rewrite (sqrt_band k 0) by lia. repeat split; try lia. exact Hm'.
    - rewrite Nat2Z.inj_succ, <- Z.add_1_r, pairs_step, number_app by lia. intros H. apply in_app_or in H. destruct H as [H|H].
      + destruct (IH H) as (A & B & C). repeat split; try assumption; lia.
      + apply In_number in H. destruct H as [Hk Hin]. apply in_map_iff in Hin. destruct Hin as [m' [E Hm']]. inversion E; subst.
        rewrite map_length, Hml, pairs_length in Hk by lia. unfold row_degree.
        rewrite (sqrt_band k (Z.of_nat n + 1)) by lia. repeat split; try lia. exact Hm'.
  Qed.
End Enum.

Definition enumeration_statement (iters : Z -> list (Z * (Z * Z))) (is_monopole : Z -> Z -> bool) (fx_index : Z -> Z) : Prop :=
  forall L, 0 <= L ->
    (* the counter takes the values 0, 1, ..., (L+1)^2 - 1 in this order: one solve per row of the harmonics *)
    map fst (iters L) = zrange 0 ((L + 1) * (L + 1)) /\
    (* the iteration whose counter is k runs with l_deg = degree of Horton row k, reads the spline of row k,
       and gets the non-zero (monopole) boundary data iff k is the row of (0, 0) *)
    (forall k l m, In (k, (l, m)) (iters L) ->
        l = row_degree k /\ 0 <= l <= L /\ fx_index k = k /\ (is_monopole l m = true <-> k = horton_index 0 0)) /\
    (* rows <-> (l, m), l <= L, |m| <= l is a bijection, so every (l, m) is solved exactly once *)
    (forall l m, 0 <= l <= L -> - l <= m <= l ->
        0 <= horton_index l m < (L + 1) * (L + 1) /\ row_degree (horton_index l m) = l /\ row_order (horton_index l m) = m) /\
    (forall k, 0 <= k < (L + 1) * (L + 1) ->
        0 <= row_degree k <= L /\ - row_degree k <= row_order k <= row_degree k /\ horton_index (row_degree k) (row_order k) = k).

Lemma enumeration_generic lr ml is_mono (fxi : Z -> Z) :
  (forall L, lr L = zrange 0 (L + 1)) -> (forall l, 0 <= l -> length (ml l) = Z.to_nat (2 * l + 1)) ->
  ml 0 = [0] -> (forall l m, is_mono l m = (l =? 0) && (m =? 0)) -> (forall k, fxi k = k) ->
  enumeration_statement (fun L => number 0 1 (lm_pairs lr ml L)) is_mono fxi.
Proof.
  intros Hlr Hml Hm0 Hmono Hfx L HL. split; [apply (iters_count lr ml Hlr Hml L HL)|]. split; [|split].
  - intros k l m Hin. rewrite <- (Z2Nat.id L HL) in Hin.
    pose proof Hin as Hin'. apply (iters_degree lr ml Hlr Hml) in Hin. destruct Hin as (A & B & C). rewrite Z2Nat.id in B by exact HL.
    split; [exact A|]. split; [exact B|]. split; [apply Hfx|]. rewrite Hmono. unfold horton_index. simpl.
    apply In_number in Hin'. destruct Hin' as [Hk _].
    split.
    + intros H. apply andb_true_iff in H. destruct H as [H1 _]. apply Z.eqb_eq in H1. subst l.
      unfold row_degree in H1. assert (k < 1); [|lia].
      destruct (Z_lt_le_dec k 1); [assumption|]. assert (1 <= Z.sqrt k) by (change 1 with (Z.sqrt 1); apply Z.sqrt_le_mono; lia). lia.
    + intros ->. unfold row_degree in A. simpl in A. subst l. rewrite Hm0 in C. destruct C as [<-|[]]. reflexivity.
  - intros l m Hl Hm. destruct (horton_row l m) as (A & B & C); try lia.
    assert ((l + 1) * (l + 1) <= (L + 1) * (L + 1)) by (apply Z.mul_le_mono_nonneg; lia).
    assert (0 <= l * l) by (apply Z.mul_nonneg_nonneg; lia). repeat split; try assumption; lia.
  - intros k Hk. destruct (row_horton k) as (A & B & C); [lia|]. split; [|split; assumption].
    split; [exact A|]. unfold row_degree in *.
    destruct (Z_le_gt_dec (Z.sqrt k) L); [assumption|]. pose proof (Z.sqrt_spec k ltac:(lia)) as S. cbv zeta in S.
    assert ((L + 1) * (L + 1) <= Z.sqrt k * Z.sqrt k) by (apply Z.mul_le_mono_nonneg; lia). lia.
Qed.

