(* C16 property theorems (statements only): far field, boundary-value solver. *)
From Coq Require Import Reals ZArith List Bool.
From Coquelicot Require Import Coquelicot.
From P Require Import C16_base C16_gen C16_model C16_proofs_far.
Import ListNotations.
Open Scope R_scope.

(* far field: the (0,0) component is pinned to boundary = Q / Y00, i.e. V Y00 = Q / r at the outer end *)
Theorem far_field : forall Q Y00 r, Y00 <> 0 -> r <> 0 ->
  bvp_cond 0 0 (bvp_boundary Q Y00) = [(0%Z, 0%Z, 0); (1%Z, 0%Z, bvp_boundary Q Y00)] /\
  bvp_radial_value (fun _ => bvp_boundary Q Y00) r * Y00 = Q / r /\
  (Y00 = / sqrt (4 * PI) -> bvp_boundary Q Y00 = sqrt (4 * PI) * Q).
Proof. exact far_field_bvp_lemma. Qed.
Print Assumptions far_field.

Theorem far_field_other_components : forall l m B, bvp_is_monopole l m = false -> bvp_cond l m B = [(0%Z, 0%Z, 0); (1%Z, 0%Z, 0)].
Proof. exact bvp_cond_other. Qed.
Print Assumptions far_field_other_components.
