(* C16 property theorems (statements only): loop nest, boundary-value solver. *)
From Coq Require Import Reals ZArith List Bool.
From Coquelicot Require Import Coquelicot.
From P Require Import C16_base C16_gen C16_model C16_proofs_enum C16_proofs_enum_bvp.
Import ListNotations.
Open Scope R_scope.

(* the loop nest: one solve per Horton row, with the degree of that row, the spline of that row, monopole data only for row 0;
   rows <-> (l, m) is a bijection *)
Theorem lm_enumeration : enumeration_statement bvp_iters bvp_is_monopole bvp_fx_index.
Proof. exact bvp_enumeration_lemma. Qed.
Print Assumptions lm_enumeration.
