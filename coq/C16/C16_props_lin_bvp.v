(* C16 property theorems (statements only): linearity, boundary-value solver. *)
From Coq Require Import Reals ZArith List Bool.
From Coquelicot Require Import Coquelicot.
From P Require Import C16_base C16_gen C16_model C16_proofs_lin C16_proofs_lin_bvp.
Import ListNotations.
Open Scope R_scope.

(* linearity in the density: molecular solution (sum over atoms of the atomic solutions for w_A rho), both solvers *)
Theorem linear_in_density : forall pt solve Y00 atoms a b (f g : pt -> R) p,
  solver_linear solve -> List.Forall (atom_linear pt) atoms ->
  V_mol pt solve Y00 bvp_scheme atoms (fun x => a * f x + b * g x) p
  = a * V_mol pt solve Y00 bvp_scheme atoms f p + b * V_mol pt solve Y00 bvp_scheme atoms g p.
Proof. exact linear_in_density_bvp_lemma. Qed.
Print Assumptions linear_in_density.
