(* C16 property theorems (statements only): solve_poisson_robust. *)
From Coq Require Import Reals ZArith List Bool.
From Coquelicot Require Import Coquelicot.
From P Require Import C16_base C16_gen C16_model C16_proofs_lin C16_proofs_lin_bvp C16_proofs_robust.
Import ListNotations.
Open Scope R_scope.

(* solve_poisson_robust = analytic core potential (+ analytic potential of the fit) + numerical potential of the residual *)
Theorem robust_recombination : forall pt Vbvp fit_rho fit_V cores vcores (f : pt -> R) p,
  robust pt Vbvp fit_rho fit_V false cores vcores f p = sum_at pt vcores p + Vbvp (res_split1 pt cores f) p /\
  robust pt Vbvp fit_rho fit_V true cores vcores f p =
    sum_at pt vcores p + fit_V (res_split1 pt cores f) p
    + Vbvp (fun x => res_split1 pt cores f x - fit_rho (res_split1 pt cores f) x) p.
Proof. exact robust_recombination_lemma. Qed.
Print Assumptions robust_recombination.

(* that recombination is the potential of f for every linear Coulomb operator, if the analytic pairs are exact and the numerical
   solver is exact on the residual *)
Theorem robust_recombination_sound : forall pt Vbvp fit_rho fit_V (Coul : (pt -> R) -> pt -> R),
  (forall a b f g p, Coul (fun x => a * f x + b * g x) p = a * Coul f p + b * Coul g p) ->
  forall (split2 : bool) cores vcores f p,
  List.Forall2 (fun c v => forall q, v q = Coul c q) cores vcores ->
  (forall g q, fit_V g q = Coul (fit_rho g) q) ->
  (forall g q, g = (if split2 then (fun x : pt => res_split1 pt cores f x - fit_rho (res_split1 pt cores f) x) else res_split1 pt cores f) ->
               Vbvp g q = Coul g q) ->
  robust pt Vbvp fit_rho fit_V split2 cores vcores f p = Coul f p.
Proof. exact robust_sound_lemma. Qed.
Print Assumptions robust_recombination_sound.

(* exact cancellation: the density equals the core model; Vbvp is the model of solve_poisson_bvp with linear oracles *)
Theorem robust_exact_on_core_model : forall pt solve Y00 atoms fit_rho fit_V split2 cores vcores (f : pt -> R) p,
  solver_linear solve -> List.Forall (atom_linear pt) atoms ->
  (forall x, f x = sum_at pt cores x) ->
  (split2 = true -> (forall x, fit_rho (fun _ => 0) x = 0) /\ (forall q, fit_V (fun _ => 0) q = 0)) ->
  robust pt (V_mol pt solve Y00 bvp_scheme atoms) fit_rho fit_V split2 cores vcores f p = sum_at pt vcores p.
Proof. exact robust_exact_on_core_model_lemma. Qed.
Print Assumptions robust_exact_on_core_model.
