(* C16 — far field of the initial-value solver. *)
From Coq Require Import Reals Lra ZArith List.
From Coquelicot Require Import Coquelicot.
From P Require Import C16_base C16_gen C16_model.
Import ListNotations.
Open Scope R_scope.

(* IVP: value and slope at r_max are those of  t |-> boundary / t,  and boundary * Y00 / r_max = Q / r_max *)
Lemma far_field_ivp_lemma Q Y00 rmax : Y00 <> 0 -> 0 < rmax ->
  let B := ivp_boundary Q Y00 in
  exists v0 v1, ivp_cond 0 0 B rmax = [v0; v1] /\ v0 = B / rmax /\ is_derive (fun t => B / t) rmax v1 /\ v0 * Y00 = Q / rmax.
Proof.
  intros HY Hr B. eexists. eexists. split; [reflexivity|]. split; [reflexivity|]. split.
  - auto_derive; [lra|]. field. lra.
  - unfold B, ivp_boundary. field. split; [lra|assumption].
Qed.
Lemma ivp_cond_other l m B rmax : ivp_is_monopole l m = false -> ivp_cond l m B rmax = [0; 0].
Proof. intros H. unfold ivp_cond. now rewrite H. Qed.

