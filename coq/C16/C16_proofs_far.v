(* C16 — far field of the boundary-value solver. *)
From Coq Require Import Reals Lra ZArith List.
From Coquelicot Require Import Coquelicot.
From P Require Import C16_base C16_gen C16_model.
Import ListNotations.
Open Scope R_scope.

(* ---------------------------------------------------------------- far field *)
(* BVP: the (0,0) solution is pinned to `boundary` at the last mesh point; with V = u/r and the constant harmonic Y00 this is Q/r *)
Lemma far_field_bvp_lemma Q Y00 r : Y00 <> 0 -> r <> 0 ->
  bvp_cond 0 0 (bvp_boundary Q Y00) = [(0%Z, 0%Z, 0); (1%Z, 0%Z, bvp_boundary Q Y00)] /\
  bvp_radial_value (fun _ => bvp_boundary Q Y00) r * Y00 = Q / r /\
  (Y00 = / sqrt (4 * PI) -> bvp_boundary Q Y00 = sqrt (4 * PI) * Q).
Proof.
  intros HY Hr. split; [reflexivity|]. unfold bvp_radial_value, bvp_boundary. split.
  - field. split; assumption.
  - intros ->. field. apply Rgt_not_eq, sqrt_lt_R0. pose proof PI_RGT_0. lra.
Qed.

(* every other (l, m): both ends are pinned to 0 *)
Lemma bvp_cond_other l m B : bvp_is_monopole l m = false -> bvp_cond l m B = [(0%Z, 0%Z, 0); (1%Z, 0%Z, 0)].
Proof. intros H. unfold bvp_cond. now rewrite H. Qed.

