(* C16 property theorems (statements only): loop nest, initial-value solver. *)
From Coq Require Import Reals ZArith List Bool.
From Coquelicot Require Import Coquelicot.
From P Require Import C16_base C16_gen C16_model C16_proofs_enum C16_proofs_enum_ivp.
Import ListNotations.
Open Scope R_scope.

Theorem lm_enumeration_ivp : enumeration_statement ivp_iters ivp_is_monopole ivp_fx_index.
Proof. exact ivp_enumeration_lemma. Qed.
Print Assumptions lm_enumeration_ivp.
