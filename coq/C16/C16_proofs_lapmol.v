(* C16 — interpolate_laplacian on a molecular grid is the sum over the atoms A of the atomic Laplacian of (w_A f) on A's grid.
   Separate file: it fails alone when the closures appended in the loop do not bind the per-atom objects. *)
From Coq Require Import Reals List Arith.
From P Require Import C16_base C16_gen C16_model.
Import ListNotations.
Open Scope R_scope.

Lemma laplacian_mol_sum_lemma n lap_at : lap_mol n lap_at = lap_mol_spec n lap_at.
Proof. unfold lap_mol, lap_mol_spec, lap_grid_of, lap_slice_of. reflexivity. Qed.
