(* C12 property theorems (statements only; proofs are in C12_proofs.v). *)
From Coq Require Import ZArith List.
From VLib Require Import Tables.
From P Require Import C12_gen C12_proofs.
Import ListNotations.
Open Scope Z_scope.

(* every requested degree: the smallest supported degree not below it, reported (degree,size) is a table
   row; requests above the maximum (or negative) are rejected *)
Theorem resolve_degree_least : forall m d,
  match resolve_degree m d with
  | Some (d', s') => 0 <= d /\ In (d', s') (degrees_table m) /\ d <= d' /\
                     forall d'' s'', In (d'', s'') (degrees_table m) -> d <= d'' -> d' <= d''
  | None => d < 0 \/ forall d'' s'', In (d'', s'') (degrees_table m) -> d'' < d
  end.
Proof. exact resolve_degree_least_lemma. Qed.
Print Assumptions resolve_degree_least.

Theorem resolve_size_least : forall m s,
  match resolve_size m s with
  | Some (d', s') => 0 <= s /\ In (d', s') (degrees_table m) /\ s <= s' /\
                     forall d'' s'', In (d'', s'') (degrees_table m) -> s <= s'' -> s' <= s''
  | None => s < 0 \/ forall d'' s'', In (d'', s'') (degrees_table m) -> s'' < s
  end.
Proof. exact resolve_size_least_lemma. Qed.
Print Assumptions resolve_size_least.

(* the two tables of each method are strictly ascending and mutually inverse *)
Theorem tables_sorted_inverse : forall m,
  strictly_sortedb (keys (degrees_table m)) = true /\ strictly_sortedb (keys (npoints_table m)) = true /\
  (forall d s, In (s, d) (npoints_table m) <-> In (d, s) (degrees_table m)) /\
  degrees_table m <> [] /\ npoints_table m <> [].
Proof. exact tables_facts. Qed.
Print Assumptions tables_sorted_inverse.

(* a data file with exactly that many points (and that many, or one broadcast, weights) exists for every table row *)
Theorem files_match_tables : forall m d s, In (d, s) (degrees_table m) ->
  exists np nw, In (d, s, np, nw) (files_of m) /\ np = s /\ (nw = s \/ nw = 1).
Proof. exact files_match_tables_lemma. Qed.
Print Assumptions files_match_tables.

(* size -> degree conversion of a sequence is element-wise the resolution rule *)
Theorem convert_elementwise : forall m sizes r, convert m sizes = Some r ->
  r = map (deg_of_size m) sizes /\
  forall i, (i < length sizes)%nat -> exists s', resolve_size m (nth i sizes 0) = Some (nth i r 0, s').
Proof. exact convert_elementwise_lemma. Qed.
Print Assumptions convert_elementwise.

Theorem shells_never_coarser : forall m ds,
  Forall (fun d => match resolve_degree m d with Some (d', _) => d <= d' | None => True end) ds.
Proof. exact shells_never_coarser_lemma. Qed.
Print Assumptions shells_never_coarser.
