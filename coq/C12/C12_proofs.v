(* C12: degree/size resolution.  Depends on the generated tables (C12_gen.v, rebuilt from /repo each run). *)
From Coq Require Import ZArith List Bool Lia.
From VLib Require Import Tables.
From P Require Import C12_gen.
Import ListNotations.
Open Scope Z_scope.

Inductive method := Lebedev | Spherical | Maxdet | AhrensBeylkin.

Definition degrees_table (m : method) : table :=
  match m with Lebedev => lebedev_degrees | Spherical => spherical_degrees
             | Maxdet => max_det_degrees | AhrensBeylkin => ahrens_beylkin_degrees end.
Definition npoints_table (m : method) : table :=
  match m with Lebedev => lebedev_npoints | Spherical => spherical_npoints
             | Maxdet => max_det_npoints | AhrensBeylkin => ahrens_beylkin_npoints end.
Definition files_of (m : method) : list (Z * Z * Z * Z) :=
  match m with Lebedev => files_lebedev | Spherical => files_spherical
             | Maxdet => files_maxdet | AhrensBeylkin => files_ahrens_beylkin end.

(* _get_degree_and_size(degree=d) -> (degree, size);  _get_degree_and_size(size=s) -> (degree, size) *)
Definition resolve_degree (m : method) (d : Z) : option (Z * Z) := resolve (degrees_table m) d.
Definition resolve_size (m : method) (s : Z) : option (Z * Z) :=
  match resolve (npoints_table m) s with Some (s', d') => Some (d', s') | None => None end.

Definition tables_okb (m : method) : bool :=
  strictly_sortedb (keys (degrees_table m)) && strictly_sortedb (keys (npoints_table m)) &&
  same_pairs (swap_table (npoints_table m)) (degrees_table m) &&
  negb (Nat.eqb (length (degrees_table m)) 0) && negb (Nat.eqb (length (npoints_table m)) 0).

Lemma tables_ok : forall m, tables_okb m = true.
Proof. intros []; vm_compute; reflexivity. Qed.

Lemma tables_facts m :
  strictly_sortedb (keys (degrees_table m)) = true /\ strictly_sortedb (keys (npoints_table m)) = true /\
  (forall d s, In (s, d) (npoints_table m) <-> In (d, s) (degrees_table m)) /\
  degrees_table m <> [] /\ npoints_table m <> [].
Proof.
  pose proof (tables_ok m) as H. unfold tables_okb in H.
  repeat (apply andb_prop in H; destruct H as [H ?]).
  repeat split; try assumption.
  - intros Hin. apply (same_pairs_spec _ _ H2). unfold swap_table. apply in_map_iff.
    exists (s, d). split; [reflexivity|exact Hin].
  - intros Hin. apply (same_pairs_spec _ _ H2) in Hin. unfold swap_table in Hin.
    apply in_map_iff in Hin as [[a b] [Heq Hin]]. cbn in Heq. now inversion Heq; subst.
  - intros E. rewrite E in H1. discriminate.
  - intros E. rewrite E in H0. discriminate.
Qed.

Lemma resolve_degree_least_lemma : forall m d,
  match resolve_degree m d with
  | Some (d', s') => 0 <= d /\ In (d', s') (degrees_table m) /\ d <= d' /\
                     forall d'' s'', In (d'', s'') (degrees_table m) -> d <= d'' -> d' <= d''
  | None => d < 0 \/ forall d'' s'', In (d'', s'') (degrees_table m) -> d'' < d
  end.
Proof.
  intros m d. destruct (tables_facts m) as (S1 & _ & _ & N1 & _).
  exact (resolve_spec (degrees_table m) d S1 N1).
Qed.

Lemma resolve_size_least_lemma : forall m s,
  match resolve_size m s with
  | Some (d', s') => 0 <= s /\ In (d', s') (degrees_table m) /\ s <= s' /\
                     forall d'' s'', In (d'', s'') (degrees_table m) -> s <= s'' -> s' <= s''
  | None => s < 0 \/ forall d'' s'', In (d'', s'') (degrees_table m) -> s'' < s
  end.
Proof.
  intros m s. destruct (tables_facts m) as (_ & S2 & Hinv & _ & N2).
  pose proof (resolve_spec (npoints_table m) s S2 N2) as R. unfold resolve_size.
  destruct (resolve (npoints_table m) s) as [[s' d']|].
  - destruct R as (R1 & R2 & R3 & R4). repeat split; [exact R1|now apply Hinv|exact R3|].
    intros d'' s'' Hin. apply R4 with (v' := d''). now apply Hinv.
  - destruct R as [R|R]; [now left|right]. intros d'' s'' Hin. apply (R s'' d''). now apply Hinv.
Qed.

(* data directory: every table row has a file `method_degree_size.npz` holding `size` points and
   `size` (or 1) weights.  (Files that no table row names are unreachable through the API and are
   not constrained by the property; the harness lists them in the evidence.) *)
Definition row_has_fileb (m : method) (row : Z * Z) : bool :=
  existsb (fun f => let '(d, s, np, nw) := f in pair_eqb row (d, s) && (np =? s) && ((nw =? s) || (nw =? 1))) (files_of m).
Definition files_okb (m : method) : bool := forallb (row_has_fileb m) (degrees_table m).

Lemma files_ok : forall m, files_okb m = true.
Proof. intros []; vm_compute; reflexivity. Qed.

Lemma files_match_tables_lemma : forall m d s, In (d, s) (degrees_table m) ->
  exists np nw, In (d, s, np, nw) (files_of m) /\ np = s /\ (nw = s \/ nw = 1).
Proof.
  intros m d s Hin. pose proof (files_ok m) as H. unfold files_okb in H.
  rewrite forallb_forall in H. specialize (H _ Hin). unfold row_has_fileb in H.
  apply existsb_exists in H as [[[[d' s'] np] nw] [Hf He]].
  apply andb_prop in He as [He Hw]. apply andb_prop in He as [He Hp].
  unfold pair_eqb in He. cbn [fst snd] in He. apply andb_prop in He as [E1 E2].
  apply Z.eqb_eq in E1, E2, Hp. subst d' s'. exists np, nw. split; [exact Hf|]. split; [exact Hp|].
  apply orb_prop in Hw. destruct Hw as [Hw|Hw]; apply Z.eqb_eq in Hw; auto.
Qed.

(* ---- convert_angular_sizes_to_degrees: loop over np.unique(sizes) with masked assignment ---- *)
Definition deg_of_size (m : method) (s : Z) : Z :=
  match resolve_size m s with Some (d, _) => d | None => 0 end.

Fixpoint map2 {A B C} (f : A -> B -> C) (l1 : list A) (l2 : list B) : list C :=
  match l1, l2 with a :: r1, b :: r2 => f a b :: map2 f r1 r2 | _, _ => [] end.

Definition assign_where (m : method) (sizes : list Z) (degs : list Z) (s : Z) : list Z :=
  map2 (fun sz d => if sz =? s then deg_of_size m s else d) sizes degs.

(* [us] plays the role of np.unique(sizes): any list with the same elements *)
Definition convert_with (m : method) (us sizes : list Z) : list Z :=
  fold_left (assign_where m sizes) us (map (fun _ => 0) sizes).

Fixpoint uniq (l : list Z) : list Z :=
  match l with [] => [] | x :: r => if existsb (Z.eqb x) r then uniq r else x :: uniq r end.

Definition convert (m : method) (sizes : list Z) : option (list Z) :=
  if forallb (fun s => match resolve_size m s with Some _ => true | None => false end) sizes
  then Some (convert_with m (uniq sizes) sizes) else None.

Lemma uniq_in l x : In x (uniq l) <-> In x l.
Proof.
  induction l as [|y l IH]; [reflexivity|]. cbn [uniq].
  destruct (existsb (Z.eqb y) l) eqn:E.
  - rewrite IH. split; [now right|]. intros [<-|H]; [|exact H].
    apply existsb_exists in E as [z [Hz Hyz]]. apply Z.eqb_eq in Hyz. now subst.
  - cbn [In]. rewrite IH. reflexivity.
Qed.

Lemma map2_length {A B C} (f : A -> B -> C) l1 l2 : length l1 = length l2 -> length (map2 f l1 l2) = length l1.
Proof. revert l2; induction l1 as [|a l1 IH]; intros [|b l2] H; cbn in *; try lia. rewrite IH; lia. Qed.

Lemma nth_map2 {A B C} (f : A -> B -> C) l1 l2 i a0 b0 c0 : length l1 = length l2 -> (i < length l1)%nat ->
  nth i (map2 f l1 l2) c0 = f (nth i l1 a0) (nth i l2 b0).
Proof.
  revert l2 i; induction l1 as [|a l1 IH]; intros [|b l2] i H Hi; cbn in *; try lia.
  destruct i; [reflexivity|]. apply IH; lia.
Qed.

Lemma convert_with_nth m sizes : forall us degs i, length degs = length sizes -> (i < length sizes)%nat ->
  nth i (fold_left (assign_where m sizes) us degs) 0 =
  if existsb (Z.eqb (nth i sizes 0)) us then deg_of_size m (nth i sizes 0) else nth i degs 0.
Proof.
  induction us as [|u us IH]; intros degs i Hl Hi; cbn [fold_left existsb]; [reflexivity|].
  rewrite IH; [|unfold assign_where; rewrite map2_length; lia|exact Hi].
  unfold assign_where at 1. rewrite (nth_map2 _ _ _ _ 0 0 0) by lia.
  destruct (Z.eqb_spec (nth i sizes 0) u) as [->|Hne]; cbn [orb].
  - destruct (existsb (Z.eqb u) us); reflexivity.
  - destruct (existsb (Z.eqb (nth i sizes 0)) us); reflexivity.
Qed.

Lemma convert_with_length m sizes : forall us degs, length degs = length sizes ->
  length (fold_left (assign_where m sizes) us degs) = length sizes.
Proof.
  induction us as [|u us IH]; intros degs Hl; cbn [fold_left]; [exact Hl|].
  apply IH. unfold assign_where. rewrite map2_length; lia.
Qed.

Lemma convert_elementwise_lemma : forall m sizes r, convert m sizes = Some r ->
  r = map (deg_of_size m) sizes /\
  forall i, (i < length sizes)%nat -> exists s', resolve_size m (nth i sizes 0) = Some (nth i r 0, s').
Proof.
  intros m sizes r. unfold convert.
  destruct (forallb _ sizes) eqn:Hall; [|discriminate]. intros H; injection H as <-.
  assert (E : convert_with m (uniq sizes) sizes = map (deg_of_size m) sizes).
  { apply (nth_ext _ _ 0 0).
    - unfold convert_with. rewrite convert_with_length by (now rewrite map_length). now rewrite map_length.
    - unfold convert_with. rewrite convert_with_length by now rewrite map_length. intros i Hi.
      rewrite convert_with_nth by (rewrite ?map_length; auto).
      replace (nth i (map (deg_of_size m) sizes) 0) with (deg_of_size m (nth i sizes 0)).
      2:{ symmetry. rewrite (nth_indep _ 0 (deg_of_size m 0)) by now rewrite map_length. apply map_nth. }
      destruct (existsb _ (uniq sizes)) eqn:Ex; [reflexivity|]. exfalso.
      assert (In (nth i sizes 0) (uniq sizes)) by (apply uniq_in, nth_In, Hi).
      assert (existsb (Z.eqb (nth i sizes 0)) (uniq sizes) = true).
      { apply existsb_exists. eexists; split; [eassumption|apply Z.eqb_refl]. }
      congruence. }
  split; [exact E|]. intros i Hi. rewrite E.
  rewrite forallb_forall in Hall. specialize (Hall _ (nth_In _ 0 Hi)).
  rewrite (nth_indep (map (deg_of_size m) sizes) 0 (deg_of_size m 0)) by now rewrite map_length.
  rewrite map_nth. unfold deg_of_size. destruct (resolve_size m (nth i sizes 0)) as [[d s']|]; [eauto|discriminate].
Qed.

(* shells never coarser: a requested degree list / size list is resolved shell by shell *)
Lemma shells_never_coarser_lemma : forall m ds, 
  Forall (fun d => match resolve_degree m d with Some (d', _) => d <= d' | None => True end) ds.
Proof.
  intros m ds. apply Forall_forall. intros d _. pose proof (resolve_degree_least_lemma m d) as H.
  destruct (resolve_degree m d) as [[d' s']|]; [tauto|exact I].
Qed.

Example nonvacuous : resolve_degree Lebedev 4 = Some (5, 18) /\ resolve_size Lebedev 19 = Some (7, 26)
  /\ convert Lebedev [6; 19; 6; 300] = Some [3; 7; 3; 29] /\ resolve_degree Lebedev 132 = None.
Proof. vm_compute. repeat split. Qed.
